---------------------------- MODULE GlobalDetach ----------------------------
(***************************************************************************)
(* C17, concurrent part - property layer for appends racing with attach /  *)
(* detach of a global sink (no test sinks involved: they are thread- or    *)
(* runtime-scoped and covered by GlobalSink.tla).                          *)
(*                                                                         *)
(* Only what the property statement mentions:                              *)
(*  - every try_append takes effect at one instant between its call and    *)
(*    its return (LinApp): with a sink attached at that instant the entry  *)
(*    is accepted by exactly that sink and the call returns Ok, with none  *)
(*    attached the entry is handed back (Err);                             *)
(*  - attach takes effect at one instant (LinAttach); attaching while      *)
(*    attached panics and changes nothing (LinAttachFail);                 *)
(*  - dropping the attach handle detaches at one instant (LinDetach), and  *)
(*    routing is restored to the next destination only AFTER what the      *)
(*    detached sink had accepted has been handed to its output and         *)
(*    flushed: LinDetach is enabled only then, so no call on any thread    *)
(*    can see the sink gone (try_append handing its entry back or reaching *)
(*    the next sink, is_attached() = false, a replacement attach           *)
(*    succeeding) while accepted entries are still unwritten; the drop     *)
(*    returns after that instant (DetachEnd);                              *)
(*  - is_attached() reads whether a sink is attached at one instant        *)
(*    between its call and its return (LinObs);                            *)
(*  - an output only ever sees entries its sink accepted, each once.       *)
(* Nothing about locks, queues, writer threads.                            *)
(*                                                                         *)
(* Sinks and entries are positive integers; 0 = none.                      *)
(* Used by GlobalSinkTrace.tla (recorded executions of the real code) and  *)
(* by GlobalSinkRace.tla (lock-level model; TLC checks that it refines     *)
(* this module for every interleaving).                                    *)
(***************************************************************************)
EXTENDS Naturals, Sequences, FiniteSets, TLC

VARIABLES
    aatt,      \* the sink attached now (0 = none)
    pendApp,   \* <<p, e>>: try_append(e) by p called, not yet in effect
    linApp,    \* <<p, e, d>>: in effect with destination d (0 = handed back), not yet returned
    okd,       \* entries whose try_append returned Ok
    errd,      \* entries whose try_append returned Err(entry)
    accepted,  \* sink -> set of entries it accepted
    nexted,    \* sink -> sequence of entries handed to its output
    nflushed,  \* sink -> length of the flushed prefix of nexted
    closedS,   \* sinks whose output has been closed
    astate,    \* sink -> "new" | "attaching" | "attlin" | "held" | "faillin" | "failed"
               \*         | "detaching" | "detlin" | "detached"
    obs        \* observer -> "pend" | "yes" | "no": an is_attached() call in progress and what it read

dvars == <<aatt, pendApp, linApp, okd, errd, accepted, nexted, nflushed, closedS, astate, obs>>

SeqRange(s) == {s[i] : i \in 1..Len(s)}
Flushed(s) == {nexted[s][i] : i \in 1..nflushed[s]}

DInit(S) ==
    /\ aatt = 0 /\ pendApp = {} /\ linApp = {} /\ okd = {} /\ errd = {}
    /\ accepted = [s \in S |-> {}] /\ nexted = [s \in S |-> <<>>] /\ nflushed = [s \in S |-> 0]
    /\ closedS = {} /\ astate = [s \in S |-> "new"] /\ obs = <<>>

\* ---- try_append -------------------------------------------------------------
TryStart(p, e) ==
    /\ pendApp' = pendApp \cup {<<p, e>>}
    /\ UNCHANGED <<aatt, linApp, okd, errd, accepted, nexted, nflushed, closedS, astate, obs>>

LinApp(p, e) ==
    /\ <<p, e>> \in pendApp
    /\ pendApp' = pendApp \ {<<p, e>>}
    /\ linApp' = linApp \cup {<<p, e, aatt>>}
    /\ accepted' = IF aatt # 0 THEN [accepted EXCEPT ![aatt] = @ \cup {e}] ELSE accepted
    /\ UNCHANGED <<aatt, okd, errd, nexted, nflushed, closedS, astate, obs>>

TryEnd(p, e, ok) ==
    /\ \E d \in DOMAIN accepted \cup {0} : <<p, e, d>> \in linApp /\ (ok <=> d # 0)
    /\ linApp' = {x \in linApp : ~(x[1] = p /\ x[2] = e)}
    /\ okd' = IF ok THEN okd \cup {e} ELSE okd
    /\ errd' = IF ok THEN errd ELSE errd \cup {e}
    /\ UNCHANGED <<aatt, pendApp, accepted, nexted, nflushed, closedS, astate, obs>>

\* ---- attach -------------------------------------------------------------------
AttachStart(s) ==
    /\ astate[s] = "new" /\ astate' = [astate EXCEPT ![s] = "attaching"]
    /\ UNCHANGED <<aatt, pendApp, linApp, okd, errd, accepted, nexted, nflushed, closedS, obs>>

LinAttach(s) ==
    /\ astate[s] = "attaching" /\ aatt = 0
    /\ aatt' = s /\ astate' = [astate EXCEPT ![s] = "attlin"]
    /\ UNCHANGED <<pendApp, linApp, okd, errd, accepted, nexted, nflushed, closedS, obs>>

LinAttachFail(s) ==
    /\ astate[s] = "attaching" /\ aatt # 0
    /\ astate' = [astate EXCEPT ![s] = "faillin"]
    /\ UNCHANGED <<aatt, pendApp, linApp, okd, errd, accepted, nexted, nflushed, closedS, obs>>

\* attach returned a handle (ok) or panicked (~ok)
AttachEnd(s, ok) ==
    /\ astate[s] = IF ok THEN "attlin" ELSE "faillin"
    /\ astate' = [astate EXCEPT ![s] = IF ok THEN "held" ELSE "failed"]
    /\ UNCHANGED <<aatt, pendApp, linApp, okd, errd, accepted, nexted, nflushed, closedS, obs>>

\* ---- drop of the attach handle ------------------------------------------------
DetachStart(s) ==
    /\ astate[s] = "held" /\ astate' = [astate EXCEPT ![s] = "detaching"]
    /\ UNCHANGED <<aatt, pendApp, linApp, okd, errd, accepted, nexted, nflushed, closedS, obs>>

\* "... after flushing what the detached sink had accepted"
DetachFlushed(s) == accepted[s] \subseteq Flushed(s)

LinDetach(s) ==
    /\ astate[s] = "detaching" /\ aatt = s
    /\ DetachFlushed(s)                       \* routing changes only after the flush
    /\ aatt' = 0 /\ astate' = [astate EXCEPT ![s] = "detlin"]
    /\ UNCHANGED <<pendApp, linApp, okd, errd, accepted, nexted, nflushed, closedS, obs>>

DetachEnd(s) ==
    /\ astate[s] = "detlin" /\ DetachFlushed(s)
    /\ astate' = [astate EXCEPT ![s] = "detached"]
    /\ UNCHANGED <<aatt, pendApp, linApp, okd, errd, accepted, nexted, nflushed, closedS, obs>>

\* ---- is_attached() ---------------------------------------------------------------
ObsStart(p) ==
    /\ p \notin DOMAIN obs /\ obs' = obs @@ (p :> "pend")
    /\ UNCHANGED <<aatt, pendApp, linApp, okd, errd, accepted, nexted, nflushed, closedS, astate>>
LinObs(p) ==
    /\ p \in DOMAIN obs /\ obs[p] = "pend" /\ obs' = [obs EXCEPT ![p] = IF aatt # 0 THEN "yes" ELSE "no"]
    /\ UNCHANGED <<aatt, pendApp, linApp, okd, errd, accepted, nexted, nflushed, closedS, astate>>
ObsEnd(p, v) ==
    /\ p \in DOMAIN obs /\ obs[p] = v /\ obs' = [q \in DOMAIN obs \ {p} |-> obs[q]]
    /\ UNCHANGED <<aatt, pendApp, linApp, okd, errd, accepted, nexted, nflushed, closedS, astate>>

\* ---- the sinks' outputs ---------------------------------------------------------
AllNexted == UNION {SeqRange(nexted[s]) : s \in DOMAIN nexted}

\* exactly one destination: only the sink that accepted e hands it on, once
Next(s, e) ==
    /\ e \in accepted[s] /\ e \notin AllNexted /\ s \notin closedS
    /\ nexted' = [nexted EXCEPT ![s] = Append(@, e)]
    /\ UNCHANGED <<aatt, pendApp, linApp, okd, errd, accepted, nflushed, closedS, astate, obs>>

Flush(s) ==
    /\ s \notin closedS
    /\ nflushed' = [nflushed EXCEPT ![s] = Len(nexted[s])]
    /\ UNCHANGED <<aatt, pendApp, linApp, okd, errd, accepted, nexted, closedS, astate, obs>>

Close(s) ==
    /\ s \notin closedS /\ closedS' = closedS \cup {s}
    /\ UNCHANGED <<aatt, pendApp, linApp, okd, errd, accepted, nexted, nflushed, astate, obs>>

\* every call has returned and every attached sink has been detached again: every entry is
\* in exactly one place (the output of one sink, or back with its caller)
Quiesced ==
    /\ pendApp = {} /\ linApp = {} /\ aatt = 0
    /\ okd \cap errd = {}
    /\ \A e \in okd : \E s \in DOMAIN nexted : e \in Flushed(s)
    /\ \A e \in errd : e \notin AllNexted

\* ---- invariants of the property layer ---------------------------------------------
NoDupNext == \A s \in DOMAIN nexted : \A i, j \in 1..Len(nexted[s]) : nexted[s][i] = nexted[s][j] => i = j
OneSink == \A s1, s2 \in DOMAIN nexted : s1 # s2 => SeqRange(nexted[s1]) \cap SeqRange(nexted[s2]) = {}
OnlyAccepted == \A s \in DOMAIN nexted : SeqRange(nexted[s]) \subseteq accepted[s]
AcceptedOnce == \A s1, s2 \in DOMAIN accepted : s1 # s2 => accepted[s1] \cap accepted[s2] = {}
\* a returned Ok means some sink accepted the entry; a returned Err means none did
OkAccepted == /\ \A e \in okd : \E s \in DOMAIN accepted : e \in accepted[s]
              /\ \A e \in errd : \A s \in DOMAIN accepted : e \notin accepted[s]
DInv == NoDupNext /\ OneSink /\ OnlyAccepted /\ AcceptedOnce /\ OkAccepted
=============================================================================
