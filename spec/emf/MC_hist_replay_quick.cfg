\* C14 behaviours, quick: every triple for one configuration, every pair for the others
CONSTANTS
  Bug = "none"
  ConfigNames = {"v1", "n1", "v2d", "n2d", "v3dd", "v1i", "s2d", "sn1", "wf", "ws", "wg"}
  Depth = 3
  Shallow = 2
  Deep = {"v3dd"}
SPECIFICATION RSpec
INVARIANT Emit
CONSTRAINT Bound
CHECK_DEADLOCK FALSE
