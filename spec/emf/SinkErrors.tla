----------------------------- MODULE SinkErrors -----------------------------
(***************************************************************************)
(* C16 (sink part): neither validation nor I/O errors stop a sink.         *)
(*                                                                         *)
(* A sink hands every appended entry to its stream; the stream answers ok, *)
(* val (validation error) or io (I/O error) and its flush may fail.  With  *)
(* Tee the "stream" is two streams.  The property layer is the hand-off    *)
(* log per stream:                                                         *)
(*   ExactlyOnce   after n appends every stream was handed exactly the     *)
(*                 entries 1..n, once each, in order - whatever any        *)
(*                 stream answered for any earlier entry, and whatever the *)
(*                 other branch of a Tee answered for this one             *)
(*   NoPanic       appending never panics                                  *)
(* FlushEach (FlushImmediately flushes after every append, also after a    *)
(* failed one; Tee flushes both branches) is implementation-shaped: a      *)
(* deviation is reported as MODEL-DRIFT only.                              *)
(* CONSTANT Bug re-introduces a defect (sensitivity runs): andThen (Tee    *)
(* short-circuits), returnOnError (sink returns before the flush),         *)
(* poison (a failed append poisons the sink).                              *)
(* The BackgroundQueue satisfies the same rule through QueueAbs.Next,      *)
(* which ignores the result (checked by trace validation, QueueTrace.tla). *)
(***************************************************************************)
EXTENDS Naturals, Sequences, FiniteSets, TLC

CONSTANTS Streams, MaxEntries, Bug
Results == {"ok", "val", "io"}

VARIABLES n, handed, flushes, panicked
svars == <<n, handed, flushes, panicked>>

Init == /\ n = 0 /\ handed = [s \in Streams |-> <<>>] /\ flushes = [s \in Streams |-> 0]
        /\ panicked = FALSE

First == "a"   \* Tee calls s1 = "a" first

\* append entry n+1; res[s] / ferr[s]: what stream s answers to next / flush
Put(res, ferr) ==
  /\ n < MaxEntries
  /\ n' = n + 1
  /\ LET dead == Bug = "poison" /\ panicked
         skipped(s) == \/ dead
                       \/ Bug = "andThen" /\ s # First /\ res[First] # "ok"
         failed == \E s \in Streams : res[s] # "ok" /\ ~skipped(s)
     IN /\ handed' = [s \in Streams |-> IF skipped(s) THEN handed[s] ELSE handed[s] \o <<n + 1>>]
        /\ flushes' = [s \in Streams |-> IF dead \/ (Bug = "returnOnError" /\ failed) THEN flushes[s]
                                         ELSE flushes[s] + 1]
        /\ panicked' = (dead \/ (Bug = "poison" /\ failed))

Next == \E res \in [Streams -> Results], ferr \in [Streams -> BOOLEAN] : Put(res, ferr)
Spec == Init /\ [][Next]_svars

ExactlyOnce == \A s \in Streams : handed[s] = [i \in 1..n |-> i]
NoPanic == ~panicked
FlushEach == \A s \in Streams : flushes[s] = n
SInv == ExactlyOnce /\ NoPanic /\ FlushEach
=============================================================================
