CONSTANTS
  Configs <- ConfigsA
  InitEntries <- Empty0
  NextCalls <- NextA
  MaxCalls = 2
SPECIFICATION Spec
INVARIANT TypeOK
INVARIANT WellFormed
INVARIANT Sound
INVARIANT Transparent
INVARIANT RejectIff
INVARIANT UnroutableReport
INVARIANT Faithful
INVARIANT Emit
CHECK_DEADLOCK FALSE
