--------------------------- MODULE SamplingReplay ---------------------------
(***************************************************************************)
(* Behaviour generator for the congressional sampler: every volume history *)
(* of length Depth (BFS over the history variable) is printed as one JSON   *)
(* line with, after every interval, the tracked groups and their exact      *)
(* moving averages and rates.  `samp congress` feeds the volumes to a real  *)
(* CongressSample.  Groups are numbered; ToJson prints functions over 1..n  *)
(* as arrays.                                                               *)
(***************************************************************************)
EXTENDS Sampling, Json

CONSTANTS Depth,
          SortFirst,  \* TRUE: groups are interchangeable, so only first intervals with ascending volumes
          OnlyEnds    \* TRUE: group 1 is silent except in the first and the last interval, the others are
                      \* busy in the middle intervals (TTL histories)
VARIABLE hist
rvars == <<cvars, hist>>

Obs == [g \in Groups |-> [present |-> g \in present',
                          avg |-> IF g \in present' THEN R(sum'[g], cnt'[g]) ELSE <<0, 1>>,
                          rate |-> rate'[g]]]
MaxVol == CHOOSE v \in Vols : \A w \in Vols : w <= v
RInit == CInit /\ hist = <<>>
RNext == \E vol \in [Groups -> Vols] :
            /\ (OnlyEnds /\ iv # 0 /\ iv # Depth - 1) => vol[1] = 0
            /\ (OnlyEnds /\ iv >= 2 /\ iv <= Depth - 4) => \A g \in Groups \ {1} : vol[g] = MaxVol
            /\ (SortFirst /\ iv = 0) => \A g \in Groups : \A h \in Groups : g < h => vol[g] <= vol[h]
            /\ EndInterval(vol)
            /\ hist' = Append(hist, [vol |-> vol, after |-> Obs])
RSpec == RInit /\ [][RNext]_rvars
Bound == Len(hist) <= Depth
Emit == (Len(hist) = Depth) => PrintT(<<"REPLAY", ToJson([target |-> target, steps |-> hist])>>)
=============================================================================
