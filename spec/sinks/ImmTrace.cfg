CONSTANTS
  Threads = {1, 2, 3, 4}
  PerThread = 9
  NextRes = {"ok", "val", "io", "panic"}
  FlushRes = {"ok", "err", "panic"}
  AsyncOK = TRUE
  Bug = "none"
  Strict = TRUE
SPECIFICATION TSpec
CONSTRAINT Track
INVARIANT TInv
POSTCONDITION Accepted
CHECK_DEADLOCK FALSE
