SPECIFICATION TSpec
CONSTRAINT Track
POSTCONDITION Accepted
CHECK_DEADLOCK FALSE
