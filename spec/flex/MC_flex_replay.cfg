\* every history of one Flex field: <= 4 builder/mutator calls, every surrounding definition, both value types
CONSTANTS
  MaxOps = 3
  Wraps = {"bare", "plain", "pascal", "kebab", "prefix", "pascalprefix", "fprefix", "nested"}
  Keys = {"dyn_key", "DynKey", "dyn-key.v1"}
  Types = {"u64", "probe"}
SPECIFICATION RSpec
INVARIANT Emit_
CHECK_DEADLOCK FALSE
