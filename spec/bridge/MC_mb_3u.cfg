CONSTANTS
  Updaters = {1, 2, 3}
  NOps = 1
  NReadouts = 2
  CKeys = {"c1"}
  GKeys = {"g1"}
  HKeys = {"h1"}
  Buckets = {1}
  IncVals = {1}
  RecCounts = {1, 2}
  ReaderMode = "swap"
SPECIFICATION Spec
INVARIANT BridgeInv
CHECK_DEADLOCK FALSE
