----------------------------- MODULE MutexTrace -----------------------------
(***************************************************************************)
(* Trace validation (T direction) for C10, mutex-shared sink: merger       *)
(* threads drop CloseAndMergeOnDrop guards of (or merge directly into) a   *)
(* real MutexSink<Aggregate<T>> while the main thread closes parent        *)
(* entries that embed it.  Logged: MergeStart/MergeEnd(i) around every     *)
(* merge, CloseStart/CloseEnd(c, inputs decoded from the emitted bit-mask  *)
(* sum, from the emitted distribution, emitted count).  The instants at    *)
(* which a merge / a close takes effect are silent steps.  MergeStart.h is *)
(* a search hint computed from the trace itself: the close whose aggregate *)
(* contained the input (0 = none); it only prunes runs that could never be *)
(* accepted (an input emitted by close c cannot take effect after close c  *)
(* did).                                                                   *)
(***************************************************************************)
EXTENDS MutexAbs, Sequences, Json, IOUtils

Rec == ndJsonDeserialize(IOEnv.TRACE)
N == Len(Rec)
VARIABLES l, hint
tvars == <<mvars, l, hint>>
Ev(name) == l <= N /\ Rec[l].ev = name
Adv == l' = l + 1
ToSet(s) == {s[i] : i \in 1..Len(s)}
NoDup(s) == \A i, j \in 1..Len(s) : s[i] = s[j] => i = j

TInit == l = 1 /\ MInit /\ hint = <<>> /\ TLCSet(1, 1) /\ TLCSet(2, <<>>)
TReset == /\ Ev("Reset") /\ Adv
          /\ mpend' = {} /\ mlin' = {} /\ mdone' = {} /\ heldA' = {} /\ cstate' = <<>> /\ taken' = <<>>
          /\ emittedA' = {} /\ hint' = <<>>
TMergeStart == Ev("MergeStart") /\ Adv /\ MergeStart(Rec[l].i) /\ hint' = (Rec[l].i :> Rec[l].h) @@ hint
TMergeEnd   == Ev("MergeEnd") /\ Adv /\ MergeEnd(Rec[l].i) /\ UNCHANGED hint
TCloseStart == Ev("CloseStart") /\ Adv /\ CloseStart(Rec[l].c) /\ UNCHANGED hint
TCloseEnd   == Ev("CloseEnd") /\ Adv /\ NoDup(Rec[l].obs)
               /\ CloseEnd(Rec[l].c, ToSet(Rec[l].sum), ToSet(Rec[l].obs), Rec[l].n) /\ UNCHANGED hint
TQuiesce    == Ev("Quiesce") /\ Adv /\ MQuiesced /\ UNCHANGED <<mvars, hint>>

\* closes are made one after the other: the close in progress or next to begin
NextClose == Cardinality({c \in DOMAIN cstate : cstate[c] # "started"}) + 1
\* (a merge that was never emitted, hint 0, may take effect any time: the run is then rejected where
\* a close fails to emit it, not at the merge)
SilentLinMerge == /\ l <= N /\ \E i \in mpend : (hint[i] = 0 \/ hint[i] >= NextClose) /\ LinMerge(i)
                  /\ UNCHANGED <<l, hint>>
SilentLinClose == /\ l <= N /\ \E c \in DOMAIN cstate : LinClose(c)
                  /\ UNCHANGED <<l, hint>>

TNext_ == TReset \/ TMergeStart \/ TMergeEnd \/ TCloseStart \/ TCloseEnd \/ TQuiesce \/ SilentLinMerge \/ SilentLinClose
TSpec == TInit /\ [][TNext_]_tvars

Track ==
    /\ IF l > TLCGet(1) THEN TLCSet(1, l) /\ TLCSet(2, <<mpend, mlin, heldA, cstate, taken>>) ELSE TRUE
    /\ IF l = N + 1 THEN TLCSet("exit", TRUE) ELSE TRUE
Accepted ==
    IF TLCGet(1) = N + 1 THEN PrintT(<<"ACCEPTED", N>>)
    ELSE /\ PrintT(<<"REJECTED", TLCGet(1), ToJson(Rec[TLCGet(1)]), TLCGet(2)>>)
         /\ FALSE
=============================================================================
