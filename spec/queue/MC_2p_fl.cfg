\* thorough: two producers x 1 entry racing on a queue of capacity 1, one flush request, deadline may pass, drop only
CONSTANTS
  Producers = {1, 2}
  MaxApp = 1
  Cap = 1
  Flushers = {1}
  K = 1
  Results = {"ok"}
  AllowForget = FALSE
  AllowTick = TRUE
SPECIFICATION Spec
INVARIANTS TypeOK AbsInv ProducerOrder OnlyAppended NoLossAtEnd BoundedBatch EbwExact NoParkWithWaiters JoinedMeansClosed
PROPERTY Refines
CHECK_DEADLOCK FALSE
