CONSTANTS
  MaxSlices = 3
  MaxLen = 3
  MaxIntr = 1
  Bug = "none"
SPECIFICATION RSpec
INVARIANT Emit
CHECK_DEADLOCK FALSE
