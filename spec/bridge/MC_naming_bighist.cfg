CONSTANTS
  Depth = 4
  EmitZero = FALSE
  DescUnits = {"Seconds"}
  HistVals = {"v100", "v1e6", "v2e31", "vmax", "vhuge"}
  HistCounts = {1, 2, 5000}
  GaugeOps = {"set"}
SPECIFICATION Spec
INVARIANT Emit
INVARIANT UnitInv
CONSTRAINT Bound
CHECK_DEADLOCK FALSE
