\* lock-level race: 2 appenders x 1 try_append against 2 controllers (attach, drop handle)
CONSTANTS
  Appenders = {1, 2}
  NApp = 1
  Ctls = {1, 2}
  AppendUnderLock = FALSE
  DropUnderLock = TRUE
SPECIFICATION Spec
INVARIANTS AbsInv NeverPoisoned LockOK NoLatePush AtEnd
PROPERTY Refines
CHECK_DEADLOCK FALSE
