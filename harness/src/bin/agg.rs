//! Driver for aggregation (C10).
//!
//!   agg replay --behaviours b.ndjson --out results.ndjson --seed N
//!       R direction: TLC histories of Aggregation.tla (AggReplay.tla: merge / flush / guard create,
//!       mutate, drop, with the batch the property layer expects at every flush) are executed
//!       against
//!         keyed        KeyedAggregator<In> driven directly (&mut)
//!         mutex_entry  Aggregate<InNk> embedded in a parent entry through MutexSink, guards =
//!                      CloseAndMergeOnDrop, flush = closing the parent entry
//!         mutex_direct the same with an #[aggregate(direct)] struct, guards = MergeOnDrop
//!         worker       WorkerSink<KeyedAggregator<In>> (long interval), guards = CloseAndMergeOnDrop
//!         tee          TeeSink(KeyedAggregator<In>, TeeSink(KeyedAggregator<ByCoarse>, raw sink))
//!         tee_worker   the same tee behind a WorkerSink
//!       The #[aggregate] struct has a Sum, a KeepLast, a Histogram<Duration, SortAndMerge> and a
//!       Distribution field, a key whose Hash is constant and a String key.
//!   agg load --scenarios s.ndjson --out trace.ndjson --meta meta.ndjson
//!       T direction, counting form: 2-3 producers send several 100k cheap entries each into a WorkerSink
//!       with a 50-200 us flush interval; only milestones are logged (per-producer progress / totals, flush
//!       requests with the emitted total seen at completion, the drop of the inner sink - Exited or
//!       WorkerPanic - and the final emitted totals); validated by TLC against WorkerCountTrace.tla.
//!   agg mutexrace --scenarios s.ndjson --out trace.ndjson --meta meta.ndjson
//!       T direction, mutex-shared sink: 1-3 merger threads drop CloseAndMergeOnDrop guards of (or merge
//!       directly into) a MutexSink<Aggregate<Mx>> while the main thread closes parent entries that
//!       embed it; a user-defined slow field strategy widens the merge window; validated by TLC
//!       against MutexTrace.tla.
//!   agg record --scenarios s.ndjson --out trace.ndjson --meta meta.ndjson
//!       T direction: 2-4 producer threads on a WorkerSink around a sentinel-wrapped
//!       KeyedAggregator; sends, flush requests, the worker's merges / flushes / downstream
//!       appends and the drop of the inner aggregator are logged and validated by TLC against
//!       WorkerTrace.tla.

use metrique::CloseValue;
use metrique::unit_of_work::metrics;
use metrique::writer::value::ToString;
use metrique_aggregation::aggregate;
use metrique_aggregation::aggregator::{Aggregate, KeyedAggregator};
use metrique_aggregation::histogram::{Histogram, HistogramClosed, SortAndMerge};
use metrique_aggregation::sink::{MutexSink, TeeSink, WorkerSink, non_aggregate};
use metrique_aggregation::traits::{AggregateSink, AggregateStrategy, AggregateValue, FlushableSink, Key, MergeRef, RootSink};
use metrique_aggregation::value::{Distribution, KeepLast, Sum};
use metrique_writer::test_util::{Inspector, TestEntry, test_entry_sink, test_metric, to_test_entry};
use metrique_writer::{AnyEntrySink, BoxEntrySink, Entry, Observation, ValueWriter};
use rand::Rng;
use serde_json::{Value, json};
use std::collections::{BTreeMap, HashMap};
use std::hash::{Hash, Hasher};
use std::io::Write;
use std::sync::{Arc, Condvar, Mutex};
use std::time::{Duration, Instant};
use vharness::{trace, util};

const BUDGET: Duration = Duration::from_secs(10);

// ------------------------------------------------------------------------------------------
// the aggregated structs
// ------------------------------------------------------------------------------------------

/// Key component whose hash is the same for every value: every lookup of a key that differs only
/// here lands in the same hash bucket and must be told apart by `static_key_matches`.
#[derive(Clone, Debug, PartialEq, Eq)]
pub struct ConstKey(pub u8);
impl Hash for ConstKey {
    fn hash<H: Hasher>(&self, state: &mut H) {
        0u8.hash(state)
    }
}
impl std::fmt::Display for ConstKey {
    fn fmt(&self, f: &mut std::fmt::Formatter<'_>) -> std::fmt::Result {
        write!(f, "{}", self.0)
    }
}
impl CloseValue for ConstKey {
    type Closed = ConstKey;
    fn close(self) -> ConstKey {
        self
    }
}

/// A pre-aggregated value: writes `Repeated { total, occurrences: n }`; n = 0 is a window without
/// samples and contributes no observation.
#[derive(Clone, Copy, Debug)]
pub struct Pre {
    total: f64,
    n: u64,
}
impl metrique_writer::Value for Pre {
    fn write(&self, writer: impl ValueWriter) {
        writer.metric(
            [Observation::Repeated { total: self.total, occurrences: self.n }],
            metrique_writer::Unit::None,
            [],
            metrique_writer::MetricFlags::empty(),
        )
    }
}
impl metrique_writer::MetricValue for Pre {
    type Unit = metrique_writer::unit::None;
}
impl CloseValue for Pre {
    type Closed = Pre;
    fn close(self) -> Pre {
        self
    }
}

/// drop a merge-on-drop guard - normally, or by a panic unwinding through the scope that holds it
/// (a panic is data: caught here); chosen per operation by the driver
static UNWIND: std::sync::atomic::AtomicBool = std::sync::atomic::AtomicBool::new(false);
fn drop_guard<G>(g: G) {
    if UNWIND.load(std::sync::atomic::Ordering::Relaxed) {
        let _ = std::panic::catch_unwind(std::panic::AssertUnwindSafe(move || {
            let _held = g;
            std::panic::panic_any("unwinding through a scope that holds a merge-on-drop guard");
        }));
    } else {
        drop(g);
    }
}

#[aggregate]
#[metrics]
pub struct In {
    #[aggregate(key)]
    #[metrics(format = ToString)]
    ck: ConstKey,
    #[aggregate(key)]
    name: String,
    #[aggregate(strategy = Sum)]
    sum: u64,
    #[aggregate(strategy = KeepLast)]
    last: u64,
    #[aggregate(strategy = Histogram<Duration, SortAndMerge>)]
    obs: Duration,
    #[aggregate(strategy = Distribution)]
    obs2: u64,
    /// the input itself carries a histogram: its closed observations (possibly repeated) are replayed
    /// into the aggregate's exact histogram (`AggregateValue<HistogramClosed<T>>`)
    #[aggregate(strategy = Histogram<Duration, SortAndMerge>)]
    hs: Histogram<Duration, SortAndMerge>,
    /// ... into an exponential histogram (compared by count only)
    #[aggregate(strategy = Histogram<Duration>)]
    he: Histogram<Duration>,
    /// ... and through `Histogram::add_value` of a histogram of closed histograms
    #[aggregate(strategy = Histogram<HistogramClosed<Duration>, SortAndMerge>)]
    hv: Histogram<Duration, SortAndMerge>,
    /// fed by a pre-aggregated value (Repeated with 0, 1 or 2 occurrences) through `Histogram::add_value`
    #[aggregate(strategy = Histogram<Pre, SortAndMerge>)]
    ps: Pre,
    #[aggregate(strategy = Histogram<Pre>)]
    pe: Pre,
    #[aggregate(strategy = Distribution)]
    pd: Pre,
    /// observations of tiny magnitude (k * 1e-17): distinct values closer than f64::EPSILON
    #[aggregate(strategy = Histogram<f64, SortAndMerge>)]
    tiny: f64,
}

/// By-reference merge for the tee (the macro's `#[aggregate(ref)]` needs Copy/Clone fields, a closed
/// histogram is neither): plain fields are copied, the closed histograms are replayed observation by
/// observation (`hs`, `he`) resp. through `add_value(&closed)` (`hv`).
impl MergeRef for InEntry {
    #[allow(deprecated)]
    fn merge_ref(accum: &mut Self::Merged, input: &Self) {
        <Sum as AggregateValue<u64>>::insert(&mut accum.sum, input.sum);
        <KeepLast as AggregateValue<u64>>::insert(&mut accum.last, input.last);
        accum.obs.add_value(input.obs);
        <Distribution as AggregateValue<u64>>::insert(&mut accum.obs2, input.obs2);
        for ms in observations_of(&input.hs) {
            accum.hs.add_value(Duration::from_secs_f64(ms / 1000.0));
        }
        for ms in observations_of(&input.he) {
            accum.he.add_value(Duration::from_secs_f64(ms / 1000.0));
        }
        accum.hv.add_value(&input.hv);
        accum.ps.add_value(input.ps);
        accum.pe.add_value(input.pe);
        <Distribution as AggregateValue<Pre>>::insert(&mut accum.pd, input.pd);
        accum.tiny.add_value(input.tiny);
    }
}

/// every observation a closed histogram writes, repeated ones expanded
fn observations_of(h: &HistogramClosed<Duration>) -> Vec<f64> {
    struct W<'a>(&'a mut Vec<f64>);
    impl ValueWriter for W<'_> {
        fn string(self, _value: &str) {}
        fn metric<'a>(
            self,
            distribution: impl IntoIterator<Item = Observation>,
            _unit: metrique_writer::Unit,
            _dimensions: impl IntoIterator<Item = (&'a str, &'a str)>,
            _flags: metrique_writer::MetricFlags<'_>,
        ) {
            for o in distribution {
                match o {
                    Observation::Unsigned(v) => self.0.push(v as f64),
                    Observation::Floating(v) => self.0.push(v),
                    Observation::Repeated { total, occurrences } => {
                        for _ in 0..occurrences {
                            self.0.push(total / occurrences as f64)
                        }
                    }
                    _ => {}
                }
            }
        }
        fn error(self, _error: metrique_writer::ValidationError) {}
    }
    let mut v = Vec::new();
    metrique_writer::Value::write(h, W(&mut v));
    v
}

/// the same fields without a key: for `Aggregate<T>` embedded in a parent entry
#[aggregate]
#[metrics]
pub struct InNk {
    #[aggregate(strategy = Sum)]
    sum: u64,
    #[aggregate(strategy = KeepLast)]
    last: u64,
    #[aggregate(strategy = Histogram<Duration, SortAndMerge>)]
    obs: Duration,
    #[aggregate(strategy = Distribution)]
    obs2: u64,
    /// the input itself carries a histogram: its closed observations (possibly repeated) are replayed
    /// into the aggregate's exact histogram (`AggregateValue<HistogramClosed<T>>`)
    #[aggregate(strategy = Histogram<Duration, SortAndMerge>)]
    hs: Histogram<Duration, SortAndMerge>,
    /// ... into an exponential histogram (compared by count only)
    #[aggregate(strategy = Histogram<Duration>)]
    he: Histogram<Duration>,
    /// ... and through `Histogram::add_value` of a histogram of closed histograms
    #[aggregate(strategy = Histogram<HistogramClosed<Duration>, SortAndMerge>)]
    hv: Histogram<Duration, SortAndMerge>,
    /// fed by a pre-aggregated value (Repeated with 0, 1 or 2 occurrences) through `Histogram::add_value`
    #[aggregate(strategy = Histogram<Pre, SortAndMerge>)]
    ps: Pre,
    #[aggregate(strategy = Histogram<Pre>)]
    pe: Pre,
    #[aggregate(strategy = Distribution)]
    pd: Pre,
    /// observations of tiny magnitude (k * 1e-17): distinct values closer than f64::EPSILON
    #[aggregate(strategy = Histogram<f64, SortAndMerge>)]
    tiny: f64,
}

#[aggregate(direct)]
#[metrics]
#[derive(Clone)]
pub struct InDir {
    #[aggregate(strategy = Sum)]
    sum: u64,
    #[aggregate(strategy = KeepLast)]
    last: u64,
    #[aggregate(strategy = Histogram<Duration, SortAndMerge>)]
    obs: Duration,
    #[aggregate(strategy = Distribution)]
    obs2: u64,
    /// fed by a pre-aggregated value (Repeated with 0, 1 or 2 occurrences) through `Histogram::add_value`
    #[aggregate(strategy = Histogram<Pre, SortAndMerge>)]
    ps: Pre,
    #[aggregate(strategy = Histogram<Pre>)]
    pe: Pre,
    #[aggregate(strategy = Distribution)]
    pd: Pre,
    /// observations of tiny magnitude (k * 1e-17): distinct values closer than f64::EPSILON
    #[aggregate(strategy = Histogram<f64, SortAndMerge>)]
    tiny: f64,
}

#[metrics]
struct ParentNk {
    #[metrics(flatten)]
    agg: MutexSink<Aggregate<InNk>>,
    tag: u64,
}

#[metrics]
struct ParentDir {
    #[metrics(flatten)]
    agg: MutexSink<Aggregate<InDir>>,
    tag: u64,
}

/// second branch of the tee: the same Merge impl, a coarser key ((k+1)/2 of the model key k)
struct ByCoarse;
#[derive(Clone, Hash, PartialEq, Eq)]
#[metrics]
struct CoarseKey {
    coarse: u64,
}
struct CoarseExtractor;

#[allow(deprecated)]
fn model_key_of(e: &InEntry) -> u64 {
    match e.name.strip_prefix("key-") {
        Some(n) => n.parse().unwrap(),
        None => e.ck.0 as u64,
    }
}

impl Key<InEntry> for CoarseExtractor {
    type Key<'a> = CoarseKey;
    fn from_source(source: &InEntry) -> Self::Key<'_> {
        CoarseKey { coarse: (model_key_of(source) + 1) / 2 }
    }
    fn static_key<'a>(key: &Self::Key<'a>) -> Self::Key<'static> {
        key.clone()
    }
    fn static_key_matches<'a>(owned: &Self::Key<'static>, borrowed: &Self::Key<'a>) -> bool {
        owned == borrowed
    }
}
impl AggregateStrategy for ByCoarse {
    type Source = InEntry;
    type Key = CoarseExtractor;
}

// ------------------------------------------------------------------------------------------
// concretisation of the model's symbols
// ------------------------------------------------------------------------------------------

#[derive(Clone)]
struct Conc {
    /// per value symbol v (1-based): (sum, last, obs ms, obs2)
    vals: Vec<(u64, u64, u64, u64)>,
    /// how model keys become concrete keys: 0 = only the constant-hash key differs,
    /// 1 = only the string differs, 2 = both differ
    key_mode: u8,
    /// id of the model input being built (selects the shape of its own histogram) and number of
    /// value symbols of the behaviour
    cur_id: std::cell::Cell<u64>,
    nvals: u64,
}

impl Conc {
    /// observation values (ms) of the input's own histogram: Aggregation.tla's HBag
    fn hbag(&self, v: u64) -> Vec<u64> {
        let shape = (self.cur_id.get() + v) % 4;
        let other = (v % self.nvals) + 1;
        let o = |x: u64| self.vals[x as usize - 1].2;
        let mut out = vec![o(v)];
        if shape == 1 || shape == 3 {
            out.push(o(v));
        }
        if (shape == 2 || shape == 3) && other != v {
            out.push(o(other));
        }
        out
    }
    /// Aggregation.tla's PreN: 0, 1 or 2 observations of v's value; the total of an empty window is stale
    fn pre(&self, v: u64) -> Pre {
        let n = (2 * self.cur_id.get() + v) % 3;
        let o = self.vals[v as usize - 1].2 as f64;
        Pre { total: if n == 0 { o } else { o * n as f64 }, n }
    }
    fn hist<S: metrique_aggregation::histogram::AggregationStrategy + Default>(&self, v: u64) -> Histogram<Duration, S> {
        let mut h = Histogram::<Duration, S>::default();
        for ms in self.hbag(v) {
            h.add_value(Duration::from_millis(ms));
        }
        h
    }
    fn new(rng: &mut impl Rng) -> Conc {
        let mut vals = Vec::new();
        let mut used = std::collections::HashSet::new();
        for _ in 0..4 {
            loop {
                let s = rng.random_range(1..1000u64);
                if used.insert(s) {
                    // equal observation values for different symbols are allowed for obs2 (duplicates
                    // across symbols must still be counted), distinct for obs
                    vals.push((s, 1000 + s, s * 3 + 1, if rng.random_range(0..4) == 0 { 7 } else { s + 5 }));
                    break;
                }
            }
        }
        Conc { vals, key_mode: rng.random_range(0..3), cur_id: std::cell::Cell::new(0), nvals: 2 }
    }
    fn key(&self, k: u64) -> (ConstKey, String) {
        match self.key_mode {
            0 => (ConstKey(k as u8), "same".to_string()),
            1 => (ConstKey(9), format!("key-{k}")),
            _ => (ConstKey(k as u8), format!("key-{k}")),
        }
    }
    fn input(&self, k: u64, v: u64) -> In {
        let (ck, name) = self.key(k);
        let (sum, last, obs, obs2) = self.vals[v as usize - 1];
        In { ck, name, sum, last, obs: Duration::from_millis(obs), obs2, hs: self.hist(v), he: self.hist(v), hv: self.hist(v), ps: self.pre(v), pe: self.pre(v), pd: self.pre(v), tiny: v as f64 * 1e-17 }
    }
    fn input_nk(&self, v: u64) -> InNk {
        let (sum, last, obs, obs2) = self.vals[v as usize - 1];
        InNk { sum, last, obs: Duration::from_millis(obs), obs2, hs: self.hist(v), he: self.hist(v), hv: self.hist(v), ps: self.pre(v), pe: self.pre(v), pd: self.pre(v), tiny: v as f64 * 1e-17 }
    }
    fn input_dir(&self, v: u64) -> InDir {
        let (sum, last, obs, obs2) = self.vals[v as usize - 1];
        InDir { sum, last, obs: Duration::from_millis(obs), obs2, ps: self.pre(v), pe: self.pre(v), pd: self.pre(v), tiny: v as f64 * 1e-17 }
    }
}

/// What an emitted aggregate says, in comparable form.
#[derive(Debug, Clone, PartialEq)]
struct Agg {
    sum: u64,
    last: Option<u64>,
    obs: Vec<u64>,
    obs2: Vec<u64>,
    /// histogram-of-histogram fields: exact observations (hs, hv) and number of observations (he)
    hs: Vec<u64>,
    hv: Vec<u64>,
    he: u64,
    /// fields fed by pre-aggregated values: exact (ps, pd) and number of observations (pe)
    ps: Vec<u64>,
    pd: Vec<u64>,
    pe: u64,
    /// tiny-magnitude distribution: (value / 1e-17 rounded, occurrences) per emitted distinct value
    tiny: Vec<(u64, u64)>,
}

fn metric_list(e: &TestEntry, name: &str) -> Vec<u64> {
    e.metrics.get(name).map(|m| m.flatten_and_sort().into_iter().map(|f| f.round() as u64).collect()).unwrap_or_default()
}

fn agg_of_entry(e: &TestEntry) -> Agg {
    Agg {
        // exact: the recorded runs use the summed field as a bit mask
        sum: e.metrics.get("sum").map(|m| m.distribution.iter().map(|o| match o {
            metrique_writer::Observation::Unsigned(v) => *v,
            metrique_writer::Observation::Floating(f) => *f as u64,
            metrique_writer::Observation::Repeated { total, .. } => *total as u64,
            _ => 0,
        }).sum::<u64>()).unwrap_or(0),
        last: e.metrics.get("last").and_then(|m| m.flatten_and_sort().first().map(|f| *f as u64)),
        obs: metric_list(e, "obs"),
        obs2: metric_list(e, "obs2"),
        hs: metric_list(e, "hs"),
        hv: metric_list(e, "hv"),
        he: e.metrics.get("he").map(|m| m.num_observations()).unwrap_or(0),
        ps: metric_list(e, "ps"),
        pd: metric_list(e, "pd"),
        pe: e.metrics.get("pe").map(|m| m.num_observations()).unwrap_or(0),
        tiny: {
            let mut t: Vec<(u64, u64)> = e.metrics.get("tiny").map(|m| m.distribution.iter().map(|o| match o {
                Observation::Repeated { total, occurrences } if *occurrences > 0 => ((total / *occurrences as f64 / 1e-17).round() as u64, *occurrences),
                Observation::Floating(f) => ((f / 1e-17).round() as u64, 1),
                Observation::Unsigned(v) => (*v, 1),
                _ => (u64::MAX, 0),
            }).collect()).unwrap_or_default();
            t.sort();
            t
        },
    }
}

/// the aggregate TLC expects (bag = counts per value symbol, last = value symbol), concretised
fn agg_of_model(c: &Conc, a: &Value) -> Agg {
    let bag: Vec<u64> = a["bag"].as_array().unwrap().iter().map(|x| x.as_u64().unwrap()).collect();
    let mut sum = 0;
    let mut obs = Vec::new();
    let mut obs2 = Vec::new();
    for (i, n) in bag.iter().enumerate() {
        let (s, _, o, o2) = c.vals[i];
        sum += s * n;
        for _ in 0..*n {
            obs.push(o);
            obs2.push(o2);
        }
    }
    obs.sort();
    obs2.sort();
    let mut hs = Vec::new();
    for (i, n) in a["hbag"].as_array().unwrap().iter().enumerate() {
        for _ in 0..n.as_u64().unwrap() {
            hs.push(c.vals[i].2);
        }
    }
    hs.sort();
    let mut ps = Vec::new();
    for (i, n) in a["pbag"].as_array().unwrap().iter().enumerate() {
        for _ in 0..n.as_u64().unwrap() {
            ps.push(c.vals[i].2);
        }
    }
    ps.sort();
    let last = a["last"].as_u64().unwrap();
    Agg { sum, last: if last == 0 { None } else { Some(c.vals[last as usize - 1].1) }, obs, obs2, he: hs.len() as u64, hv: hs.clone(), hs, pe: ps.len() as u64, pd: ps.clone(), ps,
          tiny: bag.iter().enumerate().filter(|(_, n)| **n > 0).map(|(i, n)| (i as u64 + 1, *n)).collect() }
}

fn fine_key_of_entry(e: &TestEntry) -> String {
    format!("{}|{}", e.values.get("ck").cloned().unwrap_or_default(), e.values.get("name").cloned().unwrap_or_default())
}

// ------------------------------------------------------------------------------------------
// replay
// ------------------------------------------------------------------------------------------

/// poll a future on the calling thread, giving up after `budget`
fn block_on_timeout<F: std::future::Future>(fut: F, budget: Duration) -> Option<F::Output> {
    struct ThreadWaker(std::thread::Thread);
    impl std::task::Wake for ThreadWaker {
        fn wake(self: Arc<Self>) {
            self.0.unpark();
        }
    }
    let waker = std::task::Waker::from(Arc::new(ThreadWaker(std::thread::current())));
    let mut cx = std::task::Context::from_waker(&waker);
    let mut fut = std::pin::pin!(fut);
    let deadline = Instant::now() + budget;
    loop {
        if let std::task::Poll::Ready(v) = fut.as_mut().poll(&mut cx) {
            return Some(v);
        }
        let now = Instant::now();
        if now >= deadline {
            return None;
        }
        std::thread::park_timeout(deadline - now);
    }
}

/// new downstream entries since the last look
struct Tap {
    insp: Inspector,
    seen: usize,
}
impl Tap {
    fn new() -> (Tap, BoxEntrySink) {
        let t = test_entry_sink();
        (Tap { insp: t.inspector, seen: 0 }, t.sink)
    }
    fn fresh(&mut self) -> Vec<TestEntry> {
        let all = self.insp.entries();
        let new = all[self.seen..].to_vec();
        self.seen = all.len();
        new
    }
}

/// compare one flush's downstream entries with the batch the model expects
fn compare_batch(
    c: &Conc,
    got: &[TestEntry],
    model: &Value,
    key_of_entry: &dyn Fn(&TestEntry) -> String,
    key_of_model: &dyn Fn(u64) -> String,
    what: &str,
    step: usize,
    mism: &mut Vec<Value>,
) {
    let mut gm: BTreeMap<String, Vec<Agg>> = BTreeMap::new();
    for e in got {
        gm.entry(key_of_entry(e)).or_default().push(agg_of_entry(e));
    }
    let mut em: BTreeMap<String, Agg> = BTreeMap::new();
    for a in model.as_array().unwrap() {
        em.insert(key_of_model(a["key"].as_u64().unwrap()), agg_of_model(c, a));
    }
    let dup: Vec<&String> = gm.iter().filter(|(_, v)| v.len() > 1).map(|(k, _)| k).collect();
    if !dup.is_empty() {
        mism.push(json!({"step": step, "sink": what, "what": "one flush emitted several aggregates for the same key",
                         "expected": "one aggregate per distinct key", "got": format!("{dup:?}")}));
        return;
    }
    let gk: Vec<&String> = gm.keys().collect();
    let ek: Vec<&String> = em.keys().collect();
    if gk != ek {
        mism.push(json!({"step": step, "sink": what, "what": "keys emitted by the flush", "expected": format!("{ek:?}"), "got": format!("{gk:?}")}));
        return;
    }
    for (k, e) in &em {
        let g = &gm[k][0];
        if g != e {
            let g_tiny_differs = g.tiny != e.tiny;
            let field = if g.sum != e.sum { "summed field" } else if g.last != e.last { "keep-last field" }
                        else if g.obs != e.obs || g.obs2 != e.obs2 { "distribution field" }
                        else if g.hs != e.hs || g.hv != e.hv || g.he != e.he { "distribution field fed by the inputs' own histograms" }
                        else if g_tiny_differs { "distribution field of tiny-magnitude values (k * 1e-17), per distinct value" }
                        else { "distribution field fed by pre-aggregated values (Repeated with 0, 1, 2 occurrences)" };
            mism.push(json!({"step": step, "sink": what, "what": format!("{field} of the aggregate for key {k}"),
                             "expected": format!("{e:?}"), "got": format!("{g:?}")}));
        }
    }
}

type GuardBox = Box<dyn std::any::Any + Send>;

/// One sink kind under replay: how to merge, to create / mutate / drop a guard, to flush.
trait Target {
    fn name(&self) -> &'static str;
    fn merge(&mut self, c: &Conc, k: u64, v: u64, via_guard: bool);
    fn gcreate(&mut self, c: &Conc, g: u64, k: u64, v: u64);
    fn gmutate(&mut self, c: &Conc, g: u64, v: u64);
    fn gdrop(&mut self, g: u64);
    /// flush and compare against the step's expectation
    fn flush(&mut self, c: &Conc, st: &Value, step: usize, mism: &mut Vec<Value>);
    /// drop the sink; false if the worker thread did not terminate within the budget
    fn finish(self: Box<Self>, _budget: Duration) -> bool {
        true
    }
}

// ---- keyed: KeyedAggregator driven directly ------------------------------------------------
struct TKeyed {
    agg: KeyedAggregator<In>,
    tap: Tap,
    held: HashMap<u64, In>,
}
impl Target for TKeyed {
    fn name(&self) -> &'static str {
        "keyed"
    }
    fn merge(&mut self, c: &Conc, k: u64, v: u64, _g: bool) {
        self.agg.merge(c.input(k, v).close());
    }
    fn gcreate(&mut self, c: &Conc, g: u64, k: u64, v: u64) {
        self.held.insert(g, c.input(k, v));
    }
    fn gmutate(&mut self, c: &Conc, g: u64, v: u64) {
        let x = self.held.get_mut(&g).unwrap();
        let n = c.input(1, v);
        (x.sum, x.last, x.obs, x.obs2, x.hs, x.he, x.hv, x.ps, x.pe, x.pd, x.tiny) = (n.sum, n.last, n.obs, n.obs2, n.hs, n.he, n.hv, n.ps, n.pe, n.pd, n.tiny);
    }
    fn gdrop(&mut self, g: u64) {
        let x = self.held.remove(&g).unwrap();
        self.agg.merge(x.close());
    }
    fn flush(&mut self, c: &Conc, st: &Value, step: usize, mism: &mut Vec<Value>) {
        self.agg.flush();
        let got = self.tap.fresh();
        let cc = c.clone();
        compare_batch(c, &got, &st["fine"], &fine_key_of_entry, &move |k| { let (a, b) = cc.key(k); format!("{a}|{b}") }, "keyed", step, mism);
    }
}

// ---- mutex_entry / mutex_direct: Aggregate<T> in a parent entry ------------------------------
struct TMutexEntry {
    sink: MutexSink<Aggregate<InNk>>,
    guards: HashMap<u64, GuardBox>,
    tag: u64,
}
fn compare_all(c: &Conc, e: &TestEntry, st: &Value, what: &str, step: usize, mism: &mut Vec<Value>) {
    let model = st["all"].as_array().unwrap();
    let mut exp = if model.is_empty() { Agg { sum: 0, last: None, obs: vec![], obs2: vec![], hs: vec![], hv: vec![], he: 0, ps: vec![], pd: vec![], pe: 0, tiny: vec![] } } else { agg_of_model(c, &model[0]) };
    let got = agg_of_entry(e);
    if what == "mutex_direct" {
        // #[aggregate(direct)] inputs cannot carry histograms (no AggregateValue<Histogram> impl)
        (exp.hs, exp.hv, exp.he) = (got.hs.clone(), got.hv.clone(), got.he);
    }
    if got != exp {
        let g_tiny_differs = got.tiny != exp.tiny;
        let field = if got.sum != exp.sum { "summed field" } else if got.last != exp.last { "keep-last field" }
                else if got.obs != exp.obs || got.obs2 != exp.obs2 { "distribution field" }
                else if got.hs != exp.hs || got.hv != exp.hv || got.he != exp.he { "distribution field fed by the inputs' own histograms" }
                else if g_tiny_differs { "distribution field of tiny-magnitude values (k * 1e-17), per distinct value" }
                        else { "distribution field fed by pre-aggregated values (Repeated with 0, 1, 2 occurrences)" };
        mism.push(json!({"step": step, "sink": what, "what": format!("{field} of the embedded aggregate"),
                         "expected": format!("{exp:?}"), "got": format!("{got:?}")}));
    }
}
impl Target for TMutexEntry {
    fn name(&self) -> &'static str {
        "mutex_entry"
    }
    fn merge(&mut self, c: &Conc, _k: u64, v: u64, via_guard: bool) {
        if via_guard {
            drop_guard(c.input_nk(v).close_and_merge(self.sink.clone()));
        } else {
            RootSink::merge(&self.sink, c.input_nk(v).close());
        }
    }
    fn gcreate(&mut self, c: &Conc, g: u64, _k: u64, v: u64) {
        self.guards.insert(g, Box::new(c.input_nk(v).close_and_merge(self.sink.clone())));
    }
    fn gmutate(&mut self, c: &Conc, g: u64, v: u64) {
        type G = metrique_aggregation::sink::CloseAndMergeOnDrop<InNk, MutexSink<Aggregate<InNk>>>;
        let gd = self.guards.get_mut(&g).unwrap().downcast_mut::<G>().unwrap();
        let n = c.input_nk(v);
        (gd.sum, gd.last, gd.obs, gd.obs2, gd.hs, gd.he, gd.hv, gd.ps, gd.pe, gd.pd, gd.tiny) = (n.sum, n.last, n.obs, n.obs2, n.hs, n.he, n.hv, n.ps, n.pe, n.pd, n.tiny);
    }
    fn gdrop(&mut self, g: u64) {
        drop_guard(self.guards.remove(&g));
    }
    fn flush(&mut self, c: &Conc, st: &Value, step: usize, mism: &mut Vec<Value>) {
        self.tag += 1;
        let e = test_metric(ParentNk { agg: self.sink.clone(), tag: self.tag });
        if e.metrics.get("tag").map(|m| m.as_u64()) != Some(self.tag) {
            mism.push(json!({"step": step, "sink": "mutex_entry", "what": "parent entry field", "expected": self.tag, "got": format!("{:?}", e.metrics.get("tag"))}));
        }
        compare_all(c, &e, st, "mutex_entry", step, mism);
    }
}

struct TMutexDirect {
    sink: MutexSink<Aggregate<InDir>>,
    guards: HashMap<u64, GuardBox>,
    tag: u64,
}
impl Target for TMutexDirect {
    fn name(&self) -> &'static str {
        "mutex_direct"
    }
    fn merge(&mut self, c: &Conc, _k: u64, v: u64, via_guard: bool) {
        if via_guard {
            drop_guard(c.input_dir(v).merge(self.sink.clone()));
        } else {
            RootSink::merge(&self.sink, c.input_dir(v));
        }
    }
    fn gcreate(&mut self, c: &Conc, g: u64, _k: u64, v: u64) {
        self.guards.insert(g, Box::new(c.input_dir(v).merge(self.sink.clone())));
    }
    fn gmutate(&mut self, c: &Conc, g: u64, v: u64) {
        type G = metrique_aggregation::sink::MergeOnDrop<InDir, MutexSink<Aggregate<InDir>>>;
        let gd = self.guards.get_mut(&g).unwrap().downcast_mut::<G>().unwrap();
        let n = c.input_dir(v);
        (gd.sum, gd.last, gd.obs, gd.obs2, gd.ps, gd.pe, gd.pd, gd.tiny) = (n.sum, n.last, n.obs, n.obs2, n.ps, n.pe, n.pd, n.tiny);
    }
    fn gdrop(&mut self, g: u64) {
        drop_guard(self.guards.remove(&g));
    }
    fn flush(&mut self, c: &Conc, st: &Value, step: usize, mism: &mut Vec<Value>) {
        self.tag += 1;
        let e = test_metric(ParentDir { agg: self.sink.clone(), tag: self.tag });
        compare_all(c, &e, st, "mutex_direct", step, mism);
    }
}

// ---- worker / tee ------------------------------------------------------------------------
/// wrapper that tells when the worker thread has dropped the inner aggregator
struct DropFlag<I> {
    inner: I,
    flag: Arc<(Mutex<bool>, Condvar)>,
}
impl<T, I: AggregateSink<T>> AggregateSink<T> for DropFlag<I> {
    fn merge(&mut self, entry: T) {
        self.inner.merge(entry)
    }
}
impl<I: FlushableSink> FlushableSink for DropFlag<I> {
    fn flush(&mut self) {
        self.inner.flush()
    }
}
impl<I> Drop for DropFlag<I> {
    fn drop(&mut self) {
        *self.flag.0.lock().unwrap() = true;
        self.flag.1.notify_all();
    }
}
fn wait_flag(flag: &Arc<(Mutex<bool>, Condvar)>, budget: Duration) -> bool {
    let g = flag.0.lock().unwrap();
    let (g, _) = flag.1.wait_timeout_while(g, budget, |d| !*d).unwrap();
    *g
}

type TeeInner = TeeSink<KeyedAggregator<In>, TeeSink<KeyedAggregator<ByCoarse>, metrique_aggregation::sink::NonAggregatedSink<BoxEntrySink>>>;

enum Driver {
    WorkerKeyed(WorkerSink<InEntry, DropFlag<KeyedAggregator<In>>>),
    Tee(Box<TeeInner>),
    WorkerTee(WorkerSink<InEntry, DropFlag<TeeInner>>),
}

struct TWorker {
    kind: &'static str,
    d: Option<Driver>,
    tap_a: Tap,
    tap_b: Option<Tap>,
    tap_raw: Option<Tap>,
    merges: usize,
    guards: HashMap<u64, GuardBox>,
    held: HashMap<u64, In>,
    flag: Arc<(Mutex<bool>, Condvar)>,
    dead: bool,
}
type WGuard<I> = metrique_aggregation::sink::CloseAndMergeOnDrop<In, WorkerSink<InEntry, DropFlag<I>>>;

impl Target for TWorker {
    fn name(&self) -> &'static str {
        self.kind
    }
    fn merge(&mut self, c: &Conc, k: u64, v: u64, via_guard: bool) {
        self.merges += 1;
        match self.d.as_mut().unwrap() {
            Driver::WorkerKeyed(w) => {
                if via_guard { drop_guard(c.input(k, v).close_and_merge(w.clone())) } else { w.send(c.input(k, v).close()) }
            }
            Driver::WorkerTee(w) => {
                if via_guard { drop_guard(c.input(k, v).close_and_merge(w.clone())) } else { w.send(c.input(k, v).close()) }
            }
            Driver::Tee(t) => t.merge(c.input(k, v).close()),
        }
    }
    fn gcreate(&mut self, c: &Conc, g: u64, k: u64, v: u64) {
        match self.d.as_ref().unwrap() {
            Driver::WorkerKeyed(w) => { self.guards.insert(g, Box::new(c.input(k, v).close_and_merge(w.clone()))); }
            Driver::WorkerTee(w) => { self.guards.insert(g, Box::new(c.input(k, v).close_and_merge(w.clone()))); }
            Driver::Tee(_) => { self.held.insert(g, c.input(k, v)); }
        }
    }
    fn gmutate(&mut self, c: &Conc, g: u64, v: u64) {
        let n = c.input(1, v);
        match self.d.as_ref().unwrap() {
            Driver::WorkerKeyed(_) => {
                let gd = self.guards.get_mut(&g).unwrap().downcast_mut::<WGuard<KeyedAggregator<In>>>().unwrap();
                (gd.sum, gd.last, gd.obs, gd.obs2, gd.hs, gd.he, gd.hv, gd.ps, gd.pe, gd.pd, gd.tiny) = (n.sum, n.last, n.obs, n.obs2, n.hs, n.he, n.hv, n.ps, n.pe, n.pd, n.tiny);
            }
            Driver::WorkerTee(_) => {
                let gd = self.guards.get_mut(&g).unwrap().downcast_mut::<WGuard<TeeInner>>().unwrap();
                (gd.sum, gd.last, gd.obs, gd.obs2, gd.hs, gd.he, gd.hv, gd.ps, gd.pe, gd.pd, gd.tiny) = (n.sum, n.last, n.obs, n.obs2, n.hs, n.he, n.hv, n.ps, n.pe, n.pd, n.tiny);
            }
            Driver::Tee(_) => {
                let x = self.held.get_mut(&g).unwrap();
                (x.sum, x.last, x.obs, x.obs2, x.hs, x.he, x.hv, x.ps, x.pe, x.pd, x.tiny) = (n.sum, n.last, n.obs, n.obs2, n.hs, n.he, n.hv, n.ps, n.pe, n.pd, n.tiny);
            }
        }
    }
    fn gdrop(&mut self, g: u64) {
        self.merges += 1;
        if let Some(x) = self.held.remove(&g) {
            if let Driver::Tee(t) = self.d.as_mut().unwrap() {
                t.merge(x.close());
            }
        } else {
            drop_guard(self.guards.remove(&g));
        }
    }
    fn flush(&mut self, c: &Conc, st: &Value, step: usize, mism: &mut Vec<Value>) {
        if self.dead {
            return;
        }
        let ok = match self.d.as_mut().unwrap() {
            Driver::WorkerKeyed(w) => block_on_timeout(w.flush(), BUDGET).is_some(),
            Driver::WorkerTee(w) => block_on_timeout(w.flush(), BUDGET).is_some(),
            Driver::Tee(t) => {
                t.flush();
                true
            }
        };
        if !ok {
            self.dead = true;
            mism.push(json!({"step": step, "sink": self.kind, "what": "flush().await did not complete within 10 s", "expected": "completion", "got": "hang"}));
            return;
        }
        let cc = c.clone();
        let got = self.tap_a.fresh();
        compare_batch(c, &got, &st["fine"], &fine_key_of_entry, &move |k| { let (a, b) = cc.key(k); format!("{a}|{b}") }, self.kind, step, mism);
        if let Some(tb) = self.tap_b.as_mut() {
            let got = tb.fresh();
            compare_batch(c, &got, &st["coarse"], &|e: &TestEntry| format!("{}", e.metrics.get("coarse").map(|m| m.as_u64()).unwrap_or(0)),
                          &|k| format!("{k}"), "tee branch keyed by the coarse key", step, mism);
        }
        if let Some(tr) = self.tap_raw.as_mut() {
            let n = tr.insp.entries().len();
            if n != self.merges {
                mism.push(json!({"step": step, "sink": self.kind, "what": "entries forwarded to the non-aggregated branch of the tee", "expected": self.merges, "got": n}));
                self.merges = n;
            }
        }
    }
    fn finish(mut self: Box<Self>, budget: Duration) -> bool {
        self.guards.clear();
        let is_worker = !matches!(self.d, Some(Driver::Tee(_)));
        self.d = None;
        // the last handle is gone: the worker thread must drop the inner aggregator
        if is_worker { wait_flag(&self.flag, budget) } else { true }
    }
}

fn make_targets(kinds: &[String]) -> Vec<Box<dyn Target>> {
    let mut v: Vec<Box<dyn Target>> = Vec::new();
    for k in kinds {
        let flag = Arc::new((Mutex::new(false), Condvar::new()));
        match k.as_str() {
            "keyed" => {
                let (tap, sink) = Tap::new();
                v.push(Box::new(TKeyed { agg: KeyedAggregator::new(sink), tap, held: HashMap::new() }));
            }
            "mutex_entry" => v.push(Box::new(TMutexEntry { sink: MutexSink::new(Aggregate::default()), guards: HashMap::new(), tag: 0 })),
            "mutex_direct" => v.push(Box::new(TMutexDirect { sink: MutexSink::new(Aggregate::default()), guards: HashMap::new(), tag: 0 })),
            "worker" => {
                let (tap, sink) = Tap::new();
                let w = WorkerSink::new(DropFlag { inner: KeyedAggregator::<In>::new(sink), flag: flag.clone() }, Duration::from_secs(3600));
                v.push(Box::new(TWorker { kind: "worker", d: Some(Driver::WorkerKeyed(w)), tap_a: tap, tap_b: None, tap_raw: None, merges: 0,
                                          guards: HashMap::new(), held: HashMap::new(), flag, dead: false }));
            }
            "tee" | "tee_worker" => {
                let (ta, sa) = Tap::new();
                let (tb, sb) = Tap::new();
                let (tr, sr) = Tap::new();
                let tee: TeeInner = TeeSink::new(KeyedAggregator::<In>::new(sa), TeeSink::new(KeyedAggregator::<ByCoarse>::new(sb), non_aggregate(sr)));
                let (kind, d): (&'static str, Driver) = if k == "tee" {
                    ("tee", Driver::Tee(Box::new(tee)))
                } else {
                    ("tee_worker", Driver::WorkerTee(WorkerSink::new(DropFlag { inner: tee, flag: flag.clone() }, Duration::from_secs(3600))))
                };
                v.push(Box::new(TWorker { kind, d: Some(d), tap_a: ta, tap_b: Some(tb), tap_raw: Some(tr), merges: 0,
                                          guards: HashMap::new(), held: HashMap::new(), flag, dead: false }));
            }
            other => panic!("unknown sink kind {other}"),
        }
    }
    v
}

fn cmd_replay(a: &HashMap<String, String>) {
    let beh = util::read_ndjson(util::arg_str(a, "behaviours", ""));
    let seed = util::arg_u64(a, "seed", 1);
    let kinds: Vec<String> = util::arg_str(a, "kinds", "keyed,mutex_entry,mutex_direct,worker,tee,tee_worker").split(',').map(|s| s.to_string()).collect();
    let mut out = std::io::BufWriter::new(std::fs::File::create(util::arg_str(a, "out", "")).unwrap());
    let mut workers_off = false;
    for b in &beh {
        let id = b["id"].as_u64().unwrap_or(0);
        let mut rng = util::rng(seed ^ id.wrapping_mul(0x9E37_79B9_7F4A_7C15));
        let mut conc = Conc::new(&mut rng);
        conc.nvals = b["nvals"].as_u64().unwrap_or(2);
        let steps = b["steps"].as_array().unwrap();
        let mut mism: Vec<Value> = Vec::new();
        let mut flushes = 0u64;
        let mut unwound = 0u64;
        let mut stuck: Vec<&'static str> = Vec::new();
        // the two threaded arrangements alternate between behaviours (each spawns a thread)
        let skip_worker = if id % 2 == 0 { "worker" } else { "tee_worker" };
        let both = kinds.iter().any(|k| k == "worker") && kinds.iter().any(|k| k == "tee_worker");
        let use_kinds: Vec<String> = kinds.iter()
            .filter(|k| !(workers_off && (k.as_str() == "worker" || k.as_str() == "tee_worker")))
            .filter(|k| !(both && k.as_str() == skip_worker))
            .cloned().collect();
        for mut t in make_targets(&use_kinds) {
            let before = mism.len();
            let mut guard_ids: HashMap<u64, u64> = HashMap::new();
            for (i, st) in steps.iter().enumerate() {
                let (k, v, g) = (st["k"].as_u64().unwrap(), st["v"].as_u64().unwrap(), st["g"].as_u64().unwrap());
                // the model input the operation is about (a guard keeps the id it was created with)
                match st["op"].as_str().unwrap() {
                    "Merge" => conc.cur_id.set(st["id"].as_u64().unwrap()),
                    "GCreate" => {
                        guard_ids.insert(g, st["id"].as_u64().unwrap());
                        conc.cur_id.set(st["id"].as_u64().unwrap())
                    }
                    "GMutate" => conc.cur_id.set(guard_ids[&g]),
                    _ => {}
                }
                // a guard dropped by this operation goes normally or by unwinding (same Merge step in the model)
                let unw = rng.random_range(0..3) == 0;
                UNWIND.store(unw, std::sync::atomic::Ordering::Relaxed);
                if unw && (st["op"] == "GDrop" || st["op"] == "Merge") {
                    unwound += 1;
                }
                let r = util::catch(std::panic::AssertUnwindSafe(|| match st["op"].as_str().unwrap() {
                    "Merge" => t.merge(&conc, k, v, rng.random::<bool>()),
                    "GCreate" => t.gcreate(&conc, g, k, v),
                    "GMutate" => t.gmutate(&conc, g, v),
                    "GDrop" => t.gdrop(g),
                    "Flush" => {
                        flushes += 1;
                        t.flush(&conc, st, i, &mut mism)
                    }
                    other => panic!("unknown op {other}"),
                }));
                if let Err(m) = r {
                    mism.push(json!({"step": i, "sink": t.name(), "what": "the operation panicked", "expected": "no panic", "got": m}));
                    break;
                }
                if mism.len() > before + 3 {
                    break;
                }
            }
            UNWIND.store(false, std::sync::atomic::Ordering::Relaxed);
            // every history ends with a flush: what is still held must come out, exactly once
            if mism.len() == before && !b["final"].is_null() {
                flushes += 1;
                let fin = b["final"].clone();
                if let Err(m) = util::catch(std::panic::AssertUnwindSafe(|| t.flush(&conc, &fin, steps.len(), &mut mism))) {
                    mism.push(json!({"step": steps.len(), "sink": t.name(), "what": "the final flush panicked", "expected": "no panic", "got": m}));
                }
            }
            let name = t.name();
            if !t.finish(BUDGET) {
                // a worker thread that never terminates spins: stop creating more of them
                stuck.push(name);
                workers_off = true;
                mism.push(json!({"step": steps.len(), "sink": name, "what": "worker thread still running 10 s after its last handle was dropped",
                                 "expected": "the worker emits what it holds and terminates", "got": "inner aggregator not dropped"}));
            }
        }
        serde_json::to_writer(&mut out, &json!({"id": id, "mismatches": mism, "flushes": flushes, "guard_drops_by_unwinding": unwound, "key_mode": conc.key_mode, "kinds": use_kinds,
                                                "worker_threads_still_running": stuck})).unwrap();
        out.write_all(b"\n").unwrap();
    }
    out.flush().unwrap();
    std::process::exit(0);
}

// ------------------------------------------------------------------------------------------
// record: producer threads on a WorkerSink (T direction)
// ------------------------------------------------------------------------------------------

/// (a flush is in progress, its FlushBegin has been logged)
type FlushState = Arc<Mutex<(bool, bool)>>;

/// wrapper around the inner aggregator, living in the worker thread: logs what the worker does
struct Sentinel {
    inner: KeyedAggregator<In>,
    epoch: u64,
    done: Arc<(Mutex<bool>, Condvar)>,
    fs: FlushState,
}
impl Sentinel {
    fn live(&self) -> bool {
        self.epoch == trace::epoch()
    }
}
impl AggregateSink<InEntry> for Sentinel {
    fn merge(&mut self, entry: InEntry) {
        #[allow(deprecated)]
        let id = entry.obs2 as i64;
        if self.live() {
            trace::evi("Merged", &[("i", id)]);
        }
        self.inner.merge(entry);
    }
}
impl FlushableSink for Sentinel {
    fn flush(&mut self) {
        // a flush that appends nothing downstream is not logged (FlushBegin;FlushEnd without an Emit
        // changes nothing in the specification); FlushBegin is logged by the downstream sink just
        // before the first Emit - same thread, so its order against Merged events is exact
        *self.fs.lock().unwrap() = (true, false);
        self.inner.flush();
        let logged = std::mem::replace(&mut *self.fs.lock().unwrap(), (false, false)).1;
        if logged && self.live() {
            trace::evi("FlushEnd", &[]);
        }
    }
}
impl Drop for Sentinel {
    fn drop(&mut self) {
        if self.live() {
            trace::evi("Exited", &[]);
        }
        *self.done.0.lock().unwrap() = true;
        self.done.1.notify_all();
    }
}

/// downstream sink: every appended aggregate becomes an Emit event, decoded into input ids
struct EmitSink {
    epoch: u64,
    fs: FlushState,
}
impl AnyEntrySink for EmitSink {
    fn append_any(&self, entry: impl Entry + Send + 'static) {
        if self.epoch != trace::epoch() {
            return;
        }
        {
            let mut g = self.fs.lock().unwrap();
            if g.0 && !g.1 {
                g.1 = true;
                trace::evi("FlushBegin", &[]);
            }
        }
        let e = to_test_entry(entry);
        let a = agg_of_entry(&e);
        let k: i64 = e.values.get("name").and_then(|n| n.strip_prefix("key-").and_then(|x| x.parse().ok())).unwrap_or(-1);
        let sum_ids: Vec<i64> = (0..63).filter(|b| a.sum & (1u64 << b) != 0).collect();
        trace::ev(json!({"ev": "Emit", "k": k, "sum": sum_ids, "obs": a.obs2, "obs_ms": a.obs, "last": a.last.map(|x| x as i64).unwrap_or(-1)}));
    }
    fn flush_async(&self) -> metrique_writer_core::sink::FlushWait {
        metrique_writer_core::sink::FlushWait::ready()
    }
}

#[derive(serde::Deserialize, Clone, Debug)]
struct Prod {
    n: u64,
    #[serde(default)]
    pace_us: u64,
    /// call flush().await after this many sends (0 = never)
    #[serde(default)]
    flush_after: u64,
    #[serde(default)]
    via_guard: bool,
}

#[derive(serde::Deserialize, Clone, Debug)]
struct Scen {
    id: u64,
    producers: Vec<Prod>,
    nk: u64,
    interval_us: u64,
    #[serde(default)]
    seed: u64,
    /// the handle the sink was created with is dropped first / last
    #[serde(default)]
    main_drops_last: bool,
}

static TIMEOUTS: std::sync::atomic::AtomicU64 = std::sync::atomic::AtomicU64::new(0);

fn run_scen(sc: &Scen) {
    trace::set_epoch(sc.id);
    let np = sc.producers.len();
    trace::ev(json!({"ev": "Reset", "handles": (np + 1) as i64, "scenario": sc.id as i64}));
    let done = Arc::new((Mutex::new(false), Condvar::new()));
    let fs: FlushState = Arc::new(Mutex::new((false, false)));
    let inner = KeyedAggregator::<In>::new(BoxEntrySink::new(EmitSink { epoch: sc.id, fs: fs.clone() }));
    let w = WorkerSink::new(Sentinel { inner, epoch: sc.id, done: done.clone(), fs }, Duration::from_micros(sc.interval_us));
    let start = Arc::new(std::sync::Barrier::new(np + 1));
    let mut threads = Vec::new();
    let mut next_id = 0u64;
    for (pi, p) in sc.producers.iter().enumerate() {
        let p = p.clone();
        let pid = (pi + 1) as i64;
        let first = next_id;
        next_id += p.n;
        let h = w.clone();
        let start = start.clone();
        let nk = sc.nk;
        let mut rng = util::rng(sc.seed ^ (pi as u64 + 1));
        threads.push(std::thread::spawn(move || {
            start.wait();
            for j in 0..p.n {
                let id = first + j;
                let k = rng.random_range(1..=nk);
                let one = |ms: u64| { let mut h = Histogram::<Duration, SortAndMerge>::default(); h.add_value(Duration::from_millis(ms)); h };
                let mut he = Histogram::<Duration>::default();
                he.add_value(Duration::from_millis(id));
                let input = In { ck: ConstKey(3), name: format!("key-{k}"), sum: 1u64 << id, last: id, obs: Duration::from_millis(id), obs2: id,
                                 hs: one(id), he, hv: one(id), ps: Pre { total: id as f64, n: 1 }, pe: Pre { total: id as f64, n: 1 },
                                 pd: Pre { total: id as f64, n: 1 }, tiny: 1e-17 };
                trace::evi("SendStart", &[("p", pid), ("i", id as i64), ("k", k as i64)]);
                if p.via_guard {
                    drop(input.close_and_merge(h.clone()));
                } else {
                    h.send(input.close());
                }
                trace::evi("SendEnd", &[("i", id as i64)]);
                if p.flush_after > 0 && j + 1 == p.flush_after {
                    trace::evi("FlushReq", &[("q", pid)]);
                    match block_on_timeout(h.flush(), BUDGET) {
                        Some(()) => trace::evi("FlushDone", &[("q", pid)]),
                        None => trace::evi("FlushTimeout", &[("q", pid)]),
                    };
                }
                if p.pace_us > 0 {
                    std::thread::sleep(Duration::from_micros(p.pace_us));
                }
            }
            trace::evi("HandleDrop", &[("p", pid)]);
            drop(h);
        }));
    }
    assert!(next_id <= 60, "at most 60 inputs per scenario (bit mask in the summed field)");
    start.wait();
    if !sc.main_drops_last {
        trace::evi("HandleDrop", &[("p", 0)]);
        drop(w);
        for t in threads {
            let _ = t.join();
        }
    } else {
        for t in threads {
            let _ = t.join();
        }
        trace::evi("HandleDrop", &[("p", 0)]);
        drop(w);
    }
    // the worker must emit what it holds and terminate: 10 s budget (1 s once it has failed twice)
    let budget = if TIMEOUTS.load(std::sync::atomic::Ordering::SeqCst) >= 2 { Duration::from_secs(1) } else { BUDGET };
    if !wait_flag(&done, budget) {
        TIMEOUTS.fetch_add(1, std::sync::atomic::Ordering::SeqCst);
        trace::evi("ExitTimeout", &[]);
    } else {
        trace::evi("Quiesce", &[]);
    }
}

fn cmd_record(a: &HashMap<String, String>) {
    let scen = util::read_ndjson(util::arg_str(a, "scenarios", ""));
    let mut out = std::io::BufWriter::new(std::fs::File::create(util::arg_str(a, "out", "")).unwrap());
    let mut meta = std::io::BufWriter::new(std::fs::File::create(util::arg_str(a, "meta", "")).unwrap());
    let mut line = 1usize;
    for v in scen {
        let sc: Scen = serde_json::from_value(v.clone()).unwrap();
        let t = Instant::now();
        run_scen(&sc);
        let evs = trace::take();
        trace::append_ndjson(&mut out, &evs).unwrap();
        let count = |n: &str| evs.iter().filter(|e| e["ev"] == n).count();
        let m = json!({"id": sc.id, "first_line": line, "last_line": line + evs.len() - 1, "events": evs.len(),
                       "emits": count("Emit"), "flushes": count("FlushBegin"), "merged": count("Merged"),
                       "exit_timeout": count("ExitTimeout"), "wall_ms": t.elapsed().as_millis() as u64, "scenario": v});
        line += evs.len();
        serde_json::to_writer(&mut meta, &m).unwrap();
        meta.write_all(b"\n").unwrap();
    }
    out.flush().unwrap();
    meta.flush().unwrap();
    // worker threads that never terminate (D5) must not keep the process alive
    std::process::exit(0);
}

// ------------------------------------------------------------------------------------------
// mutexrace: merges into a MutexSink<Aggregate<T>> racing closes of the parent entry (T direction)
// ------------------------------------------------------------------------------------------

/// how long `SlowSum::insert` stays inside the merge (= while the sink's mutex is held), in ns
static SLOW_NS: std::sync::atomic::AtomicU64 = std::sync::atomic::AtomicU64::new(0);

/// user-defined field strategy: a sum whose insert takes a while (widens the merge window; there
/// are no verification points inside metrique-aggregation)
pub struct SlowSum;
impl AggregateValue<u64> for SlowSum {
    type Aggregated = u64;
    fn insert(accum: &mut u64, value: u64) {
        let ns = SLOW_NS.load(std::sync::atomic::Ordering::Relaxed);
        if ns > 0 {
            let t = Instant::now();
            while (t.elapsed().as_nanos() as u64) < ns {
                std::hint::spin_loop();
            }
        }
        *accum += value;
    }
}

#[aggregate]
#[metrics]
pub struct Mx {
    /// 1 << id: the emitted sum is the set of inputs the aggregate contains
    #[aggregate(strategy = SlowSum)]
    mask: u64,
    #[aggregate(strategy = Distribution)]
    idobs: u64,
    #[aggregate(strategy = Sum)]
    n: u64,
}

#[metrics]
struct ParentMx {
    #[metrics(flatten)]
    agg: MutexSink<Aggregate<Mx>>,
    tag: u64,
}

#[derive(serde::Deserialize, Clone, Debug)]
struct MxScen {
    id: u64,
    /// inputs per merger thread
    mergers: Vec<u64>,
    /// closes made while the mergers run, each after this many further microseconds
    closes_us: Vec<u64>,
    slow_ns: u64,
    #[serde(default)]
    pace_us: u64,
    #[serde(default)]
    seed: u64,
}

fn run_mx(sc: &MxScen) {
    trace::ev(json!({"ev": "Reset", "scenario": sc.id as i64}));
    SLOW_NS.store(sc.slow_ns, std::sync::atomic::Ordering::Relaxed);
    let sink: MutexSink<Aggregate<Mx>> = MutexSink::new(Aggregate::default());
    let start = Arc::new(std::sync::Barrier::new(sc.mergers.len() + 1));
    let mut threads = Vec::new();
    let mut first = 0u64;
    for (mi, n) in sc.mergers.iter().enumerate() {
        let (n, f0) = (*n, first);
        first += n;
        let start = start.clone();
        let pace = sc.pace_us;
        let mut rng = util::rng(sc.seed ^ (mi as u64 + 1));
        // the guards are created here and dropped (= merged) on the merger thread
        let mut guards: Vec<(u64, Option<metrique_aggregation::sink::CloseAndMergeOnDrop<Mx, MutexSink<Aggregate<Mx>>>>)> = Vec::new();
        for j in 0..n {
            let id = f0 + j;
            let g = if rng.random_range(0..3) > 0 { Some(Mx { mask: 1u64 << id, idobs: id, n: 1 }.close_and_merge(sink.clone())) } else { None };
            guards.push((id, g));
        }
        let direct = sink.clone();
        threads.push(std::thread::spawn(move || {
            start.wait();
            for (id, g) in guards {
                trace::evi("MergeStart", &[("i", id as i64)]);
                match g {
                    Some(g) => drop(g),
                    None => RootSink::merge(&direct, Mx { mask: 1u64 << id, idobs: id, n: 1 }.close()),
                }
                trace::evi("MergeEnd", &[("i", id as i64)]);
                if pace > 0 {
                    std::thread::sleep(Duration::from_micros(pace));
                }
            }
        }));
    }
    assert!(first <= 60);
    let close = |c: i64| {
        trace::evi("CloseStart", &[("c", c)]);
        let e = test_metric(ParentMx { agg: sink.clone(), tag: c as u64 });
        let mask = e.metrics.get("mask").map(|m| m.distribution.iter().map(|o| match o {
            Observation::Unsigned(v) => *v,
            Observation::Floating(f) => *f as u64,
            Observation::Repeated { total, .. } => *total as u64,
            _ => 0,
        }).sum::<u64>()).unwrap_or(0);
        let sum_ids: Vec<i64> = (0..63).filter(|b| mask & (1u64 << b) != 0).collect();
        let obs = metric_list(&e, "idobs");
        let n = e.metrics.get("n").map(|m| m.as_u64()).unwrap_or(0);
        trace::ev(json!({"ev": "CloseEnd", "c": c, "sum": sum_ids, "obs": obs, "n": n as i64}));
    };
    start.wait();
    let mut c = 0i64;
    for us in &sc.closes_us {
        std::thread::sleep(Duration::from_micros(*us));
        c += 1;
        close(c);
    }
    for t in threads {
        let _ = t.join();
    }
    // everything has been merged: the last close must emit whatever the earlier ones did not
    close(c + 1);
    trace::evi("Quiesce", &[]);
    SLOW_NS.store(0, std::sync::atomic::Ordering::Relaxed);
}

/// search hint: MergeStart.h = the close whose aggregate contained the input (0 = none)
fn annotate_mx(evs: &mut [Value]) {
    let mut by: HashMap<i64, i64> = HashMap::new();
    for e in evs.iter() {
        if e["ev"] == "CloseEnd" {
            for i in e["sum"].as_array().unwrap() {
                by.entry(i.as_i64().unwrap()).or_insert(e["c"].as_i64().unwrap());
            }
        }
    }
    for e in evs.iter_mut() {
        if e["ev"] == "MergeStart" {
            let h = by.get(&e["i"].as_i64().unwrap()).copied().unwrap_or(0);
            e["h"] = json!(h);
        }
    }
}

fn cmd_mutexrace(a: &HashMap<String, String>) {
    let scen = util::read_ndjson(util::arg_str(a, "scenarios", ""));
    let mut out = std::io::BufWriter::new(std::fs::File::create(util::arg_str(a, "out", "")).unwrap());
    let mut meta = std::io::BufWriter::new(std::fs::File::create(util::arg_str(a, "meta", "")).unwrap());
    let mut line = 1usize;
    for v in scen {
        let sc: MxScen = serde_json::from_value(v.clone()).unwrap();
        run_mx(&sc);
        let mut evs = trace::take();
        annotate_mx(&mut evs);
        trace::append_ndjson(&mut out, &evs).unwrap();
        // closes that overlapped a merge (began while a merge was in progress)
        let mut open = 0i64;
        let mut overlapped = 0;
        let mut nonempty_mid = 0;
        let last_c = evs.iter().filter(|e| e["ev"] == "CloseStart").count() as i64;
        for e in &evs {
            match e["ev"].as_str().unwrap() {
                "MergeStart" => open += 1,
                "MergeEnd" => open -= 1,
                "CloseStart" if open > 0 => overlapped += 1,
                "CloseEnd" if e["c"].as_i64().unwrap() < last_c && e["n"].as_i64().unwrap() > 0 => nonempty_mid += 1,
                _ => {}
            }
        }
        let m = json!({"id": sc.id, "first_line": line, "last_line": line + evs.len() - 1, "events": evs.len(),
                       "closes": last_c, "closes_overlapping_a_merge": overlapped, "nonempty_mid_closes": nonempty_mid, "scenario": v});
        line += evs.len();
        serde_json::to_writer(&mut meta, &m).unwrap();
        meta.write_all(b"\n").unwrap();
    }
    out.flush().unwrap();
    meta.flush().unwrap();
    std::process::exit(0);
}

// ------------------------------------------------------------------------------------------
// load: sustained high-rate sends into a WorkerSink with a very short flush interval (T direction,
// counting form: one event per producer milestone / flush request / end, never per entry)
// ------------------------------------------------------------------------------------------

#[aggregate]
#[metrics]
pub struct Ld {
    #[aggregate(key)]
    #[metrics(format = ToString)]
    k: u8,
    #[aggregate(strategy = Sum)]
    n: u64,
    #[aggregate(strategy = Sum)]
    w: u64,
}

#[derive(Default)]
struct LoadCounters {
    emitted_n: std::sync::atomic::AtomicU64,
    emitted_w: std::sync::atomic::AtomicU64,
    merged_n: std::sync::atomic::AtomicU64,
    flushes: std::sync::atomic::AtomicU64,
}

/// wrapper around the inner aggregator (lives in the worker thread): counts, and logs its own drop -
/// `Exited` when the worker left its loop, `WorkerPanic` when the worker thread is unwinding
struct CountSentinel {
    inner: KeyedAggregator<Ld>,
    c: Arc<LoadCounters>,
    epoch: u64,
    done: Arc<(Mutex<bool>, Condvar)>,
}
impl AggregateSink<LdEntry> for CountSentinel {
    fn merge(&mut self, entry: LdEntry) {
        self.c.merged_n.fetch_add(1, std::sync::atomic::Ordering::Relaxed);
        self.inner.merge(entry);
    }
}
impl FlushableSink for CountSentinel {
    fn flush(&mut self) {
        self.c.flushes.fetch_add(1, std::sync::atomic::Ordering::Relaxed);
        self.inner.flush();
    }
}
impl Drop for CountSentinel {
    fn drop(&mut self) {
        use std::sync::atomic::Ordering::SeqCst;
        if self.epoch == trace::epoch() {
            let name = if std::thread::panicking() { "WorkerPanic" } else { "Exited" };
            trace::evi(name, &[("merged", self.c.merged_n.load(SeqCst) as i64), ("en", self.c.emitted_n.load(SeqCst) as i64)]);
        }
        *self.done.0.lock().unwrap() = true;
        self.done.1.notify_all();
    }
}
/// downstream sink: adds the count and weight of every emitted aggregate to the totals
struct CountEmit {
    c: Arc<LoadCounters>,
}
impl AnyEntrySink for CountEmit {
    fn append_any(&self, entry: impl Entry + Send + 'static) {
        let e = to_test_entry(entry);
        let get = |name: &str| e.metrics.get(name).map(|m| m.distribution.iter().map(|o| match o {
            Observation::Unsigned(v) => *v,
            Observation::Floating(f) => *f as u64,
            Observation::Repeated { total, .. } => *total as u64,
            _ => 0,
        }).sum::<u64>()).unwrap_or(0);
        // weight first: a reader that sees the count sees at least the matching weight
        self.c.emitted_w.fetch_add(get("w"), std::sync::atomic::Ordering::SeqCst);
        self.c.emitted_n.fetch_add(get("n"), std::sync::atomic::Ordering::SeqCst);
    }
    fn flush_async(&self) -> metrique_writer_core::sink::FlushWait {
        metrique_writer_core::sink::FlushWait::ready()
    }
}

#[derive(serde::Deserialize, Clone, Debug)]
struct LoadProd {
    n: u64,
    /// flush().await after this many sends (0 = never)
    #[serde(default)]
    flush_after: u64,
    #[serde(default)]
    via_guard: bool,
}
#[derive(serde::Deserialize, Clone, Debug)]
struct LoadScen {
    id: u64,
    producers: Vec<LoadProd>,
    nk: u64,
    interval_us: u64,
    #[serde(default)]
    seed: u64,
    /// a flush().await by the main handle after the producers are done, before it is dropped
    #[serde(default)]
    final_flush: bool,
}

fn run_load(sc: &LoadScen) {
    use std::sync::atomic::Ordering::SeqCst;
    trace::set_epoch(sc.id);
    let np = sc.producers.len();
    trace::ev(json!({"ev": "Reset", "handles": (np + 1) as i64, "producers": np as i64, "scenario": sc.id as i64}));
    let c = Arc::new(LoadCounters::default());
    let done = Arc::new((Mutex::new(false), Condvar::new()));
    let inner = KeyedAggregator::<Ld>::new(BoxEntrySink::new(CountEmit { c: c.clone() }));
    let w = WorkerSink::new(CountSentinel { inner, c: c.clone(), epoch: sc.id, done: done.clone() }, Duration::from_micros(sc.interval_us));
    let start = Arc::new(std::sync::Barrier::new(np + 1));
    let mut threads = Vec::new();
    for (pi, p) in sc.producers.iter().enumerate() {
        let p = p.clone();
        let pid = (pi + 1) as i64;
        let h = w.clone();
        let start = start.clone();
        let nk = sc.nk;
        let c = c.clone();
        let mut rng = util::rng(sc.seed ^ (pi as u64 + 1));
        threads.push(std::thread::spawn(move || {
            start.wait();
            let step = (p.n / 8).max(1);
            let mut wsum = 0u64;
            for j in 1..=p.n {
                let wt = 1 + (rng.random::<u32>() % 7) as u64;
                let input = Ld { k: (rng.random::<u32>() as u64 % nk) as u8, n: 1, w: wt };
                if p.via_guard {
                    drop(input.close_and_merge(h.clone()));
                } else {
                    h.send(input.close());
                }
                wsum += wt;
                if j % step == 0 && j < p.n {
                    // milestone: at least j sends of this producer have returned
                    trace::evi("Progress", &[("p", pid), ("n", j as i64)]);
                }
                if p.flush_after > 0 && j == p.flush_after {
                    trace::evi("Progress", &[("p", pid), ("n", j as i64)]);
                    trace::evi("FlushReq", &[("q", pid)]);
                    match util::catch(std::panic::AssertUnwindSafe(|| block_on_timeout(h.flush(), BUDGET))) {
                        Ok(Some(())) => trace::evi("FlushDone", &[("q", pid), ("en", c.emitted_n.load(SeqCst) as i64)]),
                        Ok(None) => trace::evi("FlushTimeout", &[("q", pid)]),
                        Err(_) => trace::evi("FlushFailed", &[("q", pid)]),
                    };
                }
            }
            trace::evi("Sent", &[("p", pid), ("n", p.n as i64), ("w", wsum as i64)]);
            trace::evi("HandleDrop", &[("p", pid)]);
            drop(h);
        }));
    }
    start.wait();
    for t in threads {
        let _ = t.join();
    }
    if sc.final_flush {
        trace::evi("FlushReq", &[("q", 0)]);
        match util::catch(std::panic::AssertUnwindSafe(|| block_on_timeout(w.flush(), BUDGET))) {
            Ok(Some(())) => trace::evi("FlushDone", &[("q", 0), ("en", c.emitted_n.load(SeqCst) as i64)]),
            Ok(None) => trace::evi("FlushTimeout", &[("q", 0)]),
            Err(_) => trace::evi("FlushFailed", &[("q", 0)]),
        };
    }
    trace::evi("HandleDrop", &[("p", 0)]);
    drop(w);
    if !wait_flag(&done, BUDGET) {
        trace::evi("ExitTimeout", &[]);
    } else {
        trace::evi("Final", &[("en", c.emitted_n.load(SeqCst) as i64), ("ew", c.emitted_w.load(SeqCst) as i64)]);
        trace::evi("Quiesce", &[]);
    }
}

fn cmd_load(a: &HashMap<String, String>) {
    let scen = util::read_ndjson(util::arg_str(a, "scenarios", ""));
    let mut out = std::io::BufWriter::new(std::fs::File::create(util::arg_str(a, "out", "")).unwrap());
    let mut meta = std::io::BufWriter::new(std::fs::File::create(util::arg_str(a, "meta", "")).unwrap());
    let mut line = 1usize;
    for v in scen {
        let sc: LoadScen = serde_json::from_value(v.clone()).unwrap();
        let t = Instant::now();
        run_load(&sc);
        let evs = trace::take();
        trace::append_ndjson(&mut out, &evs).unwrap();
        let fin = evs.iter().find(|e| e["ev"] == "Final");
        let ex = evs.iter().find(|e| e["ev"] == "Exited" || e["ev"] == "WorkerPanic");
        let m = json!({"id": sc.id, "first_line": line, "last_line": line + evs.len() - 1, "events": evs.len(),
                       "sent": sc.producers.iter().map(|p| p.n).sum::<u64>(),
                       "emitted": fin.map(|e| e["en"].clone()).unwrap_or(Value::Null),
                       "merged": ex.map(|e| e["merged"].clone()).unwrap_or(Value::Null),
                       "worker_panicked": evs.iter().any(|e| e["ev"] == "WorkerPanic"),
                       "wall_ms": t.elapsed().as_millis() as u64, "scenario": v});
        line += evs.len();
        serde_json::to_writer(&mut meta, &m).unwrap();
        meta.write_all(b"\n").unwrap();
    }
    out.flush().unwrap();
    meta.flush().unwrap();
    std::process::exit(0);
}

fn main() {
    std::panic::set_hook(Box::new(|_| {}));
    let (cmd, a) = util::args();
    match cmd.as_str() {
        "replay" => cmd_replay(&a),
        "record" => cmd_record(&a),
        "mutexrace" => cmd_mutexrace(&a),
        "load" => cmd_load(&a),
        _ => {
            eprintln!("usage: agg replay|record|mutexrace|load ...");
            std::process::exit(2);
        }
    }
}
