//! Recording, scripted and gateable `EntryIoStream`, plus the numbered entry type used by the
//! queue / sink drivers.

use crate::trace;
use metrique_writer_core::{
    Entry, EntryConfig, EntryIoStream, EntryWriter, IoStreamError, MetricFlags, Observation, Unit,
    ValidationError, Value, ValueWriter,
};
use serde_json::json;
use std::borrow::Cow;
use std::collections::{HashMap, HashSet};
use std::io;
use std::sync::{Arc, Condvar, Mutex};
use std::time::{Duration, SystemTime};

/// Entry that carries one unsigned value named "id".
#[derive(Clone, Debug)]
pub struct NumEntry(pub u64);

impl Entry for NumEntry {
    fn write<'a>(&'a self, writer: &mut impl EntryWriter<'a>) {
        writer.value("id", &self.0);
    }
}

/// A large inline entry (16 KiB): the same "id" value as `NumEntry`, plus padding that makes the
/// queue's ring buffer big (capacity x size_of::<BigEntry>()).
#[derive(Clone)]
pub struct BigEntry {
    pub id: u64,
    pub pad: [u8; 16 * 1024 - 8],
}
impl BigEntry {
    pub fn new(id: u64) -> Self {
        BigEntry { id, pad: [0; 16 * 1024 - 8] }
    }
}
impl Entry for BigEntry {
    fn write<'a>(&'a self, writer: &mut impl EntryWriter<'a>) {
        writer.value("id", &self.id);
    }
}

/// What a stream call captured from the entry handed to it.
#[derive(Default, Debug)]
pub struct Captured {
    pub id: Option<u64>,
    pub report: bool,
    pub other: Vec<String>,
}

struct IdValueWriter<'c>(&'c mut Option<u64>);
impl ValueWriter for IdValueWriter<'_> {
    fn string(self, _value: &str) {}
    fn metric<'a>(
        self,
        distribution: impl IntoIterator<Item = Observation>,
        _unit: Unit,
        _dimensions: impl IntoIterator<Item = (&'a str, &'a str)>,
        _flags: MetricFlags<'_>,
    ) {
        if let Some(Observation::Unsigned(v)) = distribution.into_iter().next() {
            *self.0 = Some(v);
        }
    }
    fn error(self, _error: ValidationError) {}
}

impl<'a> EntryWriter<'a> for Captured {
    fn timestamp(&mut self, _timestamp: SystemTime) {}
    fn value(&mut self, name: impl Into<Cow<'a, str>>, value: &(impl Value + ?Sized)) {
        let name = name.into();
        match &name[..] {
            "id" => value.write(IdValueWriter(&mut self.id)),
            "MetriqueValidationError" => self.report = true,
            other => self.other.push(other.to_string()),
        }
    }
    fn config(&mut self, _config: &'a dyn EntryConfig) {}
}

pub fn capture(entry: &impl Entry) -> Captured {
    let mut c = Captured::default();
    entry.write(&mut c);
    c
}

#[derive(Clone, Copy, PartialEq, Debug)]
pub enum Res {
    Ok,
    Val,
    Io,
}
impl Res {
    pub fn as_str(self) -> &'static str {
        match self {
            Res::Ok => "ok",
            Res::Val => "val",
            Res::Io => "io",
        }
    }
    pub fn parse(s: &str) -> Res {
        match s {
            "val" => Res::Val,
            "io" => Res::Io,
            _ => Res::Ok,
        }
    }
}

#[derive(Default)]
struct Ctl {
    /// scripted result per entry id (default Ok)
    script: HashMap<u64, Res>,
    /// result of report entries
    report_res: Option<Res>,
    /// ids at which `next` blocks until `open_gate`
    gated: HashSet<u64>,
    /// block every `next` while true
    hold_all: bool,
    flush_err: bool,
    /// delay inside every `flush`
    flush_slow_us: u64,
    flushes: u64,
    /// number of `next` calls that have passed their gate (are about to return)
    left: u64,
    /// delay inside every `next`
    slow_us: u64,
    nexts: u64,
    closed: bool,
    /// bulk mode: consecutive entry ids handed over are logged as one `NextRange{a,b}` event
    bulk: bool,
    range: Option<(u64, u64)>,
}

/// Shared control handle for a `RecStream`.
#[derive(Clone, Default)]
pub struct StreamCtl {
    inner: Arc<(Mutex<Ctl>, Condvar)>,
    /// tag written into every event (to tell two streams apart, e.g. tee branches)
    pub tag: Option<&'static str>,
    /// scenario in which the stream was created; it logs nothing in later scenarios
    epoch: u64,
}

impl StreamCtl {
    pub fn new() -> Self {
        Self {
            epoch: trace::epoch(),
            ..Default::default()
        }
    }
    pub fn tagged(tag: &'static str) -> Self {
        Self {
            tag: Some(tag),
            epoch: trace::epoch(),
            ..Default::default()
        }
    }
    fn live(&self) -> bool {
        self.epoch == trace::epoch()
    }
    pub fn script(&self, id: u64, r: Res) {
        self.inner.0.lock().unwrap().script.insert(id, r);
    }
    pub fn report_result(&self, r: Res) {
        self.inner.0.lock().unwrap().report_res = Some(r);
    }
    pub fn gate(&self, id: u64) {
        self.inner.0.lock().unwrap().gated.insert(id);
    }
    pub fn hold_all(&self, on: bool) {
        self.inner.0.lock().unwrap().hold_all = on;
        self.inner.1.notify_all();
    }
    pub fn open_gate(&self, id: u64) {
        self.inner.0.lock().unwrap().gated.remove(&id);
        self.inner.1.notify_all();
    }
    pub fn open_all(&self) {
        let mut g = self.inner.0.lock().unwrap();
        g.gated.clear();
        g.hold_all = false;
        self.inner.1.notify_all();
    }
    pub fn flush_errors(&self, on: bool) {
        self.inner.0.lock().unwrap().flush_err = on;
    }
    pub fn slow_flush(&self, us: u64) {
        self.inner.0.lock().unwrap().flush_slow_us = us;
    }
    pub fn flushes(&self) -> u64 {
        self.inner.0.lock().unwrap().flushes
    }
    /// Bulk mode (tens of thousands of entries): hand-offs of consecutive ids are coalesced into
    /// `NextRange{a,b}` events (emitted when the run of ids breaks, before a Flush and before Close).
    pub fn bulk(&self, on: bool) {
        self.inner.0.lock().unwrap().bulk = on;
    }
    pub fn slow(&self, us: u64) {
        self.inner.0.lock().unwrap().slow_us = us;
    }
    pub fn nexts(&self) -> u64 {
        self.inner.0.lock().unwrap().nexts
    }
    pub fn is_closed(&self) -> bool {
        self.inner.0.lock().unwrap().closed
    }
    /// Wait until at least `n` calls of `next` have *entered* the stream.
    pub fn wait_nexts(&self, n: u64, timeout: Duration) -> bool {
        let g = self.inner.0.lock().unwrap();
        let (g, _) = self
            .inner
            .1
            .wait_timeout_while(g, timeout, |c| c.nexts < n)
            .unwrap();
        g.nexts >= n
    }
    pub fn wait_closed(&self, timeout: Duration) -> bool {
        let g = self.inner.0.lock().unwrap();
        let (g, _) = self
            .inner
            .1
            .wait_timeout_while(g, timeout, |c| !c.closed)
            .unwrap();
        g.closed
    }
    pub fn stream(&self) -> RecStream {
        RecStream { ctl: self.clone() }
    }
}

/// Lock-free mirror of the current stream's `left` counter (for busy-waiting racers).
pub static LEFT_HINT: std::sync::atomic::AtomicU64 = std::sync::atomic::AtomicU64::new(0);

/// `EntryIoStream` that logs `Next`, `Report`, `Flush`, `Close` events in the calling (writer)
/// thread, answers according to the script and can be stalled inside `next`.
pub struct RecStream {
    ctl: StreamCtl,
}

impl RecStream {
    fn tag(&self, mut v: serde_json::Value) -> serde_json::Value {
        if let Some(t) = self.ctl.tag {
            v["s"] = json!(t);
        }
        v
    }
}

impl EntryIoStream for RecStream {
    fn next(&mut self, entry: &impl Entry) -> Result<(), IoStreamError> {
        let c = capture(entry);
        let (res, slow) = {
            let mut g = self.ctl.inner.0.lock().unwrap();
            g.nexts += 1;
            let res = if c.report {
                g.report_res.unwrap_or(Res::Ok)
            } else {
                c.id.and_then(|i| g.script.get(&i).copied())
                    .unwrap_or(Res::Ok)
            };
            // the event is logged on entry: "handed to the stream"
            if !self.ctl.live() {
            } else if c.report {
                trace::ev(self.tag(json!({"ev":"Report","res":res.as_str()})));
            } else if g.bulk {
                let id = c.id.unwrap_or(0);
                match g.range {
                    Some((a, b)) if id == b + 1 => g.range = Some((a, id)),
                    Some((a, b)) => {
                        trace::ev(self.tag(json!({"ev":"NextRange","a":a as i64,"b":b as i64})));
                        g.range = Some((id, id));
                    }
                    None => g.range = Some((id, id)),
                }
            } else {
                trace::ev(self.tag(
                    json!({"ev":"Next","e":c.id.map(|x| x as i64).unwrap_or(-1),"res":res.as_str()}),
                ));
            }
            self.ctl.inner.1.notify_all();
            if let Some(id) = c.id {
                while g.gated.contains(&id) || g.hold_all {
                    g = self.ctl.inner.1.wait(g).unwrap();
                }
            }
            g.left += 1;
            LEFT_HINT.store(g.left, std::sync::atomic::Ordering::Release);
            (res, g.slow_us)
        };
        if slow > 0 {
            std::thread::sleep(Duration::from_micros(slow));
        }
        match res {
            Res::Ok => Ok(()),
            Res::Val => Err(IoStreamError::Validation(ValidationError::invalid(
                "scripted validation error",
            ))),
            Res::Io => {
                // vary the kind of I/O error: a sink must treat every kind alike
                const KINDS: [io::ErrorKind; 6] = [
                    io::ErrorKind::Other,
                    io::ErrorKind::Interrupted,
                    io::ErrorKind::WouldBlock,
                    io::ErrorKind::BrokenPipe,
                    io::ErrorKind::TimedOut,
                    io::ErrorKind::WriteZero,
                ];
                let k = KINDS[(c.id.unwrap_or(0) % KINDS.len() as u64) as usize];
                Err(IoStreamError::Io(io::Error::new(k, "scripted io error")))
            }
        }
    }

    fn flush(&mut self) -> io::Result<()> {
        let (err, slow) = {
            let mut g = self.ctl.inner.0.lock().unwrap();
            g.flushes += 1;
            if let Some((a, b)) = g.range.take() {
                if self.ctl.live() {
                    trace::ev(self.tag(json!({"ev":"NextRange","a":a as i64,"b":b as i64})));
                }
            }
            (g.flush_err, g.flush_slow_us)
        };
        if self.ctl.live() {
            trace::ev_dedup(self.tag(json!({"ev":"Flush","err": if err {1} else {0}})));
        }
        if slow > 0 {
            std::thread::sleep(Duration::from_micros(slow));
        }
        if err {
            Err(io::Error::other("scripted flush error"))
        } else {
            Ok(())
        }
    }
}

impl Drop for RecStream {
    fn drop(&mut self) {
        let mut g = self.ctl.inner.0.lock().unwrap();
        g.closed = true;
        if self.ctl.live() {
            if let Some((a, b)) = g.range.take() {
                trace::ev(self.tag(json!({"ev":"NextRange","a":a as i64,"b":b as i64})));
            }
            trace::ev(self.tag(json!({"ev":"Close"})));
        }
        self.ctl.inner.1.notify_all();
    }
}
