SPECIFICATION Spec
INVARIANT AlgebraInv
INVARIANT PairInv
INVARIANT DurInv
INVARIANT StringInv
INVARIANT MismatchInv
INVARIANT Emit
INVARIANT AttrInv
INVARIANT EmitAttr
CHECK_DEADLOCK FALSE
