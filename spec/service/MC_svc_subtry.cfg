\* quick B: request 1 hands a slot guard (wait or discard) to a sub-task, request 2 uses try_append
CONSTANTS
  Plan <- Plan11
  ModesOf <- SubTry
  NFlush = 0
  EarlyClose = FALSE
SPECIFICATION Spec
INVARIANTS SvcInv AtEnd
PROPERTY SilentAfterDetach
CHECK_DEADLOCK FALSE
