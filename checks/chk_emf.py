"""C02 C03 C08 - the EMF formatter against spec/emf/EmfFormat.tla.

TLC (a) checks the model-level invariants of EmfFormat.tla on every enumerated entry x configuration
(WellFormed, Sound, Transparent, RejectIff, UnroutableReport, Faithful) and (b) prints every entry
TOGETHER WITH the result the model computes for it with validations on and off.  `emf replay`
issues exactly those writer calls against the real Emf / SampledEmf (abstract symbols concretised
into nasty strings and extreme numbers) and this module compares:

  C02  success => newline framing, strict JSON, `_aws` skeleton; validation error => zero bytes
  C03  accepted valid entries: parsed output == TLC's Accept(records), order-insensitive, numbers
       numerically (integers exactly)
  C08  accept/reject == model for every way of enabling validations, in both build profiles;
       rejected => no output; accepted => no duplicate members and bytes identical to a formatter
       with validations disabled
"""
import hashlib, json, os, random, re, sys, time
from decimal import Decimal
from fractions import Fraction
from itertools import permutations
from concurrent.futures import ThreadPoolExecutor

import vlib

SPECD = os.path.join(vlib.SPEC, "emf")
MODULE = "EmfSlices"
ACTIONS = ["Timestamp", "Config", "StringValue", "MetricValue", "ErrorValue", "EmptyValue"]

# (name, cfg, simulate traces or None)
_A = ("A", "MC_emf_A.cfg", None)
_A2 = ("A2", "MC_emf_A2.cfg", None)
_D = ("D", "MC_emf_D_quick.cfg", None)
_Bq = ("B", "MC_emf_B_quick.cfg", None)
_Cq = ("C", "MC_emf_C_quick.cfg", None)
# quick: every property replays the slices that exercise it (D = catalogue x configurations for all)
QUICK = {
    "C02": [_A, _A2, _Bq, _D],     # value rendering, every call shape, rejects
    "C03": [_A, _A2, _Cq, _D],     # value rendering, split / dimension sets
    "C08": [_A2, _Bq, _Cq, _D],    # defects at every position, split / entry dimensions
}
THOROUGH = [_A, _A2, ("B", "MC_emf_B.cfg", None), ("C", "MC_emf_C.cfg", None), ("D", "MC_emf_D.cfg", None),
            ("E", "MC_emf_E.cfg", 16000), ("E2", "MC_emf_E2.cfg", 120)]
# third field of a simulated slice = total number of random traces (divided among the TLC workers).  In slice E
# TLC prints the states of the trace only (~5 per trace); in slice E2 (history-dependent alphabet) it evaluates the
# invariants - and therefore prints - every successor of every state of the trace (~1000 per trace).


def slices_for(prop, tier):
    return QUICK[prop] if tier == "quick" else THOROUGH


SIM_DEPTH = 7

CAP = 1048576   # stands for u64::MAX in the model
BIG = 524288    # stands for 2^63
F64_MAX = 1.7976931348623157e308

ERR_KINDS = [
    ("multiple timestamps written", "multi_ts"),
    ("name can't be empty", "empty_name"),
    ("name can't be `_aws`", "aws_name"),
    ("duplicate field", "dup"),
    ("can't use metric in dimension field", "metric_in_dim"),
    ("missing dimension", "missing_dim"),
    ("can't use per-metric dimensions without split entries", "dims_no_split"),
    ("entry dimensions must be configured before", "ed_late"),
    ("entry dimensions cannot be set twice", "ed_twice"),
    ("entry dimensions cannot be empty", "ed_empty"),
    ("scripted value error", "value_error"),
]


# --------------------------------------------------------------------------------------------
# TLC: model checking + behaviour generation (one run per slice does both)
# --------------------------------------------------------------------------------------------
def _write_replay_lines(out, path):
    """REPLAY lines of a TLC run -> ndjson file (the second tuple element is a TLA+ string literal whose
    escapes coincide with JSON's). Returns the number of lines."""
    pre = '<<"REPLAY", '
    k = 0
    with open(path, "w") as f:
        for l in out.splitlines():
            if l.startswith(pre):
                f.write(json.loads(l[len(pre):-2]))
                f.write("\n")
                k += 1
    return k


def _run_slice(args):
    name, cfg, sim, seed, workers, path = args
    if sim is None:
        r = vlib.tlc(SPECD, MODULE, cfg, workers=workers, coverage=True, timeout=3000, heap="6g")
    else:
        r = vlib.tlc(SPECD, MODULE, cfg, workers=workers, simulate=max(1, sim // workers), depth=SIM_DEPTH, seed=seed,
                     timeout=3000, heap="6g")
        m = re.findall(r"The number of states generated: (\d+)", r.out)
        if m:
            r.generated = int(m[-1])
    if r.invariant_violated or r.property_violated or r.errors or r.deadlock:
        tail = "\n".join(l for l in r.out.splitlines() if not l.startswith('<<"REPLAY"'))[-5000:]
        sys.stdout.write(tail + "\n")
        raise vlib.ToolError(f"model {MODULE}/{cfg} does not satisfy its own invariants: "
                             f"{(r.invariant_violated or r.errors)[:3]}")
    count = _write_replay_lines(r.out, path)
    # vlib's coverage regex does not match "<Action line .. of module M (l c l c)>: d:t" (actions that are
    # disjuncts with a location suffix); parse those here
    for m in re.finditer(r"^<(\w+) line [^>]*>: (\d+):(\d+)", r.out, re.M):
        if m.group(1) in ACTIONS or m.group(1) == "Init":
            r.coverage[m.group(1)] = max(r.coverage.get(m.group(1), 0), int(m.group(3)))
    r.out = ""  # the raw output can be hundreds of MB
    if sim is None and r.distinct != count:
        raise vlib.ToolError(f"{cfg}: {r.distinct} distinct states but {count} REPLAY lines")
    vlib.log(f"[tlc] {MODULE}/{cfg}: {r.distinct or r.generated} states, {count} behaviours printed, {r.wall:.1f}s"
             + (f" (simulate {sim} traces depth={SIM_DEPTH} seed={seed})" if sim else ""))
    return name, cfg, sim, r, path, count


CHUNK = 25000


PREFILL = 70


def _prefillable(o):
    """Every third behaviour that sets AllowSplitEntries gets PREFILL filler dimension sets directly behind that call
    (harness/src/emf.rs from_abstract_prefilled). Dimension sets are independent in EmfFormat.tla: the verdict and the
    records of the behaviour are what the model says without the fillers, as long as the presence of split records
    does not change whether the global record is needed - so only behaviours that are rejected or have a split record
    of their own, with and without validation."""
    # every third of the first 60 000 behaviours (all of the quick tier), every 24th beyond (bounds the thorough tier:
    # a prefilled behaviour writes 70 more records on every way of building the formatter)
    if o["id"] % (3 if o["id"] < 60000 else 24) or o.get("fault") or not any(c["op"] == "CFG" and c["arg"] == "split" for c in o["calls"]):
        return False
    first = next(i for i, c in enumerate(o["calls"]) if c["op"] == "CFG" and c["arg"] == "split")
    # entry dimensions configured once a dimension set exists are an error of their own (ed_late in EmfFormat.tla): the
    # fillers would create that situation, so behaviours that configure entry dimensions behind the split call stay as they are
    if any(c["op"] == "CFG" and c["arg"] not in ("split", "unroutable") for c in o["calls"][first + 1:]):
        return False
    return all((not e["accept"]) or any(r["kind"] == "split" for r in e["records"]) for e in (o["on"], o["off"]))


def _chunks(path, name, seed, seen, counter):
    """behaviours of one slice in chunks, deduplicated across slices, with id and concretisation variant"""
    chunk = []
    with open(path) as f:
        for l in f:
            o = json.loads(l)
            k = hashlib.md5(json.dumps([o["cfg"], o["calls"]], sort_keys=True).encode()).digest()
            if k in seen:
                continue
            seen.add(k)
            o["slice"] = name
            o["id"] = counter[0]
            counter[0] += 1
            # concretisation variant: 0 = plain symbols, otherwise nasty strings / extreme numbers
            o["v"] = (seed * 7919 + o["id"] * 31) % 977
            if _prefillable(o):
                o["prefill"] = PREFILL
            chunk.append(o)
            if len(chunk) >= CHUNK:
                yield chunk
                chunk = []
    if chunk:
        yield chunk


# --------------------------------------------------------------------------------------------
# driver
# --------------------------------------------------------------------------------------------
def drive(chk, beh, release, tag, reuse=False):
    """Replay behaviours into the real formatter. reuse=False: a fresh formatter per behaviour and way;
    reuse=True: one long-lived formatter per (configuration, way, variant) formats all behaviours that share
    it, in the order given."""
    vlib.cargo_build(["emf"], release=release)
    prof = "release" if release else "debug"
    bp = os.path.join(chk.dir, f"beh-{tag}.ndjson")
    op = os.path.join(chk.dir, f"out-{tag}-{prof}.ndjson")
    with open(bp, "w") as f:
        for b in beh:
            row = {"id": b["id"], "v": b["v"], "cfg": b["cfg"], "calls": b["calls"]}
            if b.get("prefill"):
                row["prefill"] = b["prefill"]
            if b.get("fault"):
                row["fault"] = b["fault"]
            f.write(json.dumps(row) + "\n")
    vlib.run_bin("emf", ["replay", "--behaviours", bp, "--out", op] + (["--reuse", "1"] if reuse else []),
                 release=release, timeout=3000)
    outs = vlib.read_ndjson(op)
    os.remove(op)
    os.remove(bp)
    if len(outs) != len(beh):
        raise vlib.ToolError(f"driver returned {len(outs)} results for {len(beh)} behaviours")
    for o in outs:
        if o["profile"] != prof:
            raise vlib.ToolError(f"driver built as {o['profile']}, expected {prof}")
    return outs


# --------------------------------------------------------------------------------------------
# oracle: TLC's abstract result concretised with the driver's concretisation table
# --------------------------------------------------------------------------------------------
def effective_validation(way, debug):
    if way == "all_validations":
        return True
    if way in ("no_validations", "skip_true"):
        return False
    # Emf::builder: "defaults to disabling some validations when debug assertions are disabled";
    # skip_all_validations(false): "If `skip` is true, turns skipping validations on" (false: no change)
    return debug


def err_kinds(text):
    return sorted({k for s, k in ERR_KINDS if s in (text or "")})


def exp_number(tr, ob):
    """expected rendered value of observation `ob` under transformation `tr` -> ("i", int) | ("f", float)"""
    t = tr["t"]
    if t == "max":
        return ("f", F64_MAX)
    if t == "min":
        return ("f", -F64_MAX)
    if t == "zero":
        return ("f", 0.0)
    if t == "id":
        if ob["k"] == "U":
            return ("i", int(ob["v"]))
        return ("f", float(ob["v"]))
    if t == "mean":
        m = float(ob["total"]) / float(int(ob["occ"]))
        return ("f", max(-F64_MAX, min(F64_MAX, m)))
    raise vlib.ToolError(f"unknown transformation {t}")


def exp_count(c):
    return (1 << 64) - 1 if c == CAP else (1 << 63) if c == BIG else c


def num_eq(exp, text):
    kind, v = exp
    try:
        if kind == "i":
            return Fraction(Decimal(text)) == v
        f = float(text)
        return f == v and f == f and abs(f) != float("inf")
    except Exception:
        return False


def expected_records(b, o, exp):
    conc = o["conc"]
    names, cc = conc["names"], conc["calls"]
    ts = None
    if exp["ts"] != "none":
        for c, d in zip(b["calls"], cc):
            if c["op"] == "TS":
                ts = d["ts"]["s"] * 1000 + d["ts"]["n"] // 1000000
    recs = []
    for r in exp["records"]:
        dims = sorted(sorted([names[x] for x in d["base"]] + [names[x] for x in d["ext"]]) for d in r["dims"])
        decls = sorted(((names[d["name"]], None if d["unit"] == "none" else cc[d["pos"] - 1]["unit"],
                         1 if d["hires"] else None) for d in r["decls"]), key=json.dumps)
        directives = [(ns, dims, decls) for ns in conc["ns"]]
        if r["extra"]:
            e = conc["extra"]
            directives.append((e["ns"], sorted(sorted(x) for x in e["dims"]),
                               sorted(((m["name"], m["unit"], m["res"]) for m in e["metrics"]), key=json.dumps)))
        members = []
        for m in r["members"]:
            nm = names[m["name"]]
            if m["kind"] == "str":
                v = conc["dimv"][m["sv"]] if m["pos"] == 0 else cc[m["pos"] - 1]["sval"]
                members.append((nm, ("s", v)))
            else:
                obs = cc[m["pos"] - 1]["obs"]
                vals = [exp_number(t, obs[t["src"] - 1]) for t in m["vals"]]
                if m["kind"] == "scalar":
                    members.append((nm, ("n", vals[0])))
                else:
                    members.append((nm, ("h", vals, [("i", exp_count(c)) for c in m["counts"]])))
        recs.append({"directives": directives, "members": members, "kind": r["kind"]})
    return {"ts": ts, "lg": conc["lg"], "records": recs}


def real_record(line):
    aws = line["aws"]
    directives = []
    for d in aws["directives"]:
        ms = []
        for m in d["metrics"]:
            res = m["res"]
            if res is not None:
                try:
                    res = int(res) if re.fullmatch(r"[0-9]+", res) else res
                except Exception:
                    pass
            ms.append((m["name"], m["unit"], res))
        directives.append((d["ns"], sorted(sorted(x) for x in d["dims"]), sorted(ms, key=json.dumps)))
    return {"directives": directives, "members": [(m["name"], m["v"]) for m in line["members"]],
            "ts": aws["ts"], "lg": aws["lg"]}


def _pairs_expected(ev):
    if ev[0] == "n":
        return [(ev[1], ("i", 1))]
    return list(zip(ev[1], ev[2]))


def value_eq(ev, rv):
    """The property allows a metric 'as the same number, or as aligned Values/Counts arrays': both sides
    are reduced to a multiset of (value, count) pairs; a bare number is one pair with count 1."""
    if ev[0] == "s":
        return rv.get("s") == ev[1] and len(rv) == 1
    if "n" in rv:
        pairs = [(rv["n"], "1")]
    elif "values" in rv:
        if len(rv["values"]) != len(rv["counts"]):
            return False
        pairs = list(zip(rv["values"], rv["counts"]))
    else:
        return False
    exp = _pairs_expected(ev)
    if len(exp) != len(pairs):
        return False
    for e in exp:
        hit = next((p for p in pairs if num_eq(e[0], p[0]) and num_eq(e[1], p[1])), None)
        if hit is None:
            return False
        pairs.remove(hit)
    return True


def form_differs(ev, rv):
    return (ev[0] == "n") != ("n" in rv) and ev[0] != "s"


FORM_DRIFT = []


def record_diff(er, rr):
    """list of differences between an expected and a real record ([] = equal)"""
    diffs = []
    ed = sorted(er["directives"], key=lambda x: json.dumps(x))
    rd = sorted(rr["directives"], key=lambda x: json.dumps(x))
    if json.dumps(ed) != json.dumps(rd):
        diffs.append({"directives_expected": ed, "directives_real": rd})
    left = list(rr["members"])
    for nm, ev in er["members"]:
        cands = [x for x in left if x[0] == nm and value_eq(ev, x[1])]
        # with duplicate names (validations off) prefer the candidate of the same form
        hit = next((x for x in cands if not form_differs(ev, x[1])), cands[0] if cands else None)
        if hit is None:
            cand = [x[1] for x in left if x[0] == nm]
            diffs.append({"member": nm, "expected": ev, "real": cand[0] if cand else "(absent)"})
        else:
            left.remove(hit)
            if form_differs(ev, hit[1]) and sum(1 for x in er["members"] if x[0] == nm) == 1:
                FORM_DRIFT.append(nm)      # (with duplicate names the pairing itself is ambiguous)
    for nm, rv in left:
        diffs.append({"member": nm, "expected": "(absent)", "real": rv})
    return diffs


def content_diff(b, o, exp, parse):
    e = expected_records(b, o, exp)
    lines = parse["lines"]
    diffs = []
    if b.get("prefill"):
        own = [l for l in lines if not any(str(m["name"]).startswith("zzfill") for m in l["members"])]
        if len(lines) - len(own) != b["prefill"]:
            return [{"filler_records_expected": b["prefill"], "filler_records_real": len(lines) - len(own)}]
        lines = own
    if len(lines) != len(e["records"]):
        return [{"records_expected": len(e["records"]), "records_real": len(lines)}]
    reals = [real_record(l) for l in lines]
    for rr in reals:
        if e["ts"] is None:
            lo, hi = int(o["now"][0]), int(o["now"][1])
            if not (lo <= int(rr["ts"]) <= hi):
                diffs.append({"timestamp": rr["ts"], "expected": f"now, in [{lo},{hi}]"})
        elif int(rr["ts"]) != e["ts"]:
            diffs.append({"timestamp": rr["ts"], "expected": e["ts"]})
        if rr["lg"] != e["lg"]:
            diffs.append({"log_group": rr["lg"], "expected": e["lg"]})
    best = None
    for perm in permutations(range(len(reals))):
        d = []
        for i, j in enumerate(perm):
            d += record_diff(e["records"][i], reals[j])
        if best is None or len(d) < len(best):
            best = d
        if not d:
            break
    return diffs + (best or [])


def shape_of_json_error(b):
    """stable key for invalid-JSON findings: does a distribution end in a skipped observation?"""
    for c in b["calls"]:
        if c["op"] == "MET" and len(c["obs"]) >= 2 and c["obs"][-1] in ("NaN", "RepNaN") \
                and any(x not in ("NaN", "RepNaN") for x in c["obs"]):
            return "distribution-ends-in-skipped-observation"
    return "other"


def judge(b, o, debug):
    """Compare one behaviour's real runs with the model. -> list of findings
    {prop, sev: violation|drift, key, what, way, run}"""
    F = []
    unroutable = any(c["op"] == "CFG" and c["arg"] == "unroutable" for c in b["calls"])
    valid = b["on"]["accept"]
    runs = o["runs"]
    way2run = {w: g for g in runs for w in g["ways"]}
    off_ref = way2run.get("skip_true")

    def add(prop, sev, key, what, way, g):
        F.append({"prop": prop, "sev": sev, "key": key, "what": what, "way": way, "run": g})

    for g in runs:
        ok = g["status"] == "ok"
        w0 = g["ways"][0]
        parse = g["parse"]
        parsed_ok = False
        # ---------------- C02: the bytes and the status alone
        if ok:
            if g["len"] == 0:
                add("C02", "violation", "C02:empty-success", "format reported success but wrote nothing", w0, g)
            elif parse["framing"]:
                add("C02", "violation", "C02:framing", f"output framing: {parse['framing']}", w0, g)
            else:
                bad = [l for l in parse["lines"] if "json_err" in l]
                skel = [l for l in parse["lines"] if l.get("skeleton_err")]
                if bad:
                    add("C02", "violation", "C02:invalid-json:" + shape_of_json_error(b),
                        f"a line of the output is not valid JSON: {bad[0]['json_err']} at byte {bad[0]['pos']}", w0, g)
                elif skel:
                    add("C02", "violation", "C02:skeleton", f"`_aws` skeleton: {skel[0]['skeleton_err']}", w0, g)
                else:
                    parsed_ok = True
        elif g["status"] == "validation":
            if g["len"] > 0:
                add("C02", "violation", "C02:bytes-before-validation-error",
                    f"validation error returned after {g['len']} bytes were written", w0, g)
                add("C08", "violation", "C08:bytes-before-validation-error",
                    f"entry rejected but {g['len']} bytes were written", w0, g)
        elif g["status"] == "panic":
            add("C02", "drift", "panic", f"formatter panicked: {g['err']}", w0, g)
        else:
            add("C02", "drift", "io", f"formatter returned an I/O error writing to a Vec: {g['err']}", w0, g)

        compared = {}
        for w in g["ways"]:
            val = effective_validation(w, debug)
            exp = b["on"] if val else b["off"]
            # ---------------- decision
            if ok != exp["accept"]:
                what = (f"{w} ({'debug' if debug else 'release'} build, validations {'on' if val else 'off'}): formatter "
                        f"{'accepted' if ok else 'rejected (' + str(g['err'])[:200] + ')'} an entry the model "
                        f"{'accepts' if exp['accept'] else 'rejects ' + str(exp['errs'])}")
                if val and not unroutable and g["status"] != "io":
                    if ok and exp["errs"] == ["dup"]:
                        key = "C08:accepted-duplicate-member"
                    else:
                        key = "C08:decision"
                    add("C08", "violation", key, what, w, g)
                elif not val and valid and not ok and not unroutable:
                    add("C08", "violation", "C08:valid-entry-rejected-without-validations", what, w, g)
                else:
                    add("C08", "drift", "decision", what, w, g)
                add("C02", "drift", "decision", what, w, g)
                add("C03", "drift", "decision", what, w, g)
            elif not ok:
                if g["status"] == "validation" and err_kinds(g["err"]) != sorted(exp["errs"]):
                    add("C08", "drift", "error-kinds",
                        f"{w}: error kinds {err_kinds(g['err'])} vs model {sorted(exp['errs'])}", w, g)
            elif parsed_ok:
                # ---------------- C03: content equality with TLC's Accept(records)
                if val not in compared:
                    del FORM_DRIFT[:]
                    compared[val] = content_diff(b, o, exp, parse)
                    if not compared[val] and FORM_DRIFT:
                        add("C03", "drift", "form", f"{w}: metric {FORM_DRIFT[0]!r} emitted in the other permitted form "
                            "(bare number vs Values/Counts)", w, g)
                d = compared[val]
                if d:
                    what = f"{w}: emitted records differ from the model's Accept(records): {json.dumps(d)[:600]}"
                    add("C03", "violation" if valid else "drift", "C03:content", what, w, g)
            elif ok and valid and exp["accept"] and g["len"] > 0:
                # accepted valid entry whose output cannot be read back: the records do not carry the
                # entry's content either (C03), whatever C02 says about the syntax
                add("C03", "violation", "C03:content-unreadable",
                    f"{w}: the emitted records of a valid entry cannot be parsed, so they do not carry its values, "
                    "declarations and dimensions", w, g)
            # ---------------- C08 soundness / transparency
            if val and ok and parsed_ok and not unroutable:
                for l in parse["lines"]:
                    nms = [m["name"] for m in l["members"]]
                    dup = sorted({x for x in nms if nms.count(x) > 1} | ({"_aws"} if "_aws" in nms else set()))
                    if dup or l["dups"]:
                        add("C08", "violation", "C08:accepted-duplicate-member",
                            f"{w}: accepted record has duplicate members {dup or l['dups']}", w, g)
                        break
            if val and ok and exp["accept"] and off_ref is not None and off_ref is not g:
                add("C08", "violation", "C08:transparency",
                    f"{w}: accepted output differs from the output of the same formatter with validations disabled "
                    f"({off_ref['status']}, {off_ref['len']} bytes vs {g['len']} bytes)", w, g)
    return F


# --------------------------------------------------------------------------------------------
# the check
# --------------------------------------------------------------------------------------------
RULES = {
    "C02": "evaluations = (entry, configuration, concretisation, way of building the formatter) executions of the real "
           "Emf/SampledEmf whose bytes went through the strict parser (framing, RFC 8259, `_aws` skeleton) or whose "
           "validation error was checked to have written nothing; distinct_nontrivial = distinct (configuration, call "
           "sequence) pairs enumerated by TLC",
    "C03": "evaluations = executions whose parsed records were compared with TLC's Accept(records); "
           "distinct_nontrivial = distinct accepted (configuration, call sequence) pairs",
    "C08": "evaluations = (entry, configuration, way, build profile) executions whose accept/reject decision, "
           "duplicate-freedom and byte equality with a no-validation formatter were compared with the model; "
           "distinct_nontrivial = distinct (configuration, call sequence) pairs",
}
ASSUMPTIONS = [
    "every behaviour is formatted three times per build profile: by a fresh formatter, and by long-lived formatters "
    "(one per configuration x way x 4 concretisation variants) in TLC's order and in a seeded shuffled order; in all "
    "three the entry is judged on its own against TLC's result for that entry; in the long-lived passes ~30% of the "
    "entries are first formatted into a writer failing after 0 / 1 / half / inside the last line / all but one of the "
    "bytes, or go through a writer whose first call is Interrupted - the failing call is only counted (C16), the "
    "healthy formatting that follows is judged",
    "TLC results are exhaustive within the slices of EmfSlices.tla (A/A2/B/C/D exhaustive, E/E2 simulated); call "
    "sequences beyond the bounds are covered only by simulation",
    "numbers are abstract in the model (observation tokens, saturating counts on a reduced scale); number rendering is "
    "checked numerically on the concrete representatives of harness/src/emf.rs, not for all 2^64 values",
    "entries carrying AllowUnroutableEntries are outside C08's soundness clause (documented as unsupported for anything "
    "but the in-band error report); they are still replayed and compared as MODEL-DRIFT only",
    "Emf::builder and skip_all_validations(false) are taken at their documentation: validations on iff debug assertions",
    "with name validation disabled an entry field named `_aws` becomes a second `_aws` member; the skeleton is judged "
    "on the first one",
    "byte equality with the no-validation formatter is equality of the multiset of lines (split records are written in "
    "the iteration order of a randomly seeded hash map); for entries that write no timestamp the digits after "
    "\"Timestamp\": are masked and the value is checked to lie in the wall-clock window of the call",
    "a metric emitted as a bare number and as {Values:[v],Counts:[1]} are the same content (the property allows both)",
]


HISTORY = 40
FAULT_RATE = 0.3
FAULT_KINDS = ["zero", "one", "mid", "lastline", "last", "interrupted"]


def reuse_pass(beh, seed, shuffled):
    """The same behaviours prepared for long-lived formatters: only four concretisation variants, so that one
    formatter instance (configuration, way, variant) formats hundreds of entries - rejected, split and valid
    ones mixed - in TLC's order or in a seeded shuffled order."""
    vs = [0] + [(seed * 7919 + 131 * k) % 977 for k in (1, 2, 3)]
    lst = [dict(b, v=vs[b["id"] % 4]) for b in beh]
    rng = random.Random(seed * 1000003 + beh[0]["id"] + (7 if shuffled else 0))
    if shuffled:
        rng.shuffle(lst)
    # writer faults at seeded positions: before such an entry is formatted into a healthy writer the same
    # formatter instances format it into a writer that fails after N bytes (or is interrupted once); the
    # failing call itself is C16's business (only counted), the entry that FOLLOWS is judged as always
    for b in lst:
        if rng.random() < FAULT_RATE:
            b["fault"] = rng.choice(FAULT_KINDS)
    return lst


def _evaluate(chk, prop, beh, outs, debug, stats, mode="fresh"):
    prof = "debug" if debug else "release"
    bad = chk.extra.setdefault("_violating", set())
    for pos, (b, o) in enumerate(zip(beh, outs)):
        if mode != "fresh" and (b["id"], prof) in bad:
            continue    # already reported with a fresh formatter
        if b["id"] != o["id"]:
            raise vlib.ToolError("driver output out of order")
        fs = judge(b, o, debug)
        nways = sum(len(g["ways"]) for g in o["runs"])
        chk.evaluations += nways
        stats["executions_" + prof] = stats.get("executions_" + prof, 0) + nways
        if mode != "fresh":
            stats["executions_long_lived_formatter"] = stats.get("executions_long_lived_formatter", 0) + nways
            ft = o.get("fault") or {}
            if ft.get("kind"):
                stats["entries_after_writer_fault"] = stats.get("entries_after_writer_fault", 0) + 1
                stats["failing_writer_calls"] = stats.get("failing_writer_calls", 0) + ft["calls"]
                stats["failing_writer_calls_returning_io_error"] = \
                    stats.get("failing_writer_calls_returning_io_error", 0) + ft["io_err"]
                stats["failing_writer_calls_not_returning_io_error"] = \
                    stats.get("failing_writer_calls_not_returning_io_error", 0) + ft["not_io_err"]
        mine = [f for f in fs if f["prop"] == prop]
        viol = [f for f in mine if f["sev"] == "violation"]
        for f in viol[:1]:
            rep = {"kind": "emf", "profile": prof, "way": f["way"],
                   "behaviour": {k: b[k] for k in ("id", "v", "cfg", "calls", "on", "off", "slice")},
                   "concrete": o["conc"], "observed": {k: f["run"][k] for k in ("ways", "status", "err", "len", "raw")}}
            what = f["what"]
            if mode != "fresh":
                # the entries the same formatter instances formatted just before this one
                hist = [x for x in beh[:pos] if x["cfg"] == b["cfg"] and x["v"] == b["v"]][-HISTORY:]
                rep["mode"] = mode
                rep["history"] = [{k: x[k] for k in ("id", "v", "cfg", "calls", "fault") if k in x} for x in hist]
                if b.get("fault"):
                    rep["behaviour"]["fault"] = b["fault"]
                    what = f"[after a writer fault ({b['fault']}) on the same formatter] " + what
                what = (f"[long-lived formatter ({mode}), entry judged on its own against the model after "
                        f"{len(hist)}+ earlier entries on the same instance] " + what)
            bad.add((b["id"], prof))
            chk.violation(what, rep, key=f["key"])
            stats["violating_behaviours"] = stats.get("violating_behaviours", 0) + 1
        if not viol:
            chk.traces += nways
        for f in mine:
            if f["sev"] == "drift":
                stats["drift"] = stats.get("drift", 0) + 1
                if len(chk.drift) < 20:
                    chk.drift.append({"behaviour": b["id"], "profile": prof, "what": f["what"][:300]})


def _coverage_stats(chk, prop, beh, outs):
    st = chk.extra.setdefault("reached", {})

    def inc(k, n=1):
        st[k] = st.get(k, 0) + n
    for b, o in zip(beh, outs):
        on, off = b["on"], b["off"]
        inc("accept_with_validations" if on["accept"] else "reject_with_validations")
        inc("accept_without_validations" if off["accept"] else "reject_without_validations")
        for e in on["errs"]:
            inc("reject_kind_" + e)
        key = json.dumps([b["cfg"], b["calls"]], sort_keys=True)
        if prop != "C03" or on["accept"]:
            chk.nontrivial.add(hashlib.md5(key.encode()).digest())
        if on["accept"]:
            if len(on["records"]) > 1:
                inc("accepted_with_split_records")
            if any(r["kind"] == "split" for r in on["records"]) and b["cfg"]["ns"] == 3:
                inc("accepted_split_three_namespaces")
            if sum(1 for r in on["records"] if r["kind"] == "split") >= 2:
                inc("accepted_two_split_sets")
        for c in b["calls"]:
            if c["op"] == "MET" and len(c["obs"]) >= 2 and c["obs"][-1] in ("NaN", "RepNaN"):
                inc("distribution_ending_in_skipped_observation")
                break
        for g in o["runs"]:
            if g["status"] == "ok" and g["parse"] and g["parse"].get("lines"):
                inc("output_lines_parsed", len(g["parse"]["lines"]))


def _run(prop, tier, chk):
    chk.rule = RULES[prop]
    chk.assumptions = ASSUMPTIONS
    slices = slices_for(prop, tier)
    par = 3 if tier == "quick" else 2
    workers = max(1, vlib.TLC_WORKERS // par)
    # build while TLC runs
    profiles = [False, True] if prop == "C08" else [False]
    stats = chk.extra.setdefault("replay", {})
    generated = chk.extra.setdefault("behaviours_generated", {})
    seen, counter, covered, ops = set(), [0], {}, set()
    naccept = 0
    samples = []
    t0 = time.time()
    with ThreadPoolExecutor(max_workers=par + 1) as ex:
        futs = [ex.submit(_run_slice, (n, c, sm, chk.seed, workers, os.path.join(chk.dir, f"tlc-{n}.ndjson")))
                for n, c, sm in slices]
        bf = ex.submit(lambda: [vlib.cargo_build(["emf"], release=rel) for rel in profiles])
        bf.result()
        for fut in futs:
            name, cfg, sim, r, path, count = fut.result()
            chk.add_model(f"EmfSlices/{cfg}", r)
            for a, k in r.coverage.items():
                covered[a] = covered.get(a, 0) + k
            fresh = 0
            t1 = time.time()
            for beh in _chunks(path, name, chk.seed, seen, counter):
                fresh += len(beh)
                for b in beh:
                    ops.update(c["op"] for c in b["calls"])
                    naccept += b["on"]["accept"]
                for rel in profiles:
                    outs = drive(chk, beh, rel, f"{name}-{beh[0]['id']}")
                    if not rel:
                        _coverage_stats(chk, prop, beh, outs)
                    _evaluate(chk, prop, beh, outs, not rel, stats)
                    del outs
                    # the same entries on long-lived formatters: every entry is still judged on its own
                    # against TLC's expectation for that entry (no entry may depend on its predecessors)
                    # (large thorough slices: the shuffled order only, debug profile only)
                    large = count > 50000
                    if large and rel:
                        continue
                    for shuffled in ((True,) if large else (False, True)):
                        lst = reuse_pass(beh, chk.seed, shuffled)
                        outs = drive(chk, lst, rel, f"{name}-{beh[0]['id']}-reuse", reuse=True)
                        _evaluate(chk, prop, lst, outs, not rel, stats, "reuse-shuffled" if shuffled else "reuse")
                        del outs, lst
                if len(samples) < 4:
                    samples.append(beh[len(beh) // 2])
            os.remove(path)
            generated[name] = fresh
            vlib.log(f"[emf] slice {name}: {fresh} new behaviours replayed into the real formatter "
                     f"({'debug+release' if len(profiles) == 2 else 'debug'}) and compared in {time.time()-t1:.1f}s")
    # vacuity: every kind of writer call must occur, as a step of the machine or inside a catalogue entry
    # (slice D starts from complete entries and takes no steps); both verdicts must occur
    opname = {"Timestamp": "TS", "Config": "CFG", "StringValue": "STR", "MetricValue": "MET", "ErrorValue": "ERR",
              "EmptyValue": "EMPTY"}
    never = [a for a in ACTIONS if covered.get(a, 0) == 0 and opname[a] not in ops]
    if never:
        raise vlib.ToolError(f"vacuity: writer calls never issued in any slice: {never}")
    if naccept == 0 or naccept == counter[0]:
        raise vlib.ToolError("vacuity: the generated entries are all accepted or all rejected")
    chk.extra["behaviours_total"] = counter[0]
    chk.extra.pop("_violating", None)
    for b in samples:
        chk.sample({"cfg": b["cfg"], "calls": [[c["op"], c["name"], c["arg"], c["obs"], c["dims"]] for c in b["calls"]],
                    "model_on": "accept" if b["on"]["accept"] else b["on"]["errs"]})
    vlib.log(f"[emf] {counter[0]} behaviours in {time.time()-t0:.1f}s")


def run(prop, tier):
    chk = vlib.Check(prop, tier)
    _run(prop, tier, chk)
    return chk.finish()


def replay(prop, path):
    """Re-execute the behaviour of one violation file against the current tree (same concretisation
    variant, same build profile) and judge it again. Exit code 1 while it still violates."""
    with open(path) as f:
        v = json.load(f)
    rep = v["replay"]
    b = rep["behaviour"]
    release = rep["profile"] == "release"
    chk = vlib.Check(prop + "-replay", "replay")   # own scratch dir; the property's evidence file is left alone
    chk.prop = prop
    chk.findings = vlib.load_findings(prop)
    hist = rep.get("history") or []
    outs = drive(chk, hist + [b], release, f"replay-{b['id']}", reuse=bool(rep.get("mode")))
    fs = [f for f in judge(b, outs[-1], not release) if f["prop"] == prop and f["sev"] == "violation"]
    for f in fs[:1]:
        chk.violation(f["what"], dict(rep, observed={k: f["run"][k] for k in ("ways", "status", "err", "len", "raw")}),
                      key=f["key"])
    for f in chk.known_hits:
        vlib.log(f"KNOWN-FINDING: property={prop} {f.get('what')}")
    if not fs:
        vlib.log(f"[{prop}] replay of {path}: the real formatter agrees with the model on this entry")
    return 1 if chk.violations else 0
