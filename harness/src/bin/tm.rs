//! C18 driver: steps TLC-generated behaviours of spec/timers/Stopwatch.tla through the real
//! `Stopwatch` / `Timer` / `Timestamp` / `TimestampOnClose` over a `ManuallyAdvancedTimeSource`
//! and compares, after every step, what closing reports with the value TLC computed from the
//! property layer (`obs`).  The comparison itself is plain equality; every expected value comes from
//! the behaviour file.
//!
//!   tm sw --behaviours f.ndjson --out o.ndjson --tick-ns N [--w0 ticks]
//!   tm tm --behaviours f.ndjson --out o.ndjson --tick-ns N
//!
//! Output: one line per mismatch and a final summary line.

use metrique::timers::{
    EpochMicros, EpochMillis, EpochSeconds, OwnedTimerGuard, Stopwatch, Timer, TimerGuard, Timestamp, TimestampOnClose,
    TimestampValue,
};
use metrique_core::CloseValue;
use metrique_timesource::{TimeSource, fakes::ManuallyAdvancedTimeSource, set_time_source};
use metrique_writer_core::value::ValueFormatter;
use metrique_writer_core::{MetricFlags, Observation, Unit, ValidationError, Value, ValueWriter};
use serde_json::{Value as J, json};
use std::collections::HashMap;
use std::io::{BufRead, Write};
use std::time::{Duration, UNIX_EPOCH};
use vharness::util;

const NONE: i64 = -1;
const UNOBSERVABLE: i64 = -2;

struct Clock {
    ts: ManuallyAdvancedTimeSource,
    tick: Duration,
    w0: u64,
    now: u64,
}

impl Clock {
    fn new(tick_ns: u64, w0: u64) -> Self {
        let tick = Duration::from_nanos(tick_ns);
        let ts = ManuallyAdvancedTimeSource::at_time(UNIX_EPOCH + tick * (w0 as u32));
        Clock { ts, tick, w0, now: 0 }
    }
    fn source(&self) -> TimeSource {
        TimeSource::custom(self.ts.clone())
    }
    fn advance(&mut self, d: u64) {
        self.now += d;
        self.ts.update_instant(self.tick * (d as u32));
        self.ts.update_time(UNIX_EPOCH + self.tick * ((self.w0 + self.now) as u32));
    }
    /// duration -> ticks if it is a whole number of ticks, else the raw nanoseconds (negative, so
    /// that it can never equal an expected tick count)
    fn ticks(&self, d: Duration) -> i64 {
        let t = self.tick.as_nanos();
        if d.as_nanos() % t == 0 { (d.as_nanos() / t) as i64 } else { -(d.as_nanos() as i64) - 1000 }
    }
    fn opt_ticks(&self, d: Option<Duration>) -> i64 {
        d.map(|d| self.ticks(d)).unwrap_or(NONE)
    }
}

type Job = Box<dyn FnOnce() + Send + 'static>;
static OTHER_THREAD: std::sync::OnceLock<std::sync::mpsc::Sender<Job>> = std::sync::OnceLock::new();

/// Run `f` on the harness's second OS thread and wait for it (a thread per operation is far too slow
/// for 10^6 operations). The closure may borrow from the caller: the caller blocks until it has run.
fn on_other_thread<R: Send, F: FnOnce() -> R + Send>(f: F) -> R {
    let tx = OTHER_THREAD.get_or_init(|| {
        let (tx, rx) = std::sync::mpsc::channel::<Job>();
        std::thread::Builder::new()
            .name("tm-other".into())
            .spawn(move || {
                for job in rx {
                    job();
                }
            })
            .expect("tool: spawn");
        tx
    });
    let mut slot: Option<std::thread::Result<R>> = None;
    let (done_tx, done_rx) = std::sync::mpsc::channel::<()>();
    {
        let slot_ref = &mut slot;
        let job: Box<dyn FnOnce() + Send + '_> = Box::new(move || {
            *slot_ref = Some(std::panic::catch_unwind(std::panic::AssertUnwindSafe(f)));
            let _ = done_tx.send(());
        });
        // SAFETY: the job is executed and finished before this function returns (we block on
        // done_rx), so everything it borrows outlives its execution
        let job: Job = unsafe { std::mem::transmute::<Box<dyn FnOnce() + Send + '_>, Job>(job) };
        tx.send(job).expect("tool: other thread gone");
        done_rx.recv().expect("tool: other thread died");
    }
    match slot.expect("tool: job did not run") {
        Ok(r) => r,
        Err(p) => std::panic::resume_unwind(p),
    }
}

/// The two injected sources and the environment under which operations run (Stopwatch.tla: amb, thr).
struct Env {
    a: Clock,
    b: Clock,
    /// thread-local override for the following operations: 0 none, 1 source A, 2 source B
    amb: u8,
    /// run the following operations on another thread (which installs `amb` as its own override)
    other: bool,
}

impl Env {
    fn new(tick_ns: u64, w0: u64, w0b: u64) -> Self {
        Env { a: Clock::new(tick_ns, w0), b: Clock::new(tick_ns, w0b), amb: 1, other: false }
    }
    fn ambient_source(&self) -> Option<TimeSource> {
        match self.amb {
            1 => Some(self.a.source()),
            2 => Some(self.b.source()),
            _ => None,
        }
    }
    /// Run one operation of the code under test under the current ambient override / thread.
    fn under<R: Send, F: FnOnce() -> R + Send>(&self, f: F) -> R {
        let amb = self.ambient_source();
        let body = move || {
            let _guard = amb.map(set_time_source);
            f()
        };
        if self.other { on_other_thread(body) } else { body() }
    }
    fn set(&mut self, amb: u64, other: bool, st: &mut Stats) {
        self.amb = amb as u8;
        self.other = other;
        if other {
            st.hit("env_other_thread");
        }
        if amb == 2 {
            st.hit("env_override_b");
        }
        if amb == 0 {
            st.hit("env_no_override");
        }
    }
}

#[derive(Default)]
struct Stats {
    behaviours: u64,
    steps: u64,
    observations: u64,
    unobservable: u64,
    cases: HashMap<&'static str, u64>,
}
impl Stats {
    fn hit(&mut self, k: &'static str) {
        *self.cases.entry(k).or_default() += 1;
    }
}

struct Mismatch {
    step: usize,
    kind: &'static str,
    what: String,
    expected: J,
    got: J,
}

// ------------------------------------------------------------------------------------------
// stopwatch
// ------------------------------------------------------------------------------------------
struct SwRun<'s> {
    steps: &'s [J],
    pos: usize,
    env: Env,
    owned: Vec<Option<OwnedTimerGuard>>,
    mism: Vec<Mismatch>,
    /// model bookkeeping for the statistics only
    last_obs: i64,
    shared: bool,
}

/// payload of the panics the harness raises itself (silenced in the panic hook)
struct HarnessUnwind;

/// Leave the scope that owns `guard` by a panic and catch it: the guard's Drop runs during unwinding.
fn unwind_through<G>(guard: G) {
    let r = std::panic::catch_unwind(std::panic::AssertUnwindSafe(move || {
        let _in_scope = guard;
        std::panic::panic_any(HarnessUnwind);
    }));
    match r {
        Err(p) if p.is::<HarnessUnwind>() => {}
        Err(p) => std::panic::resume_unwind(p), // a panic of the code under test (e.g. in Drop): data
        Ok(()) => unreachable!(),
    }
}

fn silence_harness_panics() {
    let default = std::panic::take_hook();
    std::panic::set_hook(Box::new(move |info| {
        if !info.payload().is::<HarnessUnwind>() {
            default(info)
        }
    }));
}

enum GuardOp {
    Stop,
    Drop,
    /// the guard is dropped by a (caught) panic unwinding through its scope
    DropUnwind,
    Overwrite,
    Discard,
}

fn guard_op(op: &str) -> Option<GuardOp> {
    Some(match op {
        "Stop" => GuardOp::Stop,
        "Drop" => GuardOp::Drop,
        "DropUnwind" => GuardOp::DropUnwind,
        "Overwrite" => GuardOp::Overwrite,
        "Discard" => GuardOp::Discard,
        _ => return None,
    })
}

impl SwRun<'_> {
    fn check_ret(&mut self, i: usize, got: Option<Duration>) {
        let exp = self.steps[i][4].as_i64().unwrap();
        if let Some(d) = got {
            let t = self.env.a.ticks(d);
            if t != exp {
                self.mism.push(Mismatch {
                    step: i,
                    kind: "ret",
                    what: "duration returned by guard.stop()".into(),
                    expected: json!(exp),
                    got: json!(t),
                });
            }
        }
    }

    /// environment steps (no code under test involved); true if the step was one
    fn env_step(&mut self, s: &J, st: &mut Stats) -> bool {
        match s[0].as_str().unwrap() {
            "Advance" => self.env.a.advance(s[2].as_u64().unwrap()),
            "AdvanceB" => self.env.b.advance(s[2].as_u64().unwrap()),
            "Amb" => self.env.set(s[1].as_u64().unwrap(), s[2].as_u64().unwrap() == 1, st),
            _ => return false,
        }
        true
    }

    fn note_env(&self, st: &mut Stats) {
        if self.env.amb == 2 {
            st.hit("sw_op_under_override_b");
        }
        if self.env.other {
            st.hit("sw_op_on_other_thread");
        }
    }

    fn apply_owned(&mut self, i: usize, slot: usize, op: GuardOp, st: &mut Stats) {
        let g = self.owned[slot].take().unwrap_or_else(|| panic!("tool: no owned guard in slot {slot}"));
        self.note_env(st);
        match op {
            GuardOp::Stop => {
                let r = self.env.under(move || g.stop());
                self.check_ret(i, Some(r));
            }
            GuardOp::Drop => self.env.under(move || drop(g)),
            GuardOp::DropUnwind => {
                st.hit("owned_guard_dropped_by_unwinding");
                self.env.under(move || unwind_through(g))
            }
            GuardOp::Overwrite => {
                if self.last_obs >= 0 {
                    st.hit("overwrite_over_kept");
                }
                self.env.under(move || g.overwrite())
            }
            GuardOp::Discard => {
                if self.last_obs >= 0 {
                    st.hit("discard_with_kept");
                }
                self.env.under(move || g.discard())
            }
        }
    }

    /// The stopwatch is mutably borrowed by `g`: only guards may act. Returns when `g` is consumed
    /// (true) or the behaviour ends (false: `g` is dropped by scope).
    fn run_borrowed(&mut self, g: TimerGuard<'_>, gslot: usize, st: &mut Stats) -> bool {
        let mut g = Some(g);
        while self.pos < self.steps.len() {
            let i = self.pos;
            self.pos += 1;
            st.steps += 1;
            let s = &self.steps[i];
            let op = s[0].as_str().unwrap();
            let slot = s[1].as_u64().unwrap() as usize;
            if self.env_step(s, st) {
            } else if let Some(gop) = guard_op(op) {
                if slot == gslot {
                    let gg = g.take().unwrap();
                    self.note_env(st);
                    match gop {
                        GuardOp::Stop => {
                            let r = self.env.under(move || gg.stop());
                            self.check_ret(i, Some(r));
                        }
                        GuardOp::Drop => self.env.under(move || drop(gg)),
                        GuardOp::DropUnwind => {
                            st.hit("borrowed_guard_dropped_by_unwinding");
                            self.env.under(move || unwind_through(gg))
                        }
                        GuardOp::Overwrite => {
                            st.hit("borrowed_overwrite");
                            self.env.under(move || gg.overwrite())
                        }
                        GuardOp::Discard => self.env.under(move || gg.discard()),
                    }
                    return true; // the caller observes after this step
                } else {
                    st.hit("owned_acts_while_borrowed");
                    self.apply_owned(i, slot, gop, st);
                }
            } else {
                panic!("tool: behaviour step {op} while the stopwatch is borrowed");
            }
            // not observable: must agree with the model
            let exp = s[3].as_i64().unwrap();
            assert_eq!(exp, UNOBSERVABLE, "tool: model expects an observation while borrowed");
            st.unobservable += 1;
        }
        false
    }

    fn observe(&mut self, i: usize, sw: &Stopwatch, st: &mut Stats) {
        let exp = self.steps[i][3].as_i64().unwrap();
        assert_ne!(exp, UNOBSERVABLE, "tool: model says unobservable while the stopwatch is free");
        let got = self.env.a.opt_ticks(self.env.under(|| sw.close()));
        st.observations += 1;
        if got != exp {
            self.mism.push(Mismatch {
                step: i,
                kind: "close",
                what: "value reported by closing &Stopwatch".into(),
                expected: json!(exp),
                got: json!(got),
            });
        }
        self.last_obs = exp;
    }

    fn run(&mut self, sw: &mut Stopwatch, st: &mut Stats) {
        while self.pos < self.steps.len() {
            let i = self.pos;
            self.pos += 1;
            st.steps += 1;
            let s = &self.steps[i];
            let op = s[0].as_str().unwrap();
            let slot = s[1].as_u64().unwrap() as usize;
            if self.env_step(s, st) {
                self.observe(i, sw, st);
                continue;
            }
            match op {
                "Start" => {
                    if self.shared {
                        st.hit("borrowed_guard_on_shared_repr");
                    }
                    self.note_env(st);
                    let g = self.env.under(|| sw.start());
                    assert_eq!(s[3].as_i64().unwrap(), UNOBSERVABLE);
                    st.unobservable += 1;
                    if !self.run_borrowed(g, slot, st) {
                        return;
                    }
                    // the step that consumed the guard is self.pos - 1
                    let j = self.pos - 1;
                    self.observe(j, sw, st);
                    continue;
                }
                "StartOwned" => {
                    if !self.shared && self.last_obs >= 0 {
                        st.hit("switch_to_shared_with_kept");
                    }
                    self.shared = true;
                    self.note_env(st);
                    let g = self.env.under(|| sw.start_owned());
                    if self.owned.len() <= slot {
                        self.owned.resize_with(slot + 1, || None);
                    }
                    assert!(self.owned[slot].is_none(), "tool: slot {slot} occupied");
                    self.owned[slot] = Some(g);
                }
                "Clear" => {
                    if self.owned.iter().any(|g| g.is_some()) {
                        st.hit("clear_with_live_guards");
                    }
                    self.note_env(st);
                    self.env.under(|| sw.clear())
                }
                _ => {
                    let gop = guard_op(op).unwrap_or_else(|| panic!("tool: unknown op {op}"));
                    self.apply_owned(i, slot, gop, st);
                }
            }
            self.observe(i, sw, st);
        }
    }
}

fn replay_sw(id: u64, steps: &[J], tick_ns: u64, st: &mut Stats) -> Vec<Mismatch> {
    let env = Env::new(tick_ns, 5, 9_000_000);
    // the stopwatch captures source A: given explicitly, or resolved from the thread-local override
    let mut sw = if id % 2 == 0 {
        Stopwatch::new_from_timesource(env.a.source())
    } else {
        env.under(Stopwatch::new)
    };
    let mut run = SwRun { steps, pos: 0, env, owned: Vec::new(), mism: Vec::new(), last_obs: NONE, shared: false };
    // a freshly created stopwatch reports nothing
    if sw.close_ref_is_some() {
        run.mism.push(Mismatch {
            step: 0,
            kind: "close",
            what: "a new stopwatch reports a duration".into(),
            expected: json!(NONE),
            got: json!(0),
        });
    }
    run.run(&mut sw, st);
    // closing by value reports the same as closing the reference (only checkable when every
    // borrowed guard is gone, which `run` guarantees by scope)
    let last = steps.last().map(|s| s[3].as_i64().unwrap()).unwrap_or(NONE);
    if last != UNOBSERVABLE {
        let by_ref = run.env.under(|| (&sw).close());
        let by_val = run.env.under(move || sw.close());
        if by_ref != by_val {
            run.mism.push(Mismatch {
                step: steps.len().saturating_sub(1),
                kind: "close",
                what: "Stopwatch::close by value differs from &Stopwatch::close".into(),
                expected: json!(run.env.a.opt_ticks(by_ref)),
                got: json!(run.env.a.opt_ticks(by_val)),
            });
        }
    }
    run.mism
}

trait CloseRefIsSome {
    fn close_ref_is_some(&self) -> bool;
}
impl CloseRefIsSome for Stopwatch {
    fn close_ref_is_some(&self) -> bool {
        self.close().is_some()
    }
}

// ------------------------------------------------------------------------------------------
// timer, timestamps
// ------------------------------------------------------------------------------------------
#[derive(Default)]
struct Cap {
    string: Option<String>,
    other: Option<String>,
}
struct CapWriter<'a>(&'a mut Cap);
impl ValueWriter for CapWriter<'_> {
    fn string(self, value: &str) {
        self.0.string = Some(value.to_string());
    }
    fn metric<'a>(
        self,
        distribution: impl IntoIterator<Item = Observation>,
        unit: Unit,
        _dimensions: impl IntoIterator<Item = (&'a str, &'a str)>,
        _flags: MetricFlags<'_>,
    ) {
        self.0.other = Some(format!("metric {:?} {unit}", distribution.into_iter().collect::<Vec<_>>()));
    }
    fn error(self, error: ValidationError) {
        self.0.other = Some(format!("error {error}"));
    }
}

/// Is the rendered timestamp `s` the number `ns` nanoseconds * per_sec / 1e9 ?
fn rendered_ok(s: &str, ns: u128, per_sec: u64, integral: bool) -> bool {
    if integral {
        let Ok(v) = s.parse::<u128>() else { return false };
        let scaled = ns * per_sec as u128;
        let lo = scaled / 1_000_000_000;
        let hi = lo + if scaled % 1_000_000_000 == 0 { 0 } else { 1 };
        v == lo || v == hi
    } else {
        let Ok(v) = s.parse::<f64>() else { return false };
        let exact = ns as f64 * per_sec as f64 / 1e9;
        (v - exact).abs() <= exact.abs() * 1e-12 + 1e-9
    }
}

fn check_timestamp(
    tv: TimestampValue,
    exp_ticks: i64,
    units: &serde_json::Map<String, J>,
    clock: &Clock,
    step: usize,
    which: &'static str,
    mism: &mut Vec<Mismatch>,
    st: &mut Stats,
) {
    let exp_ns = exp_ticks as u128 * clock.tick.as_nanos();
    let got = tv.duration_since_epoch();
    st.observations += 1;
    if got.as_nanos() != exp_ns {
        mism.push(Mismatch {
            step,
            kind: "timestamp",
            what: format!("{which}: time since the epoch (ns)"),
            expected: json!(exp_ns as u64),
            got: json!(got.as_nanos() as u64),
        });
    }
    let st_back: std::time::SystemTime = tv.into();
    if st_back != UNIX_EPOCH + Duration::from_nanos(exp_ns as u64) {
        mism.push(Mismatch {
            step,
            kind: "timestamp",
            what: format!("{which}: conversion to SystemTime"),
            expected: json!(exp_ns as u64),
            got: json!(format!("{st_back:?}")),
        });
    }
    for (u, spec) in units {
        let per_sec = spec["perSec"].as_u64().unwrap();
        let integral = spec["integral"].as_bool().unwrap();
        let mut cap = Cap::default();
        match u.as_str() {
            "Second" => EpochSeconds::format_value(CapWriter(&mut cap), &tv),
            "Millisecond" => EpochMillis::format_value(CapWriter(&mut cap), &tv),
            "Microsecond" => EpochMicros::format_value(CapWriter(&mut cap), &tv),
            _ => panic!("tool: unknown unit {u}"),
        }
        st.observations += 1;
        let ok = cap.other.is_none() && cap.string.as_deref().is_some_and(|s| rendered_ok(s, exp_ns, per_sec, integral));
        if !ok {
            mism.push(Mismatch {
                step,
                kind: "format",
                what: format!("{which}: rendered in unit {u} (expected = ns * {per_sec} / 1e9)"),
                expected: json!(exp_ns as u64),
                got: json!(cap.string.or(cap.other)),
            });
        }
    }
    // the plain Value impl is documented to report milliseconds
    let mut cap = Cap::default();
    tv.write(CapWriter(&mut cap));
    let ms = &units["Millisecond"];
    let ok = cap.other.is_none()
        && cap
            .string
            .as_deref()
            .is_some_and(|s| rendered_ok(s, exp_ns, ms["perSec"].as_u64().unwrap(), ms["integral"].as_bool().unwrap()));
    if !ok {
        mism.push(Mismatch {
            step,
            kind: "format",
            what: format!("{which}: default rendering (milliseconds)"),
            expected: json!(exp_ns as u64),
            got: json!(cap.string.or(cap.other)),
        });
    }
}

fn replay_tm(_id: u64, b: &J, tick_ns: u64, st: &mut Stats) -> Vec<Mismatch> {
    let steps = b["steps"].as_array().unwrap();
    let units = b["units"].as_object().unwrap();
    let mut env = Env::new(tick_ns, b["w0"].as_u64().unwrap(), b["w0b"].as_u64().unwrap());
    let mut mism = Vec::new();
    let mut timer: Option<Timer> = None;
    let mut ts: Option<Timestamp> = None;
    let mut toc: Option<TimestampOnClose> = None;
    let mut toc_src = 0u8;
    let mut timer_src = 0u8;
    for (i, s) in steps.iter().enumerate() {
        st.steps += 1;
        let op = s["op"].as_str().unwrap();
        let ret = s["ret"].as_i64().unwrap();
        let explicit = s["a"].as_str() == Some("explicit");
        match op {
            "Advance" => env.a.advance(s["d"].as_u64().unwrap()),
            "AdvanceB" => env.b.advance(s["d"].as_u64().unwrap()),
            "Amb" => {
                let a = match s["a"].as_str().unwrap() {
                    "A" => 1,
                    "B" => 2,
                    _ => 0,
                };
                env.set(a, s["d"].as_u64().unwrap() == 1, st);
            }
            "TimerNew" => {
                // explicit source A (even under the override B), or resolved from the thread-local override
                let src = env.a.source();
                timer_src = if explicit { 1 } else { env.amb };
                if explicit && env.amb == 2 {
                    st.hit("explicit_source_under_other_override");
                }
                timer = Some(env.under(move || if explicit { Timer::start_now_with_timesource(src) } else { Timer::start_now() }));
            }
            "TimerStop" => {
                let t = timer.as_mut().unwrap();
                if s["timer"].as_i64() == steps.get(i.wrapping_sub(1)).and_then(|p| p["timer"].as_i64()) && i > 0 {
                    st.hit("timer_stop_repeated_or_immediate");
                }
                if env.amb != 0 && env.amb != timer_src {
                    st.hit("timer_op_under_different_override");
                }
                let r = env.a.ticks(env.under(|| t.stop()));
                if r != ret {
                    mism.push(Mismatch {
                        step: i,
                        kind: "ret",
                        what: "duration returned by Timer::stop".into(),
                        expected: json!(ret),
                        got: json!(r),
                    });
                }
            }
            "TsNew" => {
                let src = env.a.source();
                if explicit && env.amb == 2 {
                    st.hit("explicit_source_under_other_override");
                }
                ts = Some(env.under(move || if explicit { Timestamp::new_from_time_source(src) } else { Timestamp::now() }));
            }
            "TocNew" => {
                toc_src = env.amb;
                toc = Some(env.under(TimestampOnClose::default));
            }
            "TocClose" => {
                let t = toc.take().unwrap();
                st.hit("toc_close");
                if env.amb != 0 && env.amb != toc_src {
                    st.hit("toc_closed_under_different_override");
                    if env.other {
                        st.hit("toc_closed_on_other_thread_with_different_override");
                    }
                }
                let tv = env.under(move || t.close());
                check_timestamp(tv, ret, units, &env.a, i, "TimestampOnClose", &mut mism, st);
            }
            _ => panic!("tool: unknown op {op}"),
        }
        let exp_timer = s["timer"].as_i64().unwrap();
        if let Some(t) = &timer {
            let got = env.a.ticks(env.under(|| t.close()));
            st.observations += 1;
            if got != exp_timer {
                mism.push(Mismatch {
                    step: i,
                    kind: "close",
                    what: "value reported by closing &Timer".into(),
                    expected: json!(exp_timer),
                    got: json!(got),
                });
            }
        } else {
            assert_eq!(exp_timer, UNOBSERVABLE);
        }
        let exp_ts = s["ts"].as_i64().unwrap();
        if let Some(t) = &ts {
            let tv = env.under(|| t.close());
            check_timestamp(tv, exp_ts, units, &env.a, i, "Timestamp", &mut mism, st);
        } else {
            assert_eq!(exp_ts, NONE);
        }
    }
    // closing by value
    if let Some(t) = timer {
        let by_ref = env.under(|| (&t).close());
        let by_val = env.under(move || t.close());
        if by_ref != by_val {
            mism.push(Mismatch {
                step: steps.len() - 1,
                kind: "close",
                what: "Timer::close by value differs from &Timer::close".into(),
                expected: json!(env.a.ticks(by_ref)),
                got: json!(env.a.ticks(by_val)),
            });
        }
    }
    mism
}

// ------------------------------------------------------------------------------------------
// conc: owned guards completed concurrently on several threads (StopwatchConcTrace.tla)
// ------------------------------------------------------------------------------------------
#[derive(Clone, Copy)]
enum Fin {
    Drop,
    Stop,
    Discard,
    Unwind,
}

/// One round: the creating thread starts groups of owned guards (group = guards for one thread
/// started at the same clock value), advances the clock, then all threads complete their guards at
/// the same moment; after the join the stopwatch is closed. Two phases per round, sometimes with a
/// clear in between. Events go to the global trace log.
fn conc_round(round: u64, seed: u64, threads: usize, guards: usize, tick_ns: u64) -> J {
    use rand::Rng;
    use vharness::trace;
    let mut r = util::rng(seed);
    let mut clock = Clock::new(tick_ns, 5);
    let mut sw = Stopwatch::new_from_timesource(clock.source());
    trace::ev(json!({"ev": "Reset", "round": round}));
    let mut gid = 0u64;
    let mut completed = 0u64;
    // total before the current phase (only used to choose which observations are logged in detail;
    // the trace specification recomputes it)
    let mut base_total = 0i64;
    let mut base_any = false;
    let mut closes_during = 0u64;
    let mut panicked = false;
    for _phase in 0..2 {
        // start the guards: per thread `guards` of them, in up to 3 groups with clock advances in between
        // (group, guard, how it is completed, clock tick at which it was started)
        let mut per_thread: Vec<Vec<(u64, OwnedTimerGuard, Fin, u64)>> = (0..threads).map(|_| Vec::new()).collect();
        let mut group_sizes: Vec<(u64, usize, usize)> = Vec::new(); // (group, thread, n)
        let ngroups = r.random_range(1..=3usize);
        for gi in 0..ngroups {
            for (t, mine) in per_thread.iter_mut().enumerate() {
                let n = if gi + 1 == ngroups { guards - mine.len() } else { r.random_range(0..=(guards - mine.len())) };
                if n == 0 {
                    continue;
                }
                gid += 1;
                for _ in 0..n {
                    let fin = match r.random_range(0..10) {
                        0 => Fin::Discard,
                        1 | 2 => Fin::Stop,
                        3 => Fin::Unwind,
                        _ => Fin::Drop,
                    };
                    mine.push((gid, sw.start_owned(), fin, clock.now));
                }
                trace::ev(json!({"ev": "Start", "g": gid, "t": t, "n": n}));
                group_sizes.push((gid, t, n));
            }
            let d = r.random_range(0..=2u64);
            if d > 0 || gi + 1 == ngroups {
                let d = d.max(1);
                clock.advance(d);
                trace::ev(json!({"ev": "Advance", "d": d}));
            }
        }
        // complete all guards at the same moment on `threads` threads; nothing is logged while they
        // run (the log's mutex would pace them)
        let barrier = std::sync::Barrier::new(threads + 1);
        // span ticks of the kept completions that have been started / have returned so far
        let started_sum = std::sync::atomic::AtomicU64::new(0);
        let done_sum = std::sync::atomic::AtomicU64::new(0);
        let threads_done = std::sync::atomic::AtomicUsize::new(0);
        let now_tick = clock.now;
        let mut samples: Vec<(u64, i64, u64)> = Vec::new(); // closes observed while the completers run: (lo, value, hi)
        let mut offending: Option<(u64, i64, u64)> = None;
        let mut nsamples = 0u64;
        let results: Vec<Result<Vec<(u64, u64, u64, u64)>, String>> = std::thread::scope(|s| {
            let hs: Vec<_> = per_thread
                .into_iter()
                .map(|mine| {
                    let (barrier, started_sum, done_sum, threads_done) = (&barrier, &started_sum, &done_sum, &threads_done);
                    s.spawn(move || {
                        barrier.wait();
                        let r = util::catch(move || {
                            let mut per_group: Vec<(u64, u64, u64, u64)> = Vec::new(); // (group, kept, discarded, unwound)
                            use std::sync::atomic::Ordering::SeqCst;
                            for (g, guard, fin, start_tick) in mine {
                                let span = now_tick - start_tick;
                                if !matches!(fin, Fin::Discard) {
                                    started_sum.fetch_add(span, SeqCst);
                                }
                                if per_group.last().map(|x| x.0) != Some(g) {
                                    per_group.push((g, 0, 0, 0));
                                }
                                let e = per_group.last_mut().unwrap();
                                match fin {
                                    Fin::Drop => {
                                        drop(guard);
                                        e.1 += 1
                                    }
                                    Fin::Stop => {
                                        let _ = guard.stop();
                                        e.1 += 1
                                    }
                                    Fin::Discard => {
                                        guard.discard();
                                        e.2 += 1
                                    }
                                    Fin::Unwind => {
                                        unwind_through(guard);
                                        e.3 += 1
                                    }
                                }
                                if !matches!(fin, Fin::Discard) {
                                    done_sum.fetch_add(span, SeqCst);
                                }
                            }
                            per_group
                        });
                        threads_done.fetch_add(1, std::sync::atomic::Ordering::SeqCst);
                        r
                    })
                })
                .collect();
            // meanwhile this thread closes the stopwatch by reference, again and again: every value must
            // lie between what had been completed before the close started and what had been started
            // before it returned (relative to the total before this phase, which the trace spec knows)
            {
                use std::sync::atomic::Ordering::SeqCst;
                let swr: &Stopwatch = &sw;
                barrier.wait();
                while threads_done.load(SeqCst) < threads {
                    let lo = done_sum.load(SeqCst);
                    let v = match util::catch(|| swr.close()) {
                        Ok(v) => clock.opt_ticks(v),
                        Err(_) => -3,
                    };
                    let hi = started_sum.load(SeqCst);
                    nsamples += 1;
                    let base = base_total;
                    let ok = if v < 0 { v == -1 && !base_any && lo == 0 } else { base + lo as i64 <= v && v <= base + hi as i64 };
                    if !ok && offending.is_none() {
                        offending = Some((lo, v, hi));
                    } else if samples.len() < 3 && nsamples % 7 == 1 {
                        samples.push((lo, v, hi));
                    }
                }
            }
            hs.into_iter().map(|h| h.join().expect("tool: join")).collect()
        });
        closes_during += nsamples;
        if let Some(o) = offending {
            samples.insert(0, o);
        }
        for (lo, v, hi) in &samples {
            trace::ev(json!({"ev": "CloseDuring", "lo": lo, "total": v, "hi": hi}));
        }
        for (t, res) in results.into_iter().enumerate() {
            match res {
                Ok(per_group) => {
                    for (g, kept, discarded, unwound) in per_group {
                        completed += kept + discarded + unwound;
                        trace::ev(json!({"ev": "Done", "g": g, "t": t, "kept": kept, "unwound": unwound, "discarded": discarded}));
                    }
                }
                // a panic while completing a guard is data: the groups stay open and Close is rejected
                Err(p) => {
                    panicked = true;
                    trace::ev(json!({"ev": "Panic", "t": t, "what": p}));
                }
            }
        }
        let total = match util::catch(|| (&sw).close()) {
            Ok(v) => clock.opt_ticks(v),
            Err(_) => {
                panicked = true;
                -3
            }
        };
        trace::ev(json!({"ev": "Close", "total": total}));
        base_total = total.max(0);
        base_any = total >= 0;
        if r.random_bool(0.3) {
            sw.clear();
            trace::ev(json!({"ev": "Clear"}));
            base_total = 0;
            base_any = false;
        }
    }
    json!({"round": round, "seed": seed, "threads": threads, "guards_per_thread": guards, "completed": completed, "closes_while_completing": closes_during, "panicked": panicked})
}

fn cmd_conc(a: &HashMap<String, String>) {
    use vharness::trace;
    let rounds = util::arg_u64(a, "rounds", 50);
    let threads = util::arg_u64(a, "threads", 4) as usize;
    let guards = util::arg_u64(a, "guards", 200) as usize;
    let seed = util::arg_u64(a, "seed", 1);
    let tick_ns = util::arg_u64(a, "tick-ns", 1_000_000);
    let mut out = std::io::BufWriter::new(std::fs::File::create(util::arg_str(a, "out", "")).expect("create out"));
    let mut meta = std::io::BufWriter::new(std::fs::File::create(util::arg_str(a, "meta", "")).expect("create meta"));
    let _ = trace::take();
    let mut line = 0usize;
    for round in 1..=rounds {
        let mut m = conc_round(round, seed.wrapping_mul(1_000_003).wrapping_add(round), threads, guards, tick_ns);
        let events = trace::take();
        trace::append_ndjson(&mut out, &events).unwrap();
        m["id"] = json!(round);
        m["first_line"] = json!(line + 1);
        m["last_line"] = json!(line + events.len());
        m["events"] = json!(events.len());
        line += events.len();
        serde_json::to_writer(&mut meta, &m).unwrap();
        meta.write_all(b"\n").unwrap();
    }
    out.flush().unwrap();
    meta.flush().unwrap();
}

fn main() {
    let (cmd, a) = util::args();
    silence_harness_panics();
    if cmd == "conc" {
        return cmd_conc(&a);
    }
    let tick_ns = util::arg_u64(&a, "tick-ns", 1_000_000);
    let inp = std::io::BufReader::new(std::fs::File::open(util::arg_str(&a, "behaviours", "")).expect("open behaviours"));
    let mut out = std::io::BufWriter::new(std::fs::File::create(util::arg_str(&a, "out", "")).expect("create out"));
    let mut st = Stats::default();
    let mut bad = 0u64;
    for (id, line) in inp.lines().enumerate() {
        let line = line.unwrap();
        if line.trim().is_empty() {
            continue;
        }
        let b: J = serde_json::from_str(&line).unwrap_or_else(|e| panic!("bad behaviour line {id}: {e}"));
        let id = id as u64;
        st.behaviours += 1;
        let res = util::catch(|| match cmd.as_str() {
            "sw" => replay_sw(id, b.as_array().expect("array of steps"), tick_ns, &mut st),
            "tm" => replay_tm(id, &b, tick_ns, &mut st),
            _ => {
                eprintln!("usage: tm sw|tm --behaviours f --out f --tick-ns n");
                std::process::exit(2);
            }
        });
        let mism = match res {
            Ok(m) => m,
            Err(p) if p.starts_with("tool:") || p.contains("tool:") || p.contains("assertion") => {
                eprintln!("tool error in behaviour {id}: {p}");
                std::process::exit(2);
            }
            Err(p) => vec![Mismatch { step: 0, kind: "panic", what: format!("panic: {p}"), expected: J::Null, got: J::Null }],
        };
        if !mism.is_empty() {
            bad += 1;
            if bad <= 200 {
                let ms: Vec<J> = mism
                    .iter()
                    .map(|m| json!({"step": m.step, "kind": m.kind, "what": m.what, "expected": m.expected, "got": m.got}))
                    .collect();
                serde_json::to_writer(&mut out, &json!({"id": id, "mismatches": ms, "tick_ns": tick_ns})).unwrap();
                out.write_all(b"\n").unwrap();
            }
        }
    }
    let cases: serde_json::Map<String, J> = st.cases.iter().map(|(k, v)| (k.to_string(), json!(v))).collect();
    serde_json::to_writer(
        &mut out,
        &json!({"summary": true, "behaviours": st.behaviours, "bad": bad, "steps": st.steps,
                "observations": st.observations, "unobservable": st.unobservable, "cases": cases}),
    )
    .unwrap();
    out.write_all(b"\n").unwrap();
    out.flush().unwrap();
}
