CONSTANTS
  Cap = 2
  K = 2
  Reqs = {1, 2}
  MaxCalls = 6
  Counts = {1, 2}
  Depth = 5
  DrainedOK = TRUE
  OwedVals = {2}
SPECIFICATION RSpec
INVARIANT Emit
INVARIANT WInv
CONSTRAINT Bound
CHECK_DEADLOCK FALSE
