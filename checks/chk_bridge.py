"""C20 - the metrics.rs bridge reports every counter increment and sample exactly once.

spec/bridge/BridgeObs.tla      property layer in trace form (interval rules over observable call
                               starts/ends and readouts; last-writer-wins registers for gauges and units)
spec/bridge/MetricsBridge.tla  implementation-shaped model (atomic cells, one RMW per update, readout =
                               one swap/load per cell); TLC: every interleaving satisfies conservation and
                               is accepted by the property layer; broken readers are rejected
spec/bridge/MetricsBridgeTrace.tla  T: traces recorded from the real bridge (2-8 updater threads through
                               the metrics macros, a reader thread calling readout() in a loop, a final
                               readout) validated by TLC against the property layer
spec/bridge/Reporter.tla       the publishing task of MetricReporter (periodic publish, final publish at shutdown);
                               R: every update/tick/shutdown history replayed into a real MetricReporter with a
                               recording sink; everything published must add up to TLC's expectation
spec/bridge/BridgeNaming.tla   R: describe / first use / readout orders; expected readout items from TLC
"""
import json, os, sys
sys.path.insert(0, os.path.join(os.path.dirname(os.path.abspath(__file__)), "..", "lib"))
import vlib
from vlib import log

SPECD = os.path.join(vlib.SPEC, "bridge")
os.environ["DIAG"] = "1"     # MetricsBridgeTrace.tla: keep the reasons of a rejected readout (register 2)
MB_ACTIONS = ["UCall", "UApply", "URet", "RStart", "RCellAtomic", "REnd"]


# --------------------------------------------------------------------------------------------
# model checking
# --------------------------------------------------------------------------------------------
def model_checks(chk, tier):
    cfgs = ["MC_mb_quick.cfg", "MC_mb_3u.cfg"] if tier == "quick" else ["MC_mb_quick.cfg", "MC_mb_3u.cfg", "MC_mb_2r.cfg", "MC_mb.cfg"]
    for cfg in cfgs:
        r = vlib.model_check(SPECD, "MetricsBridge", cfg, timeout=7200, heap="16g" if tier == "thorough" else "6g")
        missing = [a for a in MB_ACTIONS if r.coverage.get(a, 0) == 0]
        if missing:
            raise vlib.ToolError(f"MetricsBridge/{cfg}: actions never taken: {missing}")
        chk.add_model("MetricsBridge/" + cfg, r)
    # the property layer must reject the broken readers (otherwise it is too weak to mean anything)
    for cfg, what in [("MC_mb_neg_loadstore.cfg", "load then store(0)"), ("MC_mb_neg_snapshot.cfg", "snapshot then clear")]:
        r = vlib.tlc(SPECD, "MetricsBridge", cfg, timeout=600)
        if not r.invariant_violated:
            sys.stdout.write(r.out[-2000:])
            raise vlib.ToolError(f"the property layer accepts the broken reader '{what}' ({cfg})")
        log(f"[tlc] MetricsBridge/{cfg}: broken reader '{what}' rejected ({r.invariant_violated[0]}) after {r.generated} states")
        chk.extra.setdefault("negative_models_rejected", []).append({"reader": what, "invariant": r.invariant_violated[0],
                                                                     "states_generated": r.generated})


# --------------------------------------------------------------------------------------------
# R: naming / labels / units, sequential
# --------------------------------------------------------------------------------------------
# concretisation of BridgeNaming's value symbols, as (value in units, unit) like the trace's classes
SYM_CLASSES = {"v100": (100, 1), "v1e6": (1_000_000, 1), "v2e31": (2_147_483_648 // 1024, 1024), "vmax": (4_294_967_295 // 1024, 1024)}


def near(m, c):
    return m >= 0 and abs(m - c) <= c // 16


def bucket_class(o, classes=SYM_CLASSES):
    """class of a reported bucket [lo, hi, lok, hik, occ] (mean within 1/16 of the class value), else None"""
    lo, hi, lok, hik, _ = o
    for name, (c, u) in classes.items():
        if (near(lo, c) and near(hi, c)) if u == 1 else (near(lok, c) and near(hik, c)):
            return name
    return None


def canon_expected(it):
    v = it["v"]
    if it["kind"] == "h":
        v = tuple(sorted((c, n) for c, n in v))
    return (it["kind"], it["name"], tuple(sorted(tuple(p) for p in it["dims"])), it["unit"], v)


def canon_real(it):
    v = it["v"]
    ok = True
    if it["kind"] == "h":
        per = {}
        for o in it["obs"]:
            if o[4] == 0:
                continue
            c = bucket_class(o)
            if c is None:
                ok = False     # the bucket's mean is not within 1/16 of any recorded value
                c = f"?mean~{o[0] if o[0] >= 0 else str(o[2]) + '*1024'}"
            per[c] = per.get(c, 0) + o[4]
        v = tuple(sorted(per.items()))
    return (it["kind"], it["name"], tuple(sorted(tuple(p) for p in it["dims"])), it["unit"], v), ok


def run_naming(chk, tier, only=None, cfgs=None, release=False, tag="naming"):
    cfgs = cfgs or (["MC_naming_quick.cfg", "MC_naming_quick_z.cfg", "MC_naming_bighist.cfg", "MC_naming_gauge.cfg"] if tier == "quick"
                    else ["MC_naming.cfg", "MC_naming_z.cfg", "MC_naming_bighist.cfg", "MC_naming_gauge.cfg"])
    beh = []
    if only is not None:
        beh = [only]
    else:
        for cfg in cfgs:
            r = vlib.tlc(SPECD, "BridgeNaming", cfg, timeout=3600)
            if r.errors or r.invariant_violated:
                sys.stdout.write(r.out[-3000:])
                raise vlib.ToolError(f"BridgeNaming/{cfg} failed: {r.errors[:2]}")
            pre = '<<"REPLAY", '
            got = [json.loads(json.loads(l[len(pre):-2])) for l in r.out.splitlines() if l.startswith(pre)]
            if not got:
                raise vlib.ToolError(f"BridgeNaming/{cfg} produced no behaviours")
            log(f"[tlc] BridgeNaming/{cfg}: {len(got)} behaviours in {r.wall:.1f}s")
            beh += got
    bp = os.path.join(chk.dir, f"{tag}-beh.ndjson")
    op = os.path.join(chk.dir, f"{tag}-out.ndjson")
    vlib.write_ndjson(bp, beh)
    vlib.run_bin("mb", ["seq", "--behaviours", bp, "--out", op], timeout=1800, release=release)
    outs = vlib.read_ndjson(op)
    assert len(outs) == len(beh)
    bad = 0
    after_desc = 0
    crossing = 0
    gauge_zero = 0
    for b, o in zip(beh, outs):
        # statistics: a readout after a gauge went back to 0 (set(0.0), set(-0.0), decrement to 0)
        if any(st[0] == "Touch" and len(st) == 4 and st[3] in ("set0", "setneg0", "dec0") for st in b["steps"]):
            gauge_zero += 1
        # statistics: a readout window in which value x count of one histogram class reaches 2^32
        if any(st[0] == "Touch" and len(st) > 4 and st[4] * {"v100": 100, "v1e6": 10**6, "v2e31": 2**31}.get(st[3], 2**32 - 1) >= 2**32
               for st in b["steps"]):
            crossing += 1
        exp = [st[1] for st in b["steps"] if st[0] == "Readout"]
        viol = None
        if o.get("panic"):
            viol = f"panic: {o['panic']}"
        elif o.get("nested"):
            viol = f"readout {o['nested'][0]['readout']}: {o['nested'][0]['what'][:600]}"
        elif len(exp) != len(o["readouts"]):
            viol = f"{len(o['readouts'])} readouts instead of {len(exp)}"
        else:
            for n, (e, g) in enumerate(zip(exp, o["readouts"])):
                es = sorted(canon_expected(it) for it in e)
                gs, oks = [], True
                for it in g:
                    c, ok = canon_real(it)
                    gs.append(c)
                    oks = oks and ok
                gs.sort()
                if es != gs or not oks:
                    missing = [x for x in es if x not in gs]
                    extra = [x for x in gs if x not in es]
                    viol = (f"readout {n + 1}: the specification expects items (kind, name, dimensions, unit, value; histograms: "
                            f"samples per recorded value, each bucket's total/occurrences within 1/16 of it) "
                            f"{missing} but the entry wrote {extra}" if (missing or extra) else
                            f"readout {n + 1}: histogram value outside its bucket error: {g}")
                    break
        # statistics: describe after the first use of the name
        seen = set()
        for st in b["steps"]:
            if st[0] == "Touch":
                seen.add(b["keys"][st[1] - 1]["name"])
            elif st[0] == "Describe" and st[1] in seen:
                after_desc += 1
                break
        chk.evaluations += 1
        if viol:
            bad += 1
            ops = " ".join(f"{st[0]}({','.join(str(x) for x in (st[1:] if len(st) < 5 else [st[1]] + st[3:]))})"
                           if st[0] != "Readout" else "Readout" for st in b["steps"])
            chk.violation(f"naming/units/values{' (release build)' if release else ''}: after {ops} (emit_zero={b['emit_zero']}): {viol}",
                          {"kind": "naming", "behaviour": b, "observed": o, "release": release}, key="C20:naming")
    chk.traces += len(beh) - bad
    chk.extra[tag + "_behaviours"] = len(beh)
    chk.extra[tag + "_behaviours_describe_after_use"] = after_desc
    chk.extra[tag + "_behaviours_value_x_count_over_2^32"] = crossing
    chk.extra[tag + "_behaviours_gauge_back_to_zero"] = gauge_zero
    if only is None and "MC_naming_gauge.cfg" in cfgs and not gauge_zero:
        raise vlib.ToolError("no history sets a gauge back to zero (vacuous)")
    if only is None and "MC_naming_bighist.cfg" in cfgs and not crossing:
        raise vlib.ToolError("no history records enough large histogram samples for value x count to reach 2^32 (vacuous)")
    chk.nontrivial.update(f"{tag}:{i}" for i in range(len(beh)))
    if beh:
        chk.sample({"naming_behaviour": beh[len(beh) // 3]})
    return bad


# --------------------------------------------------------------------------------------------
# R: the publishing task (MetricReporter): what reaches the destination
# --------------------------------------------------------------------------------------------
REP_ACTIONS = ["Inc", "Rec", "Tick", "Shutdown"]


def reporter_models(chk):
    for cfg in ["MC_rep.cfg", "MC_rep_z.cfg"]:
        r = vlib.model_check(SPECD, "Reporter", cfg, timeout=1800)
        missing = [a for a in REP_ACTIONS if r.coverage.get(a, 0) == 0]
        if missing:
            raise vlib.ToolError(f"Reporter/{cfg}: actions never taken: {missing}")
        chk.add_model("Reporter/" + cfg, r)
    r = vlib.tlc(SPECD, "Reporter", "MC_rep_neg.cfg", timeout=600)
    if not r.invariant_violated:
        raise vlib.ToolError("the property layer accepts a reporter that drops its final readout (MC_rep_neg.cfg)")
    log(f"[tlc] Reporter/MC_rep_neg.cfg: reporter that appends the final readout only if a counter moved: rejected "
        f"({r.invariant_violated[0]}) after {r.generated} states")
    chk.extra.setdefault("negative_models_rejected", []).append(
        {"reporter": "final readout appended only if it lists a counter", "invariant": r.invariant_violated[0],
         "states_generated": r.generated})


def as_map(x):
    return x if isinstance(x, dict) else {}


def run_reporter(chk, tier, only=None):
    depth = 6 if tier == "quick" else 7
    if only is not None:
        beh = [only]
    else:
        beh = []
        for z in ("FALSE", "TRUE"):
            cfg = f"MC_rep_replay_d{depth}_{z}.cfg"
            r = vlib.tlc(SPECD, "ReporterReplay", cfg, timeout=1800)
            if r.errors or r.invariant_violated:
                sys.stdout.write(r.out[-3000:])
                raise vlib.ToolError(f"ReporterReplay/{cfg} failed: {r.errors[:2]}")
            pre = '<<"REPLAY", '
            got = [json.loads(json.loads(l[len(pre):-2])) for l in r.out.splitlines() if l.startswith(pre)]
            if not got:
                raise vlib.ToolError(f"ReporterReplay/{cfg} produced no behaviours")
            log(f"[tlc] ReporterReplay/{cfg}: {len(got)} behaviours in {r.wall:.1f}s")
            beh += got
    bp = os.path.join(chk.dir, "reporter-beh.ndjson")
    op = os.path.join(chk.dir, "reporter-out.ndjson")
    vlib.write_ndjson(bp, beh)
    vlib.run_bin("mb", ["rep", "--behaviours", bp, "--out", op, "--threads", 8, "--interval-ms", 6], timeout=3600)
    outs = vlib.read_ndjson(op)
    assert len(outs) == len(beh)
    bad = 0
    st = {"entries_published": 0, "extra_idle_publishes": 0, "quiet_final_windows": 0, "handle_released_before_last_publish": 0,
          "appended_after_shutdown": 0}
    for b, o in zip(beh, outs):
        steps = b["steps"]
        # vacuity statistics: last window (after the last Tick) with gauge/histogram activity but no counter activity
        last_tick = max([i for i, s in enumerate(steps) if s[0] == "Tick"] + [-1])
        win = [s[0] for s in steps[last_tick + 1:-1]]
        if win and "Inc" not in win:
            st["quiet_final_windows"] += 1
        viol = None
        if o.get("problem"):
            viol = o["problem"]
        cumC, cumH, lastG = {}, {}, {}
        got_steps = {x["step"]: x["entries"] for x in o["steps"]}
        npub = 0
        for i, s in enumerate(steps):
            if viol or s[0] not in ("Tick", "Shutdown"):
                continue
            exp = s[1]
            entries = got_steps.get(i, [])
            st["entries_published"] += len(entries)
            npub += len(entries)
            for e in entries:
                listed = set()
                for it in e:
                    k = it["key"]
                    listed.add(k)
                    if k == "?":
                        viol = f"step {i} ({s[0]}): published item kind={it['kind']} name={it['name']} dims={it['dims']} is no registered key"
                    elif it["kind"] == "c":
                        cumC[k] = cumC.get(k, 0) + it["v"]
                    elif it["kind"] == "g":
                        lastG[k] = it["v"]
                    else:
                        for ob in it["obs"]:
                            if ob[4] and bucket_class(ob) != "v100":
                                viol = f"step {i}: histogram bucket with mean {ob[0]}..{ob[1]} is not within 1/16 of the recorded 100"
                            cumH[k] = cumH.get(k, 0) + ob[4]
                missing = [k for k in exp["listed"] if k not in listed]
                if missing and not viol:
                    viol = f"step {i} ({s[0]}): a published readout does not list {missing} (emit_zero={b['emit_zero']})"
            if viol:
                break
            ec = {k: v for k, v in as_map(exp["cumC"]).items()}
            eh = {k: v for k, v in as_map(exp["cumH"]).items()}
            eg = as_map(exp["lastG"])
            gc = {k: cumC.get(k, 0) for k in ec}
            gh = {k: cumH.get(k, 0) for k in eh}
            if gc != ec or gh != eh or lastG != eg:
                viol = (f"after step {i} ({s[0]}) everything published so far must add up to counters {ec}, histogram samples {eh}, "
                        f"last gauge values {eg}; the destination received counters {gc}, samples {gh}, gauges {lastG} "
                        f"({npub} entries)")
                break
            if npub < exp["npub"] and len(chk.drift) < 20:
                chk.drift.append({"source": "reporter", "behaviour": o["id"], "step": i,
                                  "what": f"{npub} entries published, the model publishes {exp['npub']} (nothing was lost)"})
            if npub > exp["npub"]:
                st["extra_idle_publishes"] += npub - exp["npub"]
                exp_extra = npub - exp["npub"]
        if o.get("appended_after_handle_drop"):
            st["handle_released_before_last_publish"] += 1
        if o.get("appended_after_shutdown"):
            st["appended_after_shutdown"] += 1
        chk.evaluations += 1
        if viol:
            bad += 1
            ops = " ".join(f"{s[0]}({s[1]},{s[2]})" if s[0] in ("Inc", "Set", "Rec") else s[0] for s in steps)
            chk.violation(f"reporter: history {ops} (emit_zero={b['emit_zero']}): {viol}",
                          {"kind": "reporter", "behaviour": b, "observed": o}, key="C20:reporter")
    chk.traces += len(beh) - bad
    chk.nontrivial.update(f"reporter:{i}" for i in range(len(beh)))
    ex = chk.extra.setdefault("reporter", {})
    ex["behaviours"] = ex.get("behaviours", 0) + len(beh)
    for k, v in st.items():
        ex[k] = ex.get(k, 0) + v
    if st["handle_released_before_last_publish"] and len(chk.drift) < 20:
        chk.drift.append({"source": "reporter", "what": "the shutdown handle passed to metrics_sink((sink, handle)) is released "
                          "before the reporter publishes (in the model: after the final publish); not part of C20's statement",
                          "behaviours": st["handle_released_before_last_publish"]})
    if st["appended_after_shutdown"] and len(chk.drift) < 20:
        chk.drift.append({"source": "reporter", "what": "entries appended after shutdown() had returned",
                          "behaviours": st["appended_after_shutdown"]})
    if only is None and not st["quiet_final_windows"]:
        raise vlib.ToolError("no reporter history ends with a window of gauge/histogram-only activity (vacuous)")
    if beh:
        chk.sample({"reporter_history": beh[len(beh) // 2]})
    return bad


# --------------------------------------------------------------------------------------------
# T: recorded concurrent runs
# --------------------------------------------------------------------------------------------
def fn_items(x):
    """TLC prints a function with domain 1..n as a tuple, others as (k :> v @@ ...)."""
    if isinstance(x, list):
        return [(i + 1, v) for i, v in enumerate(x)]
    if isinstance(x, dict) and "__fn__" in x:
        return [(k if not isinstance(k, list) else tuple(k), v) for k, v in x["__fn__"]]
    return []


def setof(x):
    return x.get("__set__", []) if isinstance(x, dict) else (x or [])


def explain(v, keys, classes=None):
    """Human-readable reason from the diagnostics TLC stored for the rejected line (the verdict itself
    is TLC's: the line could not be consumed)."""
    ev = v.event if isinstance(v.event, dict) else {}
    st = v.state
    if ev.get("ev") != "ReadoutEnd" or not isinstance(st, list) or len(st) < 4:
        return f"event {json.dumps(ev)[:300]} is not allowed by the specification here"
    fails = sorted(setof(st[0]))
    msgs = []

    def cval(ci):
        try:
            c, u = classes[ci - 1]
            return str(c * u)
        except Exception:
            return f"class {ci}"

    def kname(i):
        k = keys[i - 1]
        return k["name"] + "{" + ",".join(f"{a}={b}" for a, b in k["labels"]) + "}"

    if "counters" in fails:
        c = {n: dict(fn_items(st[1][n])) for n in ("lo", "cum", "delta", "started")}
        for k in c["cum"]:
            tot = c["cum"][k] + c["delta"][k]
            if tot < c["lo"][k]:
                msgs.append(f"counter {kname(k)}: increments worth {c['lo'][k]} had returned before this readout started, but all "
                            f"readouts so far report only {tot} (this one {c['delta'][k]}): increments lost")
            elif tot > c["started"][k]:
                msgs.append(f"counter {kname(k)}: readouts report {tot} in total (this one {c['delta'][k]}) but only "
                            f"{c['started'][k]} was ever incremented: increments reported more than once")
    if "histograms" in fails:
        h = {n: dict(fn_items(st[2][n])) for n in ("lo", "cum", "delta", "started")}
        for k in h["cum"]:
            tot = h["cum"][k] + h["delta"][k]
            if tot < h["lo"][k]:
                msgs.append(f"histogram {kname(k[0])} value~{cval(k[1])}: {h['lo'][k]} samples had been recorded before this readout "
                            f"started, readouts report only {tot}: samples lost")
            elif tot > h["started"][k]:
                msgs.append(f"histogram {kname(k[0])} value~{cval(k[1])}: readouts report {tot} samples, only {h['started'][k]} were "
                            f"recorded: samples reported more than once")
    if "gauges" in fails or "units" in fails:
        win = dict(fn_items(st[3]["window"]))
        for r, val in (tuple(x) for x in setof(st[3]["reported"])):
            if val not in setof(win.get(r, {})):
                what = f"gauge {kname(int(r[1:]))}" if r.startswith("g") else f"unit of {r[2:]}"
                msgs.append(f"{what}: reported {val}, but the values it could hold during this readout are {setof(win.get(r, {}))}")
    if "unitsafter" in fails:
        since = dict(fn_items(st[3].get("since", {})))
        for it in ev.get("items", []):
            allowed = setof(since.get(it["name"], {}))
            if allowed and it["unit"] not in allowed:
                msgs.append(f"{it['name']}: this readout reports an update that started after the name had been described as {allowed}, "
                            f"but writes the unit {it['unit']}")
    if "names" in fails:
        known = [(k["kind"], k["name"], sorted(map(tuple, k["labels"]))) for k in keys]
        for it in ev.get("items", []):
            if (it["kind"], it["name"], sorted(map(tuple, it["dims"]))) not in known:
                msgs.append(f"item kind={it['kind']} name={it['name']} dimensions={it['dims']} is not a registered key with its labels")
    for f in fails:
        if f in ("gaugeshown", "zerocounters", "histvalues"):
            msgs.append({"gaugeshown": "a gauge that had been set before the readout started is missing from the readout",
                         "zerocounters": "emit_zero_counters: a registered counter is missing from the readout",
                         "histvalues": "a histogram bucket value is not within 1/16 of any recorded value"}[f])
    return "; ".join(msgs[:4]) or f"rules violated: {fails}"


def run_recorded(chk, nruns, seed, tag="t", only=None, repeat=1):
    tp = os.path.join(chk.dir, f"{tag}-trace.ndjson")
    mp = os.path.join(chk.dir, f"{tag}-meta.ndjson")
    args = ["record", "--out", tp, "--meta", mp, "--runs", nruns, "--seed", seed]
    if only is not None:
        args += ["--only", only, "--repeat", repeat]
    vlib.run_bin("mb", args, timeout=3600)
    metas = vlib.read_ndjson(mp)
    with open(tp) as f:
        all_lines = f.readlines()
    rejected = []

    def on_reject(m, v, lines):
        reset = json.loads(lines[0])
        why = explain(v, reset["keys"], reset.get("classes"))
        rejected.append(m["id"])
        chk.violation(
            f"recorded run {m['run']} (seed {m['seed']}, {m['threads']} updater threads, {m['updates']} updates, "
            f"{m['concurrent_readouts']} concurrent readouts, emit_zero={m['emit_zero']}): trace rejected at event "
            f"{v.line}: {why}",
            {"kind": "trace", "meta": m, "rejected_line": v.line, "trace": [json.loads(x) for x in lines]},
            key="C20:trace")

    stats = {}
    # ~6 runs (about 2000 events) per TLC invocation
    acc = vlib.validate_scenarios(SPECD, "MetricsBridgeTrace", "MetricsBridgeTrace.cfg", tp, mp, on_reject,
                                  chunk=6, jobs=max(2, vlib.TLC_WORKERS), chunk_timeout=600, one_timeout=600, stats=stats)
    chk.traces += acc
    chk.evaluations += len(metas)
    ex = chk.extra
    ex["recorded_runs"] = ex.get("recorded_runs", 0) + len(metas)
    ex["recorded_events"] = ex.get("recorded_events", 0) + len(all_lines)
    ex["updates_applied"] = ex.get("updates_applied", 0) + sum(m["updates"] for m in metas)
    ex["concurrent_readouts"] = ex.get("concurrent_readouts", 0) + sum(m["concurrent_readouts"] for m in metas)
    ex["inconclusive"] = ex.get("inconclusive", 0) + stats.get("inconclusive", 0)
    # how often a readout really raced with updates: readouts that started while a batch was in flight
    racing = 0
    describes_in_flight = 0
    open_batches = 0
    for l in all_lines:
        e = json.loads(l)
        n = e["ev"]
        if n == "Reset":
            open_batches = 0
        elif n in ("IncStart", "RecStart", "SetStart"):
            open_batches += 1
        elif n in ("IncEnd", "RecEnd", "SetEnd"):
            open_batches -= 1
        elif n == "ReadoutStart" and open_batches > 0:
            racing += 1
        elif n == "DescStart" and open_batches > 0:
            describes_in_flight += 1
    ex["readouts_started_while_updates_in_flight"] = ex.get("readouts_started_while_updates_in_flight", 0) + racing
    ex["describes_while_in_use"] = ex.get("describes_while_in_use", 0) + describes_in_flight
    for m in metas:
        if m["concurrent_readouts"] > 0:
            chk.nontrivial.add(f"run:{m['seed']}:{m['threads']}:{m['events']}")
    if metas:
        chk.sample({"recorded_run": {k: metas[0][k] for k in ("threads", "keys", "updates", "concurrent_readouts", "events", "emit_zero")}})
    return rejected


def run_lonely(chk, rounds, seed, tag="lonely"):
    """One record racing a readout loop, checked before the key is touched again (`mb lonely`); count-form trace
    (agreeing rounds summed up, the first disagreeing round on its own) validated by MetricsBridgeTrace.tla."""
    tp = os.path.join(chk.dir, f"{tag}-trace.ndjson")
    mp = os.path.join(chk.dir, f"{tag}-meta.ndjson")
    vlib.run_bin("mb", ["lonely", "--out", tp, "--meta", mp, "--rounds", rounds, "--batch", 10000, "--seed", seed], timeout=3600)
    metas = vlib.read_ndjson(mp)
    rejected = []

    def on_reject(m, v, lines):
        reset = json.loads(lines[0])
        why = explain(v, reset["keys"], reset.get("classes"))
        rejected.append(m["id"])
        chk.violation(
            f"lonely record (batch {m['run']}, seed {m['seed']}, round {m['failed_round']} of {m['rounds']}): a histogram sample was "
            f"recorded while a reader thread read out in a loop; two readouts that started after record() had returned have "
            f"finished and the key was not touched again: {why}",
            {"kind": "lonely", "meta": m, "rejected_line": v.line, "trace": [json.loads(x) for x in lines]}, key="C20:lonely")

    acc = vlib.validate_scenarios(SPECD, "MetricsBridgeTrace", "MetricsBridgeTrace.cfg", tp, mp, on_reject,
                                  chunk=1000, jobs=2, chunk_timeout=300, one_timeout=300)
    chk.traces += acc
    chk.evaluations += len(metas)
    ex = chk.extra.setdefault("lonely_records", {"rounds": 0, "samples": 0, "readouts": 0})
    ex["rounds"] += sum(m["rounds"] for m in metas)
    ex["samples"] += sum(m["samples"] for m in metas)
    ex["readouts"] += sum(m["readouts"] for m in metas)
    chk.nontrivial.update(f"lonely:{m['seed']}" for m in metas)
    return rejected


def run(prop, tier):
    chk = vlib.Check(prop, tier)
    chk.rule = ("evaluations = recorded concurrent runs of the real bridge (each validated event by event by TLC against the "
                "property layer) + TLC-generated describe/use/readout histories replayed into a fresh recorder; "
                "distinct_nontrivial = runs with readouts concurrent to updates (distinct seed/threads/length) + distinct histories")
    chk.assumptions = [
        "the harness's event log is totally ordered by one mutex: 'A's end logged before B's start' implies A happened before B",
        "updates are logged per batch (start, n updates, end); a batch counts as started/ended as a whole (sound, coarser)",
        "histogram values are taken from 9 classes (0 .. u32::MAX, larger values capped) that are >1/16 apart, so a reported "
        "bucket identifies the recorded value; values from 2^31 on are compared in units of 1024 (TLC has 32-bit integers)",
        "every readout of the sequential histories is also written after remove_timestamp() (same items and entry configuration "
        "expected) and through a real Emf::all_validations formatter (must be accepted if the stand-alone readout is)",
        "gauge values are unique per call, except that one thread also sets gauges back to 0.0; a name is used for one metric kind only",
        "lonely-record rounds: rounds in which everything recorded had been reported after two trailing readouts are summed up in "
        "the trace; the first round where it had not is logged on its own (the harness only decides what to log in detail)",
        "a lost update that needs a window never hit in the recorded runs is not seen (contention: 60% of the updates go to one key)",
        "TLC results for MetricsBridge.tla are exhaustive only within the constants of the MC_mb*.cfg files",
    ]
    vlib.cargo_build(["mb"])
    if not vlib.SKIP_MC:
        model_checks(chk, tier)
        reporter_models(chk)
    run_naming(chk, tier)
    if tier == "thorough":
        # the same large-value histories against a release build (no overflow checks: a wrapped total is
        # silent there, a panic in the dev build)
        vlib.cargo_build(["mb"], release=True)
        run_naming(chk, tier, cfgs=["MC_naming_bighist.cfg"], release=True, tag="naming_release")
    run_reporter(chk, tier)
    nruns = 48 if tier == "quick" else 600
    run_recorded(chk, nruns, chk.seed)
    run_lonely(chk, 150_000 if tier == "quick" else 3_000_000, chk.seed)
    racing, conc = chk.extra.get("readouts_started_while_updates_in_flight", 0), chk.extra.get("concurrent_readouts", 0)
    if racing < nruns or racing * 4 < conc:
        raise vlib.ToolError(f"only {racing} of {conc} readouts started while updates were in flight (vacuous runs)")
    return chk.finish()


def replay(prop, path):
    with open(path) as f:
        v = json.load(f)
    rp = v["replay"]
    vlib.cargo_build(["mb"])
    chk = vlib.Check(prop + "-replay", "quick")
    if rp["kind"] == "naming":
        if rp.get("release"):
            vlib.cargo_build(["mb"], release=True)
        bad = run_naming(chk, "quick", only=rp["behaviour"], release=bool(rp.get("release")))
        log("replay:", "still violated" if bad else "no longer violated")
        return 1 if bad else 0
    if rp["kind"] == "reporter":
        bad = run_reporter(chk, "quick", only=rp["behaviour"])
        log("replay:", "still violated" if bad else "no longer violated")
        return 1 if bad else 0
    tp = os.path.join(chk.dir, "stored.ndjson")
    vlib.write_ndjson(tp, rp["trace"])
    r = vlib.validate_trace(SPECD, "MetricsBridgeTrace", "MetricsBridgeTrace.cfg", tp)
    log("stored trace:", "ACCEPTED" if r.accepted else f"REJECTED at line {r.line}")
    if rp["kind"] == "lonely":
        rej = run_lonely(chk, 300_000, rp["meta"]["seed"] % 1000, tag="replay")
        log(f"re-ran 300000 lonely-record rounds: {len(rej)} batches rejected")
        return 1 if rej else 0
    m = rp["meta"]
    # the schedule is not reproducible; re-run the same plan a number of times
    seed_base = (m["seed"] - m["run"]) // 1_000_003
    rej = run_recorded(chk, 1, seed_base, tag="replay", only=m["run"], repeat=30)
    log(f"re-ran the run's plan 30 times: {len(rej)} rejected")
    return 1 if rej else 0
