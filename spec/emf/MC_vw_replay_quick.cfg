CONSTANTS
  MaxSlices = 3
  MaxLen = 2
  MaxIntr = 1
  Bug = "none"
SPECIFICATION RSpec
INVARIANT Emit
CHECK_DEADLOCK FALSE
