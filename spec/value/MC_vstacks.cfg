CONSTANTS
  Depth = 3
  Bases = {"str", "u64", "f64", "dur", "distu", "distdur", "mean", "rich", "err", "empty", "bad", "zero", "zeron", "richi"}
  StackUnits = {"Second", "Microsecond", "Kilobit", "Count"}
SPECIFICATION Spec
INVARIANT Transparent
INVARIANT OnlyAdditions
INVARIANT Units19
INVARIANT Emit
INVARIANT EmitUnits
INVARIANT EmitFlagMerge
CONSTRAINT Bound
CHECK_DEADLOCK FALSE
