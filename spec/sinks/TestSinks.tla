------------------------------ MODULE TestSinks ------------------------------
(***************************************************************************)
(* X02 (d): the sinks meant for tests record exactly what a real format     *)
(* would be given (metrique-writer/src/sink/mod.rs VecEntrySink,            *)
(* test_util.rs to_test_entry / test_entry_sink / Inspector).               *)
(*                                                                         *)
(* An entry is a script of EntryWriter calls (timestamp(secs) |             *)
(* value(name, string s | metric m | nothing)); a real format sees the      *)
(* calls one by one.  TestEntry is an IMAGE of the script: the last         *)
(* timestamp, for every name the last string written under it, for every    *)
(* name the last metric written under it (distribution, unit, dimensions,   *)
(* test flag, all verbatim); a value that writes nothing (Option::None)     *)
(* leaves no trace and erases nothing.  For scripts without repeated names  *)
(* the image is one-to-one with the calls.                                  *)
(*                                                                         *)
(* State machine:                                                           *)
(*   vec   VecEntrySink: the entries appended since the last drain, in      *)
(*         order (the entries themselves, not images)                       *)
(*   ins   Inspector of test_entry_sink: images of ALL entries ever         *)
(*         appended, in order; entries() / get(i) never remove anything     *)
(*   both flush_async futures are ready                                     *)
(* Invariants: Faithful (ins is the image sequence of `all`), VecIsSuffix   *)
(* (vec = everything appended after the last drain).                        *)
(***************************************************************************)
EXTENDS Integers, Sequences, FiniteSets, TLC

CONSTANTS MaxOps

M(obs, unit, dims, flag) == [obs |-> obs, unit |-> unit, dims |-> dims, flag |-> flag]
U(v) == [t |-> "u", v |-> v, n |-> 1]
F(v) == [t |-> "f", v |-> v, n |-> 1]
R(v, n) == [t |-> "r", v |-> v, n |-> n]
Ts(s) == [call |-> "timestamp", secs |-> s, name |-> "", kind |-> "", s |-> "", m |-> M(<<>>, "None", <<>>, FALSE)]
Str(nm, s) == [call |-> "value", secs |-> 0, name |-> nm, kind |-> "string", s |-> s, m |-> M(<<>>, "None", <<>>, FALSE)]
Met(nm, m) == [call |-> "value", secs |-> 0, name |-> nm, kind |-> "metric", s |-> "", m |-> m]
Non(nm) == [call |-> "value", secs |-> 0, name |-> nm, kind |-> "none", s |-> "", m |-> M(<<>>, "None", <<>>, FALSE)]

m1 == M(<<U(42)>>, "None", <<>>, FALSE)
m2 == M(<<U(7)>>, "Count", <<>>, FALSE)
m3 == M(<<F(3)>>, "Milliseconds", <<<<"Operation", "Get">>, <<"Az", "use1-az1">>>>, TRUE)
m4 == M(<<R(30, 3), R(8, 2), U(1)>>, "Bytes", <<<<"k", "v">>>>, FALSE)
m5 == M(<<>>, "Percent", <<>>, FALSE)

Catalogue == <<
    <<Ts(100), Str("Operation", "Get"), Met("Count", m1)>>,                                  \* plain
    <<Met("a", m1), Met("a", m2), Str("s", "x"), Str("s", "y")>>,                            \* repeated names: last wins
    <<Non("opt"), Met("b", m3)>>,                                                            \* a value that writes nothing
    <<Str("x", "s1"), Met("x", m4), Ts(100), Ts(200)>>,                                      \* same name as string and metric; two timestamps
    <<>>,                                                                                    \* empty entry
    <<Met("a", m1), Non("a"), Str("", ""), Met("h", m4), Met("e", m5)>>                      \* nothing after something; empty name and string; empty distribution
  >>
K == Len(Catalogue)

Max(S) == CHOOSE x \in S : \A y \in S : y <= x
LastOf(s, P(_)) == LET I == {i \in 1..Len(s) : P(s[i])} IN IF I = {} THEN 0 ELSE Max(I)
Image(s) ==
    [timestamp |-> LET i == LastOf(s, LAMBDA c : c.call = "timestamp") IN IF i = 0 THEN -1 ELSE s[i].secs,
     values |-> {<<s[i].name, s[i].s>> : i \in {i \in 1..Len(s) : /\ s[i].call = "value" /\ s[i].kind = "string"
                    /\ \A j \in (i + 1)..Len(s) : ~(s[j].call = "value" /\ s[j].kind = "string" /\ s[j].name = s[i].name)}},
     metrics |-> {<<s[i].name, s[i].m>> : i \in {i \in 1..Len(s) : /\ s[i].call = "value" /\ s[i].kind = "metric"
                    /\ \A j \in (i + 1)..Len(s) : ~(s[j].call = "value" /\ s[j].kind = "metric" /\ s[j].name = s[i].name)}}]

VARIABLES vec, ins, all, drainedAt, nops
tvars == <<vec, ins, all, drainedAt, nops>>

Init == vec = <<>> /\ ins = <<>> /\ all = <<>> /\ drainedAt = 0 /\ nops = 0
Op == nops < MaxOps /\ nops' = nops + 1

Append1(e) == /\ Op /\ vec' = Append(vec, e) /\ ins' = Append(ins, Image(Catalogue[e])) /\ all' = Append(all, e)
              /\ UNCHANGED drainedAt
Drain == Op /\ vec' = <<>> /\ drainedAt' = Len(all) /\ UNCHANGED <<ins, all>>
Read == Op /\ UNCHANGED <<vec, ins, all, drainedAt>>          \* entries(), get(i), contains_entry, flush_async

Next == (\E e \in 1..K : Append1(e)) \/ Drain \/ Read
Spec == Init /\ [][Next]_tvars

Faithful == ins = [i \in 1..Len(all) |-> Image(Catalogue[all[i]])]
VecIsSuffix == vec = SubSeq(all, drainedAt + 1, Len(all))
\* without repeated names the image determines the calls (as a set): nothing is invented, nothing dropped
NoRepeat(s) == \A i, j \in 1..Len(s) : (i # j /\ s[i].call = s[j].call /\ s[i].call = "value") => s[i].name # s[j].name
OneToOne == \A e \in 1..K : NoRepeat(Catalogue[e]) =>
               LET s == Catalogue[e] IN
               Cardinality(Image(s).values) + Cardinality(Image(s).metrics)
                  = Cardinality({i \in 1..Len(s) : s[i].call = "value" /\ s[i].kind # "none"})
TInv == Faithful /\ VecIsSuffix /\ OneToOne
=============================================================================
