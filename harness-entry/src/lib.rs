//! Recording side of the X03(a) conformance check (spec/entryderive/EntryDerive.tla,
//! checks/chk_x_entryderive.py).
//!
//! The generated programs (`src/bin/gen_*.rs`, written by tools/gen_entryderive.py from TLC's
//! behaviours) build one value per finished type tree and write it into `Rec`, a recording
//! `EntryWriter`: every `timestamp()` call and every `value()` call whose `Value::write` reaches
//! the `ValueWriter` becomes one item `[name, kind, value]` in call order; `sample_group()` is
//! recorded as the ordered list of pairs.  One ndjson line per instance on stdout.
use std::borrow::Cow;
use std::fmt::Write as _;
use std::time::{SystemTime, UNIX_EPOCH};

use metrique_writer_core::entry::{Entry, EntryConfig, EntryWriter};
use metrique_writer_core::value::{MetricFlags, Observation, ValueWriter};
use metrique_writer_core::{Unit, ValidationError, Value};

#[derive(Default)]
pub struct Rec {
    /// (name, kind, value)
    pub items: Vec<(String, &'static str, String)>,
    /// names of `value()` calls that wrote nothing (absent Options)
    pub silent: Vec<String>,
}

struct RecV<'b> {
    name: String,
    out: &'b mut Vec<(String, &'static str, String)>,
}

fn obs_str(o: Observation) -> String {
    match o {
        Observation::Unsigned(u) => format!("{u}"),
        Observation::Floating(f) => format!("f:{f:?}"),
        Observation::Repeated { total, occurrences } => format!("r:{total:?}:{occurrences}"),
        _ => "other".to_string(),
    }
}

impl ValueWriter for RecV<'_> {
    fn string(self, value: &str) {
        self.out.push((self.name, "string", value.to_string()));
    }

    fn metric<'a>(
        self,
        distribution: impl IntoIterator<Item = Observation>,
        unit: Unit,
        dimensions: impl IntoIterator<Item = (&'a str, &'a str)>,
        _flags: MetricFlags<'_>,
    ) {
        let mut v = distribution.into_iter().map(obs_str).collect::<Vec<_>>().join(",");
        if unit != Unit::None {
            let _ = write!(v, " {}", unit.name());
        }
        for (a, b) in dimensions {
            let _ = write!(v, " {a}={b}");
        }
        self.out.push((self.name, "metric", v));
    }

    fn error(self, error: ValidationError) {
        self.out.push((self.name, "error", format!("{error}")));
    }
}

impl<'a> EntryWriter<'a> for Rec {
    fn timestamp(&mut self, timestamp: SystemTime) {
        let secs = timestamp.duration_since(UNIX_EPOCH).map(|d| d.as_secs().to_string()).unwrap_or_else(|_| "neg".into());
        self.items.push((String::new(), "timestamp", secs));
    }

    fn value(&mut self, name: impl Into<Cow<'a, str>>, value: &(impl Value + ?Sized)) {
        let name: Cow<'a, str> = name.into();
        let before = self.items.len();
        value.write(RecV { name: name.to_string(), out: &mut self.items });
        if self.items.len() == before {
            self.silent.push(name.into_owned());
        }
    }

    fn config(&mut self, _config: &'a dyn EntryConfig) {
        self.items.push((String::new(), "config", String::new()));
    }
}

fn jstr(out: &mut String, s: &str) {
    out.push('"');
    for c in s.chars() {
        match c {
            '"' => out.push_str("\\\""),
            '\\' => out.push_str("\\\\"),
            '\n' => out.push_str("\\n"),
            c if (c as u32) < 0x20 => {
                let _ = write!(out, "\\u{:04x}", c as u32);
            }
            c => out.push(c),
        }
    }
    out.push('"');
}

/// `{"id":..,"items":[[name,kind,value],..],"sg":[[k,v],..],"silent":[..]}`
/// (the generic part is kept minimal: the generated programs instantiate it once per root type)
pub fn record_line<E: Entry>(id: &str, entry: &E) -> String {
    let mut rec = Rec::default();
    entry.write(&mut rec);
    let sg = collect_pairs(&mut entry.sample_group());
    render(id, &rec, &sg)
}

#[inline(never)]
fn collect_pairs(it: &mut dyn Iterator<Item = (Cow<'static, str>, Cow<'static, str>)>) -> Vec<(String, String)> {
    it.map(|(k, v)| (k.to_string(), v.to_string())).collect()
}

#[inline(never)]
fn render(id: &str, rec: &Rec, sg: &[(String, String)]) -> String {
    let mut s = String::with_capacity(128 + rec.items.len() * 48);
    s.push_str("{\"id\":");
    jstr(&mut s, id);
    s.push_str(",\"items\":[");
    for (i, (n, k, v)) in rec.items.iter().enumerate() {
        if i > 0 {
            s.push(',');
        }
        s.push('[');
        jstr(&mut s, n);
        s.push(',');
        jstr(&mut s, k);
        s.push(',');
        jstr(&mut s, v);
        s.push(']');
    }
    s.push_str("],\"sg\":[");
    for (i, (k, v)) in sg.iter().enumerate() {
        if i > 0 {
            s.push(',');
        }
        s.push('[');
        jstr(&mut s, k);
        s.push(',');
        jstr(&mut s, v);
        s.push(']');
    }
    s.push_str("],\"silent\":[");
    for (i, n) in rec.silent.iter().enumerate() {
        if i > 0 {
            s.push(',');
        }
        jstr(&mut s, n);
    }
    s.push_str("]}");
    s
}

pub fn catch<T>(f: impl FnOnce() -> T + std::panic::UnwindSafe) -> Result<T, String> {
    std::panic::catch_unwind(f).map_err(|e| {
        if let Some(s) = e.downcast_ref::<&str>() {
            s.to_string()
        } else if let Some(s) = e.downcast_ref::<String>() {
            s.clone()
        } else {
            "panic".to_string()
        }
    })
}

/// Appends the line `f` produces (or `{"id":..,"panic":".."}` if the code under test panics) to `out`.
/// Not generic on purpose: the generated programs call it once per instance.
pub fn guarded(out: &mut String, id: &str, f: &mut dyn FnMut() -> String) {
    match catch(std::panic::AssertUnwindSafe(f)) {
        Ok(l) => out.push_str(&l),
        Err(p) => {
            out.push_str("{\"id\":");
            jstr(out, id);
            out.push_str(",\"panic\":");
            jstr(out, &p);
            out.push('}');
        }
    }
    out.push('\n');
}

pub fn ts(secs: u64) -> SystemTime {
    UNIX_EPOCH + std::time::Duration::from_secs(secs)
}
