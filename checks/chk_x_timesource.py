"""X05 (extension of the specification): time-source resolution and override scoping (crate metrique-timesource).

spec/timesource/TimeSource.tla        per thread: the thread-local override cell and its live guards (each remembers the
                                      `previous` it replaced and writes it back when dropped - in whatever order), open
                                      with_time_source frames, the stack of entered tokio runtimes; per runtime: the entry of the
                                      runtime map and its live guards; fake clocks; instants that carry their source.
                                      Invariants / action properties: Priority (explicit > thread-local > runtime the caller is
                                      inside > System), ThreadLocal, RuntimeScoped, EnterIsLocal, OneOverride,
                                      PanicChangesNothing (second install, install-for-current outside a runtime), LifoChain /
                                      LifoRestores / NoLeakUnderLifo / WithRestores (disciplined use restores the cell),
                                      LeakIsPermanent (+ NoLeak must be REFUTED: out-of-order drops leave an override behind),
                                      InstantsOwnSource / InstantsStable.  CONSTANT Bug: five broken variants must be rejected.
spec/timesource/TimeSourceReplay.tla  R: every sequence of Depth calls (exhaustive, three focused alphabets) and random walks of 30-40
                                      calls over the full alphabet, each step with the expected panic flag, the source every thread
                                      resolves, every clock and every instant's elapsed().
harness/src/bin/ts.rs                 executes them on the real crate: one OS thread per model thread (user threads, the worker of a
                                      multi_thread(1) runtime, the block_on thread of a current_thread runtime), two real tokio
                                      runtimes, ManuallyAdvancedTimeSource / StaticTimeSource / TimeSource::tokio on a paused runtime.
"""
import json, os, time, hashlib
import vlib
from vlib import log

SPEC = os.path.join(vlib.SPEC, "timesource")
ACTIONS = ("Set", "WithBegin", "Drop", "WithEnd", "Enter", "Leave", "RtInstall", "RtInstallCur", "RtDrop", "Take", "Advance")
BASES = {"m1": 1_000_000, "m2": 2_000_000, "tk": 3_000_000, "st": 4_000_000, "m3": 5_000_000}
SPAN = 500_000
BUGS = [("dropClears", "MC_ts_guards.cfg", ["LifoChain", "LifoRestores", "NoLeakUnderLifo", "Property"]),
        ("rtFirst", "MC_ts_scope.cfg", ["Priority"]),
        ("rtDropAll", "MC_ts_scope.cfg", ["OneOverride", "Property"]),
        ("installReplaces", "MC_ts_scope.cfg", ["Property"]),
        ("elapsedCurrent", "MC_ts_inst.cfg", ["InstantsOwnSource", "Property"])]


def kind_of(name):
    return "tokio" if name.startswith("tk") else "static" if name.startswith("st") else "manual"


# ============================================================================================
# the model on its own
# ============================================================================================
def _variant_cfg(chk, cfg, name, repl):
    with open(os.path.join(SPEC, cfg)) as f:
        s = f.read()
    for a, b in repl:
        if a not in s:
            raise vlib.ToolError(f"{cfg}: cannot derive variant {name}: {a!r} not found")
        s = s.replace(a, b)
    path = os.path.join(chk.dir, f"{cfg[:-4]}_{name}.cfg")
    with open(path, "w") as f:
        f.write(s)
    return path


def _rejected(r):
    import re
    got = set(r.invariant_violated)
    if r.property_violated or re.search(r"Error: (Action|Temporal) propert\w+ .*violated", r.out):
        got.add("Property")
    return got


def models(chk, tier):
    cfgs = ["MC_ts_guards.cfg", "MC_ts_scope.cfg", "MC_ts_inst.cfg"] + (["MC_ts_scope_thorough.cfg", "MC_ts_inst_thorough.cfg"] if tier != "quick" else [])
    taken = {}
    for cfg in cfgs:
        r = vlib.model_check(SPEC, "TimeSource", cfg, timeout=3000)
        chk.add_model("TimeSource/" + cfg, r)
        for a in ACTIONS:
            taken[a] = taken.get(a, 0) + r.coverage.get(a, 0)
    never = [a for a in ACTIONS if taken.get(a, 0) == 0]
    if never:
        raise vlib.ToolError(f"TimeSource: actions never taken in any configuration: {never}")
    chk.extra["model_action_coverage"] = taken
    caught = {}
    for bug, cfg, expect in BUGS:
        path = _variant_cfg(chk, cfg, bug, [('Bug = "none"', f'Bug = "{bug}"')])
        r = vlib.tlc(SPEC, "TimeSource", path, workers=2, timeout=600)
        got = _rejected(r)
        if not (got & set(expect)):
            raise vlib.ToolError(f"TimeSource with Bug={bug}: expected one of {expect} to fail, TLC reported {sorted(got) or 'no error'}")
        caught[bug] = sorted(got & set(expect))[0] if "Property" not in got else (r.property_violated or ["action property"])[0][:80]
    # reachability witness: out-of-order drops leave an override behind with no guard alive
    path = _variant_cfg(chk, "MC_ts_guards.cfg", "noleak", [("INVARIANTS TypeOK", "INVARIANTS NoLeak TypeOK")])
    r = vlib.tlc(SPEC, "TimeSource", path, workers=2, timeout=600)
    if "NoLeak" not in r.invariant_violated:
        raise vlib.ToolError("TimeSource: NoLeak was not refuted (the out-of-order leak must be reachable in the model)")
    caught["NoLeak (must be refuted)"] = "refuted"
    chk.extra["model_variants_rejected"] = caught


# ============================================================================================
# behaviours
# ============================================================================================
def _tlc_replay(chk, cfg, **kw):
    r = vlib.tlc(SPEC, "TimeSourceReplay", cfg, timeout=3000, **kw)
    if r.errors or r.invariant_violated:
        raise vlib.ToolError(f"TimeSourceReplay/{cfg}: {r.errors[:2]}")
    pre, out = '<<"REPLAY", ', []
    for l in r.out.splitlines():
        if l.startswith(pre) and l.endswith(">>"):
            out.append(json.loads(json.loads(l[len(pre):-2])))
    if not out:
        raise vlib.ToolError(f"TimeSourceReplay/{cfg}: no behaviours generated")
    return r, out


def behaviours(chk, tier):
    quick = tier == "quick"
    plan = [("one_actor", "MC_ts_replay_t1_d4.cfg" if quick else "MC_ts_replay_t1_d5.cfg"),
            ("two_actors", "MC_ts_replay_2a_d3.cfg" if quick else "MC_ts_replay_2a_d4.cfg"),
            ("instants", "MC_ts_replay_inst_d4.cfg" if quick else "MC_ts_replay_inst_d5.cfg")]
    from concurrent.futures import ThreadPoolExecutor
    sims = [("walks", "MC_ts_replay_sim.cfg", 500 if quick else 12000), ("walks_3_users", "MC_ts_replay_sim3.cfg", 200 if quick else 6000)]
    sw = 1 if quick else 4          # -simulate num= is per worker

    def gen(job):
        if job[0] == "bfs":
            return _tlc_replay(chk, job[2], workers=max(2, vlib.TLC_WORKERS // 2))
        return _tlc_replay(chk, job[2], workers=sw, simulate=job[3] // sw, depth=60, seed=chk.seed * 7 + len(job[1]))

    jobs = [("bfs", n, c) for n, c in plan] + [("sim", n, c, num) for n, c, num in sims]
    with ThreadPoolExecutor(max_workers=3) as ex:
        results = list(ex.map(gen, jobs))
    beh, counts = [], {}
    for job, (r, b) in zip(jobs, results):
        name = job[1]
        if job[0] == "bfs":
            chk.add_model("TimeSourceReplay/" + job[2], r)
        else:
            seen, uniq = set(), []
            for x in b:
                k = json.dumps([[s[f] for f in ("op", "t", "v", "r", "k")] for s in x["steps"]])
                if k not in seen:
                    seen.add(k)
                    uniq.append(x)
            b = sorted(uniq, key=lambda x: json.dumps(x["steps"][:6]))     # the order of parallel simulation workers is not fixed
        counts[name] = len(b)
        for x in b:
            x["family"] = name
        beh += b
    for i, x in enumerate(beh):
        x["id"] = i + 1
        h = int(hashlib.sha256(f"{chk.seed}:{i}".encode()).hexdigest()[:8], 16)
        # r1 / r2: a multi_thread runtime with one worker, or a current_thread runtime (driven by block_on when it has a model thread)
        x["flavor"] = {"r1": ("multi", "current")[h % 2], "r2": ("current", "multi")[(h >> 1) % 2]}
        names = sorted(x["steps"][0]["clk"].keys())
        x["sources"] = [{"name": n, "kind": kind_of(n), "base": BASES[n]} for n in names]
    chk.extra["behaviours"] = counts
    return beh


# ============================================================================================
# judging one behaviour
# ============================================================================================
def _decode(now, sources, wall):
    secs, nanos = now
    for s in sources:
        if s["base"] <= secs < s["base"] + SPAN:
            return s["name"], secs - s["base"], nanos
    if abs(secs - wall) < 86400:
        return "sys", None, nanos
    return f"?({secs}s)", None, nanos


def judge(b, o, wall):
    """-> (violation text or None, category, stats)"""
    st = {"steps": 0, "resolutions": 0, "elapsed": 0, "panics": 0}
    steps, obs = b["steps"], o["steps"]
    threads = b["users"] + b["workers"]
    for i, s in enumerate(steps):
        if i >= len(obs):
            return f"step {i + 1}: the driver stopped after step {len(obs)} without a reason", "driver", st
        g = obs[i]
        call = s["op"] + "(" + ", ".join(str(s[f]) for f in ("t", "v", "r", "k") if s[f] not in ("-", 0)) + ")"
        where = f"step {i + 1} {call}"
        if "hang" in g:
            return f"{where}: the call (or the observation after it) did not return within the time limit", "hang", st
        st["steps"] += 1
        real_pan = g["panic"] is not None
        if real_pan != s["pan"]:
            if real_pan:
                return f"{where}: panicked ({g['panic']!r}); the model expects it to return", "panic", st
            why = "a time source is already installed for that runtime" if s["op"] == "RtInstall" else "no current runtime, or one is already installed for it"
            return f"{where}: returned; the model expects a panic that changes nothing ({why})", "panic", st
        st["panics"] += real_pan
        for u in threads:
            ou = g["obs"][u]
            if "panic" in ou:
                return f"{where}: time_source() / elapsed() on thread {u} panicked: {ou['panic']}", "panic", st
            name, clk, nanos = _decode(ou["now"], b["sources"], wall)
            st["resolutions"] += 1
            if name != s["res"][u]:
                return (f"{where}: afterwards get_time_source(None) on thread {u} resolves to {name} "
                        f"(clock reading {ou['now'][0]}s), the model expects {s['res'][u]}; expected resolutions {json.dumps(s['res'])}"), "resolution", st
            if name != "sys" and (clk != s["clk"][name] or nanos != 0):
                return (f"{where}: thread {u} resolves to {name} as expected but its system_time() reads base+{clk}s{nanos}ns, the clock of "
                        f"{name} is {s['clk'][name]}"), "clock", st
            if len(ou["el"]) != len(s["isrc"]):
                return f"{where}: {len(ou['el'])} instants alive on the driver, {len(s['isrc'])} in the model", "driver", st
            for j, (src, triple) in enumerate(zip(s["isrc"], ou["el"])):
                want = s["el"][j][u]
                st["elapsed"] += 1
                for what, got in zip(("Instant::elapsed", "SystemTime::elapsed of system_time()", "SystemTime::elapsed of SystemTime::new(std, &ts)"), triple):
                    if src == "sys":
                        ok = 0 <= got < 300 * 10**9
                    else:
                        ok = got == want * 10**9
                    if not ok:
                        return (f"{where}: {what} of instant {j + 1} (taken from {src}) read on thread {u} is {got} ns, expected "
                                f"{'a small real duration' if src == 'sys' else str(want) + ' s = clock of ' + src + ' now minus its value when taken'}; "
                                f"thread {u} currently resolves to {s['res'][u]}"), "elapsed", st
    return None, None, st


def run_replay(chk, beh, tag="ts", jobs=6):
    jobs = int(os.environ.get("VERIF_TS_JOBS", jobs))
    from concurrent.futures import ThreadPoolExecutor
    n = max(1, min(jobs, len(beh) // 50 + 1))
    per = (len(beh) + n - 1) // n
    parts = [beh[i:i + per] for i in range(0, len(beh), per)]
    wall = time.time()

    def work(arg):
        ci, part = arg
        bp, op = (os.path.join(chk.dir, f"{tag}-{x}{ci}.ndjson") for x in ("beh", "out"))
        vlib.write_ndjson(bp, [{k: v for k, v in b.items() if k != "family"} for b in part])
        p = vlib.run_bin("ts", ["replay", "--behaviours", bp, "--out", op], timeout=3600, check=False)
        if p.returncode not in (0, 3):
            raise vlib.ToolError(f"ts replay exited {p.returncode}: {p.stderr[-800:]}")
        return vlib.read_ndjson(op), p.returncode

    t0 = time.time()
    outs, hung = {}, 0
    with ThreadPoolExecutor(max_workers=n) as ex:
        for rows, rc in ex.map(work, list(enumerate(parts))):
            hung += rc == 3
            for o in rows:
                outs[o["id"]] = o
    st = chk.extra.setdefault("replay", {"behaviours": 0, "steps": 0, "resolutions_compared": 0, "elapsed_compared": 0, "expected_panics": 0,
                                         "with_out_of_order_drop": 0, "with_leaked_override": 0, "with_thread_local_masking_runtime": 0,
                                         "with_double_install": 0, "not_run_after_hang": 0, "driver_s": 0})
    st["driver_s"] = round(time.time() - t0, 1)
    bad = 0
    for b in beh:
        o = outs.get(b["id"])
        if o is None:
            if hung:
                st["not_run_after_hang"] += 1
                continue
            raise vlib.ToolError(f"ts replay: no result for behaviour {b['id']}")
        viol, cat, s = judge(b, o, wall)
        chk.evaluations += 1
        st["behaviours"] += 1
        st["steps"] += s["steps"]
        st["resolutions_compared"] += s["resolutions"]
        st["elapsed_compared"] += s["elapsed"]
        st["expected_panics"] += s["panics"]
        st["with_out_of_order_drop"] += any(x["nonlifo"] for x in b["steps"])
        st["with_leaked_override"] += any(x["leak"] for x in b["steps"])
        st["with_thread_local_masking_runtime"] += any(x["masked"] for x in b["steps"])
        st["with_double_install"] += any(x["pan"] and x["op"] == "RtInstall" for x in b["steps"])
        chk.nontrivial.add(json.dumps([[x[f] for f in ("op", "t", "v", "r", "k")] for x in b["steps"]]))
        if viol:
            bad += 1
            if bad > 25:          # a broken tree fails thousands of behaviours the same way: 25 replay files are enough
                st["further_violations_not_written"] = st.get("further_violations_not_written", 0) + 1
                continue
            chk.violation(f"time source, behaviour {b['id']} ({b.get('family', 'replay')}, r1={b['flavor']['r1']}, r2={b['flavor']['r2']}): {viol}",
                          {"kind": "ts", "behaviour": b, "observed": o}, key="X05:" + cat)
    chk.traces += len(beh) - bad - st["not_run_after_hang"]
    return bad


def run(prop, tier):
    chk = vlib.Check(prop, tier)
    chk.rule = ("evaluations = TLC behaviours of TimeSourceReplay replayed into metrique-timesource (every step: panic flag, the source each "
                "thread resolves with its clock reading, elapsed() of every instant on every thread); distinct_nontrivial = distinct call sequences")
    chk.assumptions = [
        "every step is one complete call executed by one thread while the others wait: the model is sequentially consistent; the runtime map's mutex is not raced",
        "a source is identified by its clock reading (distinct base per fake source, System = wall clock within a day)",
        "the TimeSource::tokio source reads the clock of a third, paused runtime; its readings are taken with that runtime's context entered (resolution is not)",
        "a thread is inside a runtime when it holds Handle::enter()'s guard (user threads, nested up to 2), is that runtime's worker running a task, or drives it with block_on",
        "guards are never leaked with mem::forget; a panicking call is caught (catch_unwind) and is data",
        "instants of TimeSource::System are only required to report a small non-negative real duration",
    ]
    vlib.cargo_build(["ts"])
    try:        # recorded, not judged: a TimeSource::tokio source read outside the runtime whose clock it uses follows real time
        chk.extra["tokio_source_probe"] = json.loads(vlib.run_bin("ts", ["probe"], timeout=60).stdout)
    except (ValueError, vlib.ToolError):
        chk.extra["tokio_source_probe"] = "failed"
    from concurrent.futures import ThreadPoolExecutor

    class ModelSide:
        def __init__(self):
            self.dir, self.seed, self.extra, self.models = chk.dir, chk.seed, {}, []

        def add_model(self, name, r):
            self.models.append((name, r))

    side = ModelSide()
    pool = ThreadPoolExecutor(max_workers=1)

    def model_side():
        if not vlib.SKIP_MC:
            t0 = time.time()
            models(side, tier)
            log(f"[{prop}] models: {time.time() - t0:.1f}s")

    fut = pool.submit(model_side)
    try:
        t0 = time.time()
        beh = behaviours(chk, tier)
        log(f"[{prop}] behaviours generated: {len(beh)} in {time.time() - t0:.1f}s")
        t0 = time.time()
        run_replay(chk, beh)
        log(f"[{prop}] replay: {time.time() - t0:.1f}s")
        mid = beh[len(beh) // 3]
        chk.sample({"behaviour": [[x[f] for f in ("op", "t", "v", "r", "k")] + [x["res"]] for x in mid["steps"]]})
        fut.result()
        for name, r in side.models:
            chk.add_model(name, r)
        chk.extra.update(side.extra)
        st = chk.extra["replay"]
        for k in ("with_out_of_order_drop", "with_leaked_override", "with_thread_local_masking_runtime", "with_double_install", "elapsed_compared"):
            if st[k] == 0 and not chk.violations:
                raise vlib.ToolError(f"X05: no replayed behaviour reaches the case {k}")
    finally:
        pool.shutdown()
    return chk.finish()


def replay(prop, path):
    with open(path) as f:
        v = json.load(f)
    rp = v["replay"]
    vlib.cargo_build(["ts"])
    chk = vlib.Check(prop + "-replay", "quick")
    run_replay(chk, [dict(rp["behaviour"], id=1)], tag="replay", jobs=1)
    log("replay:", "violation reproduced" if chk.violations else "no violation")
    return 1 if chk.violations else 0
