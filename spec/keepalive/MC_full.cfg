\* thorough: 2 flush guards, 2 force guards, 2 handles, 2 slots (wait / discard), 3 threads
CONSTANTS
  MaxG = 2
  MaxF = 2
  MaxH = 2
  NSlots = 2
  Modes = {"wait", "discard"}
  MaxVer = 1
  MaxSV = 1
  MaxInflight = 3
  WaitData = TRUE
  PreG = {0}
  PreF = {0}
  PreH = {0}
  PreS1 = {"none"}
  PreS2 = {"none"}
SPECIFICATION Spec
INVARIANTS TypeOK RcOK AtMostOnce NeverEarly RightMoment VerOK SlotOK WaitHolds
CHECK_DEADLOCK TRUE
