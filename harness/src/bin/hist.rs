//! Driver for C11 (spec/hist): steps the real `Histogram` / `SharedHistogram` of
//! metrique-aggregation through cases derived from TLC's bucket table and from the behaviours of
//! HistogramReplay.tla, and dumps the closed observations.  All judging happens in chk_hist.py
//! against TLC's table; this binary only executes.
//!
//! `hist run  --cases f --out g`   cases: {"id", "strategy": exp|atomic|sam, "source": <kind>,
//!                                  "steps": [{"op":"add","v":<value>} | {"op":"drain"} | {"op":"merge"}]}
//!                                  (a final drain is implied); output: {"id","drains":[{"obs","re"}],"panic"}
//! `hist conc --values f --threads n --per k --seed s --out g`
//! `hist race --values f --threads 2|3 --rounds r --per-round n --seed s --out g`   short-lived shared histograms
//!
//! Values: f64 / f32 as their bit patterns (integers), u64 as integers, durations as [secs, nanos],
//! observations as ["u", n] | ["f", bits] | ["r", total_bits, occurrences].
//! Every case is run twice: once reporting the closed observations ("obs"), once re-aggregating
//! every closed histogram into a fresh histogram of the same strategy before reporting it ("re").

use metrique_aggregation::histogram::{
    AtomicExponentialAggregationStrategy, ExponentialAggregationStrategy, Histogram, HistogramClosed,
    SharedHistogram, SortAndMerge,
};
use metrique_aggregation::traits::AggregateValue;
use metrique_core::CloseValue;
use metrique_writer::unit::{AsBytes, AsKilobytes, AsMicroseconds, AsSeconds};
use metrique_writer::{MetricFlags, MetricValue, Observation, Unit, ValidationError, Value, ValueWriter};
use serde_json::{Value as J, json};
use std::collections::HashMap;
use std::io::Write;
use std::time::Duration;
use vharness::util;

// ---------------------------------------------------------------------------------------------
/// a value that writes an arbitrary list of observations in one `metric` call
struct Multi(Vec<Observation>);
impl Value for Multi {
    fn write(&self, writer: impl ValueWriter) {
        writer.metric(self.0.iter().copied(), Unit::None, [], MetricFlags::empty())
    }
}
impl MetricValue for Multi {
    type Unit = metrique_writer::unit::None;
}

struct Capture<'a>(&'a mut Vec<Observation>, &'a mut Option<String>);
impl ValueWriter for Capture<'_> {
    fn string(self, v: &str) {
        *self.1 = Some(format!("closed histogram wrote a string {v:?}"));
    }
    fn metric<'a>(
        self,
        distribution: impl IntoIterator<Item = Observation>,
        _unit: Unit,
        _dimensions: impl IntoIterator<Item = (&'a str, &'a str)>,
        _flags: MetricFlags<'_>,
    ) {
        self.0.extend(distribution);
    }
    fn error(self, error: ValidationError) {
        *self.1 = Some(format!("closed histogram wrote an error: {error}"));
    }
}

fn observe<T: MetricValue>(c: &HistogramClosed<T>) -> Result<J, String> {
    let mut v = Vec::new();
    let mut err = None;
    c.write(Capture(&mut v, &mut err));
    if let Some(e) = err {
        return Err(e);
    }
    Ok(J::Array(
        v.iter()
            .map(|o| match *o {
                Observation::Unsigned(u) => json!(["u", u]),
                Observation::Floating(f) => json!(["f", f.to_bits()]),
                Observation::Repeated { total, occurrences } => json!(["r", total.to_bits(), occurrences]),
                _ => json!(["?"]),
            })
            .collect(),
    ))
}

// ---------------------------------------------------------------------------------------------
enum AnyHist<T> {
    Exp(Histogram<T, ExponentialAggregationStrategy>),
    Sam(Histogram<T, SortAndMerge>),
    Atomic(SharedHistogram<T, AtomicExponentialAggregationStrategy>),
}

impl<T: MetricValue> AnyHist<T> {
    fn new(strategy: &str) -> Self {
        match strategy {
            "exp" => AnyHist::Exp(Histogram::new(ExponentialAggregationStrategy::new())),
            "sam" => AnyHist::Sam(Histogram::new(SortAndMerge::new())),
            "atomic" => AnyHist::Atomic(SharedHistogram::new(AtomicExponentialAggregationStrategy::new())),
            s => panic!("unknown strategy {s}"),
        }
    }
    /// a fresh histogram "of the same strategy" that a closed histogram can be merged into
    /// (the atomic strategy has no merge target of its own: the non-atomic one with the same layout)
    fn fresh_merge_target(strategy: &str) -> Self {
        Self::new(if strategy == "atomic" { "exp" } else { strategy })
    }
    fn add(&mut self, v: T) {
        match self {
            AnyHist::Exp(h) => h.add_value(v),
            AnyHist::Sam(h) => h.add_value(v),
            AnyHist::Atomic(h) => h.add_value(v),
        }
    }
    fn close(self) -> HistogramClosed<T> {
        match self {
            AnyHist::Exp(h) => h.close(),
            AnyHist::Sam(h) => h.close(),
            AnyHist::Atomic(h) => h.close(),
        }
    }
    fn merge(&mut self, c: HistogramClosed<T>) -> bool {
        match self {
            AnyHist::Exp(h) => {
                <Histogram<T, ExponentialAggregationStrategy> as AggregateValue<HistogramClosed<T>>>::insert(h, c);
                true
            }
            AnyHist::Sam(h) => {
                <Histogram<T, SortAndMerge> as AggregateValue<HistogramClosed<T>>>::insert(h, c);
                true
            }
            AnyHist::Atomic(_) => false,
        }
    }
}

/// One pass over the steps.  `re = false`: every drain reports the closed observations.
/// `re = true`: every closed histogram is first merged into a fresh histogram of the same strategy
/// and closed again; that result is reported (and used by a later `merge`).
fn run_pass<T: MetricValue>(strategy: &str, steps: &[J], mk: &dyn Fn(&J) -> T, re: bool) -> Result<Vec<J>, String> {
    let mut h: AnyHist<T> = AnyHist::new(strategy);
    let mut kept: Option<HistogramClosed<T>> = None;
    let mut drains = Vec::new();
    let mut drain = |h: &mut AnyHist<T>, kept: &mut Option<HistogramClosed<T>>| -> Result<(), String> {
        let mut c = std::mem::replace(h, AnyHist::new(strategy)).close();
        if re {
            let mut fresh: AnyHist<T> = AnyHist::fresh_merge_target(strategy);
            fresh.merge(c);
            c = fresh.close();
        }
        drains.push(observe(&c)?);
        *kept = Some(c);
        Ok(())
    };
    for st in steps {
        match st["op"].as_str().unwrap_or("") {
            "add" => h.add(mk(&st["v"])),
            "drain" => drain(&mut h, &mut kept)?,
            "merge" => {
                let Some(c) = kept.take() else { return Err("merge without a closed histogram".into()) };
                if !h.merge(c) {
                    return Err("merge not supported for this strategy".into());
                }
            }
            op => return Err(format!("unknown op {op}")),
        }
    }
    drain(&mut h, &mut kept)?;
    Ok(drains)
}

fn run_steps<T: MetricValue>(strategy: &str, steps: &[J], mk: &dyn Fn(&J) -> T) -> Result<Vec<J>, String> {
    let obs = run_pass(strategy, steps, mk, false)?;
    let re = run_pass(strategy, steps, mk, true)?;
    Ok(obs.into_iter().zip(re).map(|(o, r)| json!({"obs": o, "re": r})).collect())
}

fn f64_of(v: &J) -> f64 {
    f64::from_bits(v.as_u64().expect("f64 bits"))
}
fn obs_of(v: &J) -> Observation {
    let a = v.as_array().expect("observation");
    match a[0].as_str().unwrap() {
        "u" => Observation::Unsigned(a[1].as_u64().unwrap()),
        "f" => Observation::Floating(f64_of(&a[1])),
        "r" => Observation::Repeated { total: f64_of(&a[1]), occurrences: a[2].as_u64().unwrap() },
        k => panic!("bad observation kind {k}"),
    }
}
fn dur_of(v: &J) -> Duration {
    Duration::new(v[0].as_u64().unwrap(), v[1].as_u64().unwrap() as u32)
}

fn run_case(case: &J) -> Result<Vec<J>, String> {
    let strategy = case["strategy"].as_str().unwrap();
    let steps = case["steps"].as_array().unwrap();
    match case["source"].as_str().unwrap() {
        "f64" => run_steps::<f64>(strategy, steps, &|v| f64_of(v)),
        "f32" => run_steps::<f32>(strategy, steps, &|v| f32::from_bits(v.as_u64().unwrap() as u32)),
        "u64" => run_steps::<u64>(strategy, steps, &|v| v.as_u64().unwrap()),
        "u32" => run_steps::<u32>(strategy, steps, &|v| v.as_u64().unwrap() as u32),
        "dur_ms" => run_steps::<Duration>(strategy, steps, &|v| dur_of(v)),
        "dur_us" => run_steps::<AsMicroseconds<Duration>>(strategy, steps, &|v| dur_of(v).into()),
        "dur_s" => run_steps::<AsSeconds<Duration>>(strategy, steps, &|v| dur_of(v).into()),
        "kb" => run_steps::<AsKilobytes<AsBytes<u64>>>(strategy, steps, &|v| AsBytes::<u64>::from(v.as_u64().unwrap()).into()),
        "obs" => run_steps::<Observation>(strategy, steps, &|v| obs_of(v)),
        "multi" => run_steps::<Multi>(strategy, steps, &|v| Multi(v.as_array().unwrap().iter().map(obs_of).collect())),
        s => Err(format!("unknown source {s}")),
    }
}

fn cmd_run(a: &HashMap<String, String>) {
    let cases = util::read_ndjson(util::arg_str(a, "cases", ""));
    let mut out = std::io::BufWriter::new(std::fs::File::create(util::arg_str(a, "out", "")).unwrap());
    std::panic::set_hook(Box::new(|_| {}));
    for c in cases {
        let r = util::catch(|| run_case(&c));
        let line = match r {
            Ok(Ok(d)) => json!({"id": c["id"], "drains": d}),
            Ok(Err(e)) => json!({"id": c["id"], "error": e}),
            Err(p) => json!({"id": c["id"], "panic": p}),
        };
        serde_json::to_writer(&mut out, &line).unwrap();
        out.write_all(b"\n").unwrap();
    }
    out.flush().unwrap();
}

/// 8 threads x 10^5 concurrent add_value on one SharedHistogram; the same (seeded) inputs are then
/// recorded sequentially into the non-atomic histogram.
fn cmd_conc(a: &HashMap<String, String>) {
    use rand::Rng;
    let vals: Vec<f64> = util::read_ndjson(util::arg_str(a, "values", ""))[0]
        .as_array()
        .unwrap()
        .iter()
        .map(f64_of)
        .collect();
    let threads = util::arg_u64(a, "threads", 8);
    let per = util::arg_u64(a, "per", 100_000);
    let seed = util::arg_u64(a, "seed", 1);
    let runs = util::arg_u64(a, "runs", 1);
    let mut out = std::io::BufWriter::new(std::fs::File::create(util::arg_str(a, "out", "")).unwrap());
    for run in 0..runs {
        let gen_ops = |t: u64| {
            let mut rng = util::rng((seed * 1000 + run) * 64 + t);
            let n = vals.len();
            (0..per)
                .map(move |_| {
                    let idx = rng.random_range(0..n);
                    let k: u64 = if rng.random_ratio(1, 4) { rng.random_range(2..6) } else { 1 };
                    (idx, k)
                })
                .collect::<Vec<_>>()
        };
        let mk = |idx: usize, k: u64| {
            if k == 1 {
                Observation::Floating(vals[idx])
            } else {
                Observation::Repeated { total: vals[idx] * k as f64, occurrences: k }
            }
        };
        let shared: SharedHistogram<Observation, AtomicExponentialAggregationStrategy> = SharedHistogram::default();
        let barrier = std::sync::Barrier::new(threads as usize);
        std::thread::scope(|s| {
            for t in 0..threads {
                let (shared, barrier, gen_ops, mk) = (&shared, &barrier, &gen_ops, &mk);
                s.spawn(move || {
                    let ops = gen_ops(t);
                    barrier.wait();
                    for (idx, k) in ops {
                        shared.add_value(mk(idx, k));
                    }
                });
            }
        });
        let atomic = observe(&shared.close()).unwrap();
        let mut seq: Histogram<Observation, ExponentialAggregationStrategy> = Histogram::default();
        let mut tally = vec![0u64; vals.len()];
        let mut recorded = 0u64;
        for t in 0..threads {
            for (idx, k) in gen_ops(t) {
                seq.add_value(mk(idx, k));
                tally[idx] += k;
                recorded += k;
            }
        }
        let seq = observe(&seq.close()).unwrap();
        serde_json::to_writer(&mut out, &json!({"run": run, "atomic": atomic, "seq": seq, "tally": tally, "recorded": recorded, "calls": threads * per}))
            .unwrap();
        out.write_all(b"\n").unwrap();
    }
    out.flush().unwrap();
}

/// Many SHORT-LIVED shared histograms: per round `per_round` fresh SharedHistograms, `threads` threads sweep the
/// array (forward / backward / from the middle) and record ONE value per histogram each, so that somewhere the
/// threads are inside add_value of the same histogram at the same instant; then every histogram is closed at once
/// (nothing recorded later can repair a summary) and compared with the non-atomic histogram fed the same values.
fn cmd_race(a: &HashMap<String, String>) {
    use rand::Rng;
    let vals: Vec<f64> = util::read_ndjson(util::arg_str(a, "values", ""))[0].as_array().unwrap().iter().map(f64_of).collect();
    let threads = util::arg_u64(a, "threads", 2) as usize;
    let rounds = util::arg_u64(a, "rounds", 200) as usize;
    let per_round = util::arg_u64(a, "per-round", 512) as usize;
    let seed = util::arg_u64(a, "seed", 1);
    let keep = util::arg_u64(a, "keep", 40) as usize;
    let mut rng = util::rng(seed);
    let (mut recorded, mut closed_total, mut mismatches, mut histograms) = (0u64, 0u64, 0u64, 0u64);
    let mut kept: Vec<J> = Vec::new();
    let occ_sum = |obs: &J| -> u64 {
        obs.as_array().unwrap().iter().map(|o| if o[0] == "r" { o[2].as_u64().unwrap() } else { 1 }).sum()
    };
    for round in 0..rounds {
        // per histogram: one value per thread; half of the time a far-apart (large, small) pair in random order
        let n = vals.len();
        let picks: Vec<Vec<usize>> = (0..per_round)
            .map(|_| {
                let mut v: Vec<usize> = (0..threads).map(|_| rng.random_range(0..n)).collect();
                if rng.random_ratio(1, 2) {
                    let (small, large) = (rng.random_range(0..n / 8), n - 1 - rng.random_range(0..n / 8));
                    let at = rng.random_range(0..threads);
                    v[at] = large;
                    v[(at + 1) % threads] = small;
                }
                v
            })
            .collect();
        let hs: Vec<SharedHistogram<f64, AtomicExponentialAggregationStrategy>> =
            (0..per_round).map(|_| SharedHistogram::default()).collect();
        let barrier = std::sync::Barrier::new(threads);
        std::thread::scope(|s| {
            for t in 0..threads {
                let (hs, picks, vals, barrier) = (&hs, &picks, &vals, &barrier);
                s.spawn(move || {
                    barrier.wait();
                    for k in 0..per_round {
                        let i = match t {
                            0 => k,
                            1 => per_round - 1 - k,
                            _ => (per_round / 2 + k) % per_round,
                        };
                        hs[i].add_value(vals[picks[i][t]]);
                    }
                });
            }
        });
        for (i, h) in hs.into_iter().enumerate() {
            let got = observe(&h.close()).unwrap();
            let mut seq: Histogram<f64, ExponentialAggregationStrategy> = Histogram::default();
            for t in 0..threads {
                seq.add_value(vals[picks[i][t]]);
            }
            let want = observe(&seq.close()).unwrap();
            histograms += 1;
            recorded += threads as u64;
            closed_total += occ_sum(&got);
            if got != want {
                mismatches += 1;
            }
            if (got != want && kept.len() < keep) || (round == 0 && i < 8) {
                kept.push(json!({"round": round, "index": i, "values": picks[i].iter().map(|&j| vals[j].to_bits()).collect::<Vec<_>>(),
                                 "atomic": got, "seq": want, "mismatch": got != want}));
            }
        }
    }
    let mut out = std::io::BufWriter::new(std::fs::File::create(util::arg_str(a, "out", "")).unwrap());
    serde_json::to_writer(&mut out, &json!({"threads": threads, "histograms": histograms, "recorded": recorded,
                                            "closed_total": closed_total, "mismatches": mismatches, "kept": kept})).unwrap();
    out.write_all(b"\n").unwrap();
    out.flush().unwrap();
}

fn main() {
    let (cmd, a) = util::args();
    match cmd.as_str() {
        "run" => cmd_run(&a),
        "conc" => cmd_conc(&a),
        "race" => cmd_race(&a),
        _ => {
            eprintln!("usage: hist run|conc ...");
            std::process::exit(2);
        }
    }
}
