----------------------------- MODULE Histogram -----------------------------
(***************************************************************************)
(* C11 - histograms conserve observation counts.                            *)
(*                                                                         *)
(* State of a histogram: store : Key -> Nat.  For the exponential           *)
(* strategies a key is a bucket index of HistLayout (cnt : Bucket -> Nat),  *)
(* for sort-and-merge a key is the recorded value itself (a bag).           *)
(*                                                                         *)
(*   Rec(p, v, n)   record_many(v, n): one addition to one key.  For the    *)
(*                  atomic strategy this is ONE fetch_add and any number of *)
(*                  recorders interleave, also with a running drain         *)
(*                  (`SharedAggregationStrategy::drain(&self)`); the other  *)
(*                  strategies need `&mut self`, so nothing interleaves.    *)
(*   DrainBegin / DrainStep / DrainEnd                                      *)
(*                  AtomicHistogram::drain swaps the buckets to zero one at *)
(*                  a time, in index order; the result is the run-length    *)
(*                  encoding (key, count) of the non-empty keys, ascending. *)
(*   MergeClosed    AggregateValue<HistogramClosed>::insert: every closed   *)
(*                  observation (reported value, count n) is recorded again *)
(*                  as n observations of that value - for every n.          *)
(*                                                                         *)
(* The count argument below rests on the counters being the ONLY state a    *)
(* drain trusts.  Any per-histogram auxiliary summary (a high-water mark, a *)
(* non-empty flag, a cached total) that drain consults must be maintained   *)
(* atomically w.r.t. the other recorders: HistogramAux.tla (positive model  *)
(* with fetch_max, negative model with load/compare/store) and the          *)
(* short-lived-histogram races of `hist race` cover that.                   *)
(*                                                                         *)
(* Property layer (what C11 says): Conservation, Quiescent, Ascending,      *)
(* FixedPoint below.                                                        *)
(***************************************************************************)
EXTENDS HistLayout

CONSTANTS Strategy,     \* "exp" | "atomic" | "sam"
          Procs,        \* recorders
          MaxOps,       \* records per recorder
          Occs,         \* occurrence counts of one record (Repeated)
          MaxDrains

\* the values recorded in this model: forms of HistLayout, ascending.  2 and 3 share a bucket.
Vals == << Lin(7), Exp(5, 0, "zeros"), Exp(5, 0, "ones"), Exp(31, 9, "mixed"), Exp(31, 10, "zeros") >>
ValIds == 1..Len(Vals)

Rank(low) == CASE low = "zeros" -> 0 [] low = "mixed" -> 1 [] low = "ones" -> 2
FormLt(f, g) == IF f.k = "lin" THEN (g.k = "exp" \/ f.s < g.s)
                ELSE g.k = "exp" /\ (f.h < g.h \/ (f.h = g.h /\ (f.m < g.m \/ (f.m = g.m /\ Rank(f.low) < Rank(g.low)))))
ASSUME \A i \in ValIds : \A j \in ValIds : i < j => FormLt(Vals[i], Vals[j])

Atomic == Strategy = "atomic"
Sam == Strategy = "sam"
Key(i) == IF Sam THEN i ELSE Bucket(Vals[i])
Keys == {Key(i) : i \in ValIds}
\* keys in ascending order (bucket indices are ordered like the values they hold)
RECURSIVE AscSeq(_)
AscSeq(S) == IF S = {} THEN <<>> ELSE LET m == CHOOSE x \in S : \A y \in S : x <= y IN <<m>> \o AscSeq(S \ {m})
KeySeq == AscSeq(Keys)

\* the key under which a reported value is recorded again: sort-and-merge reports the value
\* itself; the exponential strategies report Mid(bucket) (times the count)
ReKey(k) == IF Sam THEN k ELSE Bucket(Classify(Mid(k)))

RECURSIVE SumF(_, _)
SumF(f, S) == IF S = {} THEN 0 ELSE LET x == CHOOSE x \in S : TRUE IN f[x] + SumF(f, S \ {x})
Total(f) == SumF(f, DOMAIN f)
Zero == [k \in Keys |-> 0]

\* run-length encoding of a store: the closed observations
RECURSIVE RleFrom(_, _)
RleFrom(f, i) == IF i > Len(KeySeq) THEN <<>>
                 ELSE LET k == KeySeq[i] IN (IF f[k] > 0 THEN << <<k, f[k]>> >> ELSE <<>>) \o RleFrom(f, i + 1)
Rle(f) == RleFrom(f, 1)
RECURSIVE MergeFrom(_, _, _)
MergeFrom(f, obs, i) == IF i > Len(obs) THEN f
                        ELSE MergeFrom([f EXCEPT ![ReKey(obs[i][1])] = @ + obs[i][2]], obs, i + 1)
Merge(f, obs) == MergeFrom(f, obs, 1)
RECURSIVE SumObs(_, _)
SumObs(obs, i) == IF i > Len(obs) THEN 0 ELSE obs[i][2] + SumObs(obs, i + 1)

VARIABLES store,      \* Key -> Nat
          pc,         \* Procs -> number of records done
          recorded,   \* occurrences recorded so far
          snap,       \* partial result of the running drain
          dptr,       \* 0 = no drain running, else index into KeySeq of the next swap
          before,     \* occurrences recorded when the running drain began
          dirty,      \* a record interleaved with the running drain
          out,        \* observations of the last completed drain
          emitted,    \* occurrences in all completed drains
          drains,
          merged      \* result of merging `out` into a fresh histogram of the same strategy

vars == <<store, pc, recorded, snap, dptr, before, dirty, out, emitted, drains, merged>>

Init == /\ store = Zero /\ pc = [p \in Procs |-> 0] /\ recorded = 0 /\ snap = Zero /\ dptr = 0
        /\ before = 0 /\ dirty = FALSE /\ out = <<>> /\ emitted = 0 /\ drains = 0 /\ merged = Zero

Rec(p, i, n) ==
    /\ pc[p] < MaxOps
    /\ Atomic \/ dptr = 0
    /\ store' = [store EXCEPT ![Key(i)] = @ + n]
    /\ pc' = [pc EXCEPT ![p] = @ + 1]
    /\ recorded' = recorded + n
    /\ dirty' = (dirty \/ dptr > 0)
    /\ UNCHANGED <<snap, dptr, before, out, emitted, drains, merged>>

DrainBegin ==
    /\ dptr = 0 /\ drains < MaxDrains
    /\ dptr' = 1 /\ snap' = Zero /\ before' = recorded /\ dirty' = FALSE /\ drains' = drains + 1
    /\ UNCHANGED <<store, pc, recorded, out, emitted, merged>>

DrainStep ==
    /\ dptr >= 1 /\ dptr <= Len(KeySeq)
    /\ LET k == KeySeq[dptr] IN /\ snap' = [snap EXCEPT ![k] = store[k]]
                                /\ store' = [store EXCEPT ![k] = 0]
    /\ dptr' = dptr + 1
    /\ UNCHANGED <<pc, recorded, before, dirty, out, emitted, drains, merged>>

DrainEnd ==
    /\ dptr = Len(KeySeq) + 1
    /\ out' = Rle(snap)
    /\ emitted' = emitted + Total(snap)
    /\ merged' = Merge(Zero, Rle(snap))          \* MergeClosed(out) into a fresh histogram
    /\ dptr' = 0 /\ snap' = Zero
    /\ UNCHANGED <<store, pc, recorded, before, dirty, drains>>

Next == \/ \E p \in Procs, i \in ValIds, n \in Occs : Rec(p, i, n)
        \/ DrainBegin \/ DrainStep \/ DrainEnd
Spec == Init /\ [][Next]_vars
ProcSym == Permutations(Procs)

---------------------------------------------------------------------------
\* nothing recorded is ever lost or counted twice, under every interleaving
Conservation == Total(store) + (IF dptr > 0 THEN Total(snap) ELSE 0) + emitted = recorded
\* a drain that nothing interleaved with (close(self) owns the histogram) reports exactly what
\* was recorded since the previous one, and leaves the histogram empty
Quiescent == (dptr = Len(KeySeq) + 1 /\ ~dirty) => (Total(snap) + emitted = before /\ Total(store) = 0)
\* closed observations: ascending, equal values merged, no empty observation
Ascending == \A i \in 1..Len(out) : out[i][2] > 0 /\ (i > 1 => out[i - 1][1] < out[i][1])
\* re-aggregating a closed histogram into a fresh one of the same strategy changes nothing
FixedPoint == dptr = 0 => Rle(merged) = out
\* ... and for EVERY count: MergeClosed records the closed observation (value Mid(k), n occurrences) as n
\* observations of the value total / n = Mid(k); the key it lands in does not depend on n.  (HistogramTable
\* checks Bucket(Classify(Mid(b))) = b for all 976 buckets.)  The code computes total / n in f64: the conformance
\* check re-aggregates every bucket below scaled 64 - where Mid(b) = Lower(b), so that one ulp less is another
\* bucket - with every count 1..256 and requires the reported values to be exactly unchanged.
FixedPointAnyCount == \A k \in Keys : ReKey(k) = k
TypeOK == /\ store \in [Keys -> Nat] /\ snap \in [Keys -> Nat] /\ dptr \in 0..(Len(KeySeq) + 1)
HInv == TypeOK /\ Conservation /\ Quiescent /\ Ascending /\ FixedPoint /\ FixedPointAnyCount
=============================================================================
