CONSTANTS
  Strategy = "atomic"
  Procs = {p1, p2, p3}
  MaxOps = 2
  Occs = {1, 2}
  MaxDrains = 2
SPECIFICATION Spec
SYMMETRY ProcSym
INVARIANT HInv
CHECK_DEADLOCK FALSE
