---- MODULE Worker_TTrace_1790470879 ----
EXTENDS Sequences, TLCExt, Toolbox, Worker, Naturals, TLC

_expression ==
    LET Worker_TEExpression == INSTANCE Worker_TEExpression
    IN Worker_TEExpression!expression
----

_trace ==
    LET Worker_TETrace == INSTANCE Worker_TETrace
    IN Worker_TETrace!trace
----

_inv ==
    ~(
        TLCGet("level") = Len(_TETrace)
        /\
        acc = (<<>>)
        /\
        ppc = (<<"sent", "idle">>)
        /\
        hist = ([started |-> {11}, ended |-> {}, mseq |-> <<>>, cut |-> 0, emitted |-> {}, need |-> <<>>, fdone |-> {}, batchK |-> {}])
        /\
        why = ("timer")
        /\
        wpc = ("recv")
        /\
        chan = (<<<<"e", 11>>>>)
        /\
        acked = ({})
        /\
        pn = (<<0, 0>>)
    )
----

_init ==
    /\ why = _TETrace[1].why
    /\ ppc = _TETrace[1].ppc
    /\ pn = _TETrace[1].pn
    /\ hist = _TETrace[1].hist
    /\ chan = _TETrace[1].chan
    /\ acc = _TETrace[1].acc
    /\ acked = _TETrace[1].acked
    /\ wpc = _TETrace[1].wpc
----

_next ==
    /\ \E i,j \in DOMAIN _TETrace:
        /\ \/ /\ j = i + 1
              /\ i = TLCGet("level")
        /\ why  = _TETrace[i].why
        /\ why' = _TETrace[j].why
        /\ ppc  = _TETrace[i].ppc
        /\ ppc' = _TETrace[j].ppc
        /\ pn  = _TETrace[i].pn
        /\ pn' = _TETrace[j].pn
        /\ hist  = _TETrace[i].hist
        /\ hist' = _TETrace[j].hist
        /\ chan  = _TETrace[i].chan
        /\ chan' = _TETrace[j].chan
        /\ acc  = _TETrace[i].acc
        /\ acc' = _TETrace[j].acc
        /\ acked  = _TETrace[i].acked
        /\ acked' = _TETrace[j].acked
        /\ wpc  = _TETrace[i].wpc
        /\ wpc' = _TETrace[j].wpc

\* Uncomment the ASSUME below to write the states of the error trace
\* to the given file in Json format. Note that you can pass any tuple
\* to `JsonSerialize`. For example, a sub-sequence of _TETrace.
    \* ASSUME
    \*     LET J == INSTANCE Json
    \*         IN J!JsonSerialize("Worker_TTrace_1790470879.json", _TETrace)

=============================================================================

 Note that you can extract this module `Worker_TEExpression`
  to a dedicated file to reuse `expression` (the module in the 
  dedicated `Worker_TEExpression.tla` file takes precedence 
  over the module `Worker_TEExpression` below).

---- MODULE Worker_TEExpression ----
EXTENDS Sequences, TLCExt, Toolbox, Worker, Naturals, TLC

expression == 
    [
        \* To hide variables of the `Worker` spec from the error trace,
        \* remove the variables below.  The trace will be written in the order
        \* of the fields of this record.
        why |-> why
        ,ppc |-> ppc
        ,pn |-> pn
        ,hist |-> hist
        ,chan |-> chan
        ,acc |-> acc
        ,acked |-> acked
        ,wpc |-> wpc
        
        \* Put additional constant-, state-, and action-level expressions here:
        \* ,_stateNumber |-> _TEPosition
        \* ,_whyUnchanged |-> why = why'
        
        \* Format the `why` variable as Json value.
        \* ,_whyJson |->
        \*     LET J == INSTANCE Json
        \*     IN J!ToJson(why)
        
        \* Lastly, you may build expressions over arbitrary sets of states by
        \* leveraging the _TETrace operator.  For example, this is how to
        \* count the number of times a spec variable changed up to the current
        \* state in the trace.
        \* ,_whyModCount |->
        \*     LET F[s \in DOMAIN _TETrace] ==
        \*         IF s = 1 THEN 0
        \*         ELSE IF _TETrace[s].why # _TETrace[s-1].why
        \*             THEN 1 + F[s-1] ELSE F[s-1]
        \*     IN F[_TEPosition - 1]
    ]

=============================================================================



Parsing and semantic processing can take forever if the trace below is long.
 In this case, it is advised to uncomment the module below to deserialize the
 trace from a generated binary file.

\*
\*---- MODULE Worker_TETrace ----
\*EXTENDS IOUtils, Worker, TLC
\*
\*trace == IODeserialize("Worker_TTrace_1790470879.bin", TRUE)
\*
\*=============================================================================
\*

---- MODULE Worker_TETrace ----
EXTENDS Worker, TLC

trace == 
    <<
    ([acc |-> <<>>,ppc |-> <<"idle", "idle">>,hist |-> [started |-> {}, ended |-> {}, mseq |-> <<>>, cut |-> 0, emitted |-> {}, need |-> <<>>, fdone |-> {}, batchK |-> {}],why |-> "timer",wpc |-> "recv",chan |-> <<>>,acked |-> {},pn |-> <<0, 0>>]),
    ([acc |-> <<>>,ppc |-> <<"send", "idle">>,hist |-> [started |-> {11}, ended |-> {}, mseq |-> <<>>, cut |-> 0, emitted |-> {}, need |-> <<>>, fdone |-> {}, batchK |-> {}],why |-> "timer",wpc |-> "recv",chan |-> <<>>,acked |-> {},pn |-> <<0, 0>>]),
    ([acc |-> <<>>,ppc |-> <<"sent", "idle">>,hist |-> [started |-> {11}, ended |-> {}, mseq |-> <<>>, cut |-> 0, emitted |-> {}, need |-> <<>>, fdone |-> {}, batchK |-> {}],why |-> "timer",wpc |-> "recv",chan |-> <<<<"e", 11>>>>,acked |-> {},pn |-> <<0, 0>>])
    >>
----


=============================================================================

---- CONFIG Worker_TTrace_1790470879 ----
CONSTANTS
    Producers = { 1 , 2 }
    NSend = 1
    NK = 2
    Flushing = { 1 }
    BreakOnDisconnect = TRUE

INVARIANT
    _inv

CHECK_DEADLOCK
    \* CHECK_DEADLOCK off because of PROPERTY or INVARIANT above.
    FALSE

INIT
    _init

NEXT
    _next

CONSTANT
    _TETrace <- _trace

ALIAS
    _expression
=============================================================================
\* Generated on Sun Sep 27 01:01:20 UTC 2026