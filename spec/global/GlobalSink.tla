---------------------------- MODULE GlobalSink ----------------------------
(***************************************************************************)
(* C17 - routing of a `global_entry_sink!` global                          *)
(* (metrique-writer-core/src/global.rs).                                   *)
(*                                                                         *)
(* One global has three independently scoped overrides:                    *)
(*   tl[t]  thread-local test sink of thread t        (set_test_sink)      *)
(*   rt[r]  test sink of tokio runtime r (set_test_sink_for_tokio_runtime, *)
(*          set_test_sink_on_current_tokio_runtime)                        *)
(*   att    the attached sink (attach / AttachHandle drop / forget)        *)
(* A sink is a positive integer (the k-th sink ever handed to an install   *)
(* operation of this behaviour), 0 is "none".  A caller is a pair (t, c):  *)
(* thread t running in context c, c = 0 outside any runtime, c = r inside  *)
(* runtime r.                                                              *)
(*                                                                         *)
(* PROPERTY LAYER (what properties.jsonl/C17 says, nothing else):          *)
(*   Dest(t,c)      first of <<tl[t], rt[c], att>> that is not none        *)
(*   Routed         an append by (t,c) adds the entry to Dest(t,c) and to  *)
(*                  no other sink; with Dest = none try_append hands the   *)
(*                  entry back, append / sink() panic                      *)
(*   ExactlyOne     every entry is in exactly one place, once              *)
(*   PanicUnchanged a panicking operation changes nothing                  *)
(*   NeverPoisoned  ... and the next operation behaves normally            *)
(*   FallsBack      dropping a guard / the handle makes Dest the next in   *)
(*                  order                                                  *)
(*   DetachFlushes  when the handle drop returns, everything the detached  *)
(*                  sink had accepted has been delivered and flushed       *)
(*                                                                         *)
(* IMPLEMENTATION-SHAPED LAYER: Lookup mirrors get_test_sink()/try_sink(); *)
(* the attached sink may be asynchronous (a BackgroundQueue): it accepts   *)
(* into pend[s] and a writer delivers to recv[s] at any later time;        *)
(* detaching drops (sink, join handle) while the write lock is held, which *)
(* is the queue's drain-flush-close.  The lock-level interleavings of      *)
(* try_append against attach/detach are in GlobalSinkRace.tla.             *)
(***************************************************************************)
EXTENDS Naturals, Sequences, FiniteSets, TLC

CONSTANTS Threads,     \* e.g. {1, 2}
          Runtimes,    \* e.g. {1, 2}
          MaxSinks,    \* sinks handed to install operations per behaviour
          MaxEntries   \* entries appended per behaviour

VARIABLES
    att,      \* attached sink (0 = none)
    hs,       \* attach handle: "none" | "held" | "forgotten"
    tl,       \* thread -> thread-local test sink
    rt,       \* runtime -> runtime test sink
    asyncs,   \* sinks that deliver asynchronously (background queues)
    pend,     \* sink -> entries accepted, not yet delivered
    recv,     \* sink -> entries delivered to the sink's output
    closed,   \* sinks whose output has been flushed and closed (detached queues)
    back,     \* entries handed back by try_append
    gone,     \* entries consumed by a panicking append (no destination)
    nsink,    \* sinks created so far
    nent,     \* entries created so far
    poisoned, \* the global's lock was poisoned by a panic (never, in this model)
    last      \* the operation that produced this state (for the action properties)

vars == <<att, hs, tl, rt, asyncs, pend, recv, closed, back, gone, nsink, nent, poisoned, last>>
route == <<att, hs, tl, rt>>                          \* the routing state
data == <<asyncs, pend, recv, closed, back, gone>>    \* where entries are

Sinks == 1..MaxSinks
Ctx == {0} \cup Runtimes
Range(s) == {s[i] : i \in 1..Len(s)}

\* ---------------------------------------------------------------- property layer
RtOf(c) == IF c = 0 THEN 0 ELSE rt[c]
Order(t, c) == <<tl[t], RtOf(c), att>>
FirstOf(seq) == IF \E i \in 1..Len(seq) : seq[i] # 0
                  THEN seq[CHOOSE i \in 1..Len(seq) : seq[i] # 0 /\ \A j \in 1..(i - 1) : seq[j] = 0]
                  ELSE 0
Dest(t, c) == FirstOf(Order(t, c))
Got(s) == recv[s] \o pend[s]         \* everything sink s has accepted, in order

\* ---------------------------------------------------------------- implementation-shaped
\* get_test_sink(): thread-local first, then the current runtime's entry; then SINK.read()
Lookup(t, c) == IF tl[t] # 0 THEN tl[t]
                ELSE IF c # 0 /\ rt[c] # 0 THEN rt[c]
                ELSE att

Init ==
    /\ att = 0 /\ hs = "none"
    /\ tl = [t \in Threads |-> 0] /\ rt = [r \in Runtimes |-> 0]
    /\ asyncs = {} /\ pend = [s \in Sinks |-> <<>>] /\ recv = [s \in Sinks |-> <<>>] /\ closed = {}
    /\ back = {} /\ gone = {} /\ nsink = 0 /\ nent = 0 /\ poisoned = FALSE
    /\ last = [op |-> "Init", out |-> "ok", t |-> 0, c |-> 0, e |-> 0, s |-> 0]

L(op, out, t, c, e, s) == last' = [op |-> op, out |-> out, t |-> t, c |-> c, e |-> e, s |-> s]

\* every install operation consumes the sink it is given, also when it panics
NewSink == nsink + 1

\* attach((sink, handle)): panics when a sink is attached (held or forgotten) - after releasing
\* the write lock, so nothing is poisoned; the rejected sink is dropped
Attach(isAsync) ==
    /\ nsink < MaxSinks /\ nsink' = NewSink
    /\ IF att # 0
         THEN /\ L("Attach", "panic", 0, 0, 0, NewSink)
              /\ UNCHANGED <<route, data, nent, poisoned>>
         ELSE /\ att' = NewSink /\ hs' = "held"
              /\ asyncs' = IF isAsync THEN asyncs \cup {NewSink} ELSE asyncs
              /\ L("Attach", "ok", 0, 0, 0, NewSink)
              /\ UNCHANGED <<tl, rt, pend, recv, closed, back, gone, nent, poisoned>>

\* drop(AttachHandle): SINK.write().take() and the (sink, join handle) pair is dropped while the
\* write lock is held: a background queue drains, flushes and closes its stream before the
\* drop returns
DropHandle ==
    /\ hs = "held"
    /\ att' = 0 /\ hs' = "none"
    /\ recv' = [recv EXCEPT ![att] = recv[att] \o pend[att]]
    /\ pend' = [pend EXCEPT ![att] = <<>>]
    /\ closed' = closed \cup {att}
    /\ L("DropHandle", "ok", 0, 0, 0, att)
    /\ UNCHANGED <<tl, rt, asyncs, back, gone, nsink, nent, poisoned>>

Forget ==
    /\ hs = "held" /\ hs' = "forgotten"
    /\ L("Forget", "ok", 0, 0, 0, att)
    /\ UNCHANGED <<att, tl, rt, data, nsink, nent, poisoned>>

SetTL(t) ==
    /\ nsink < MaxSinks /\ nsink' = NewSink
    /\ IF tl[t] # 0
         THEN /\ L("SetTL", "panic", t, 0, 0, NewSink)
              /\ UNCHANGED <<route, data, nent, poisoned>>
         ELSE /\ tl' = [tl EXCEPT ![t] = NewSink]
              /\ L("SetTL", "ok", t, 0, 0, NewSink)
              /\ UNCHANGED <<att, hs, rt, data, nent, poisoned>>

DropTL(t) ==
    /\ tl[t] # 0
    /\ tl' = [tl EXCEPT ![t] = 0]
    /\ L("DropTL", "ok", t, 0, 0, tl[t])
    /\ UNCHANGED <<att, hs, rt, data, nsink, nent, poisoned>>

\* set_test_sink_for_tokio_runtime(handle of r, sink), callable from anywhere
SetRTFor(r) ==
    /\ nsink < MaxSinks /\ nsink' = NewSink
    /\ IF rt[r] # 0
         THEN /\ L("SetRTFor", "panic", 0, r, 0, NewSink)
              /\ UNCHANGED <<route, data, nent, poisoned>>
         ELSE /\ rt' = [rt EXCEPT ![r] = NewSink]
              /\ L("SetRTFor", "ok", 0, r, 0, NewSink)
              /\ UNCHANGED <<att, hs, tl, data, nent, poisoned>>

\* set_test_sink_on_current_tokio_runtime(sink): Handle::current() panics outside a runtime
SetRTCur(c) ==
    /\ nsink < MaxSinks /\ nsink' = NewSink
    /\ IF c = 0 \/ rt[c] # 0
         THEN /\ L("SetRTCur", "panic", 0, c, 0, NewSink)
              /\ UNCHANGED <<route, data, nent, poisoned>>
         ELSE /\ rt' = [rt EXCEPT ![c] = NewSink]
              /\ L("SetRTCur", "ok", 0, c, 0, NewSink)
              /\ UNCHANGED <<att, hs, tl, data, nent, poisoned>>

DropRT(r) ==
    /\ rt[r] # 0
    /\ rt' = [rt EXCEPT ![r] = 0]
    /\ L("DropRT", "ok", 0, r, 0, rt[r])
    /\ UNCHANGED <<att, hs, tl, data, nsink, nent, poisoned>>

\* a sink accepts an entry: synchronous sinks deliver at once, a queue later (Deliver)
Accept(s, e) ==
    IF s \in asyncs
      THEN pend' = [pend EXCEPT ![s] = Append(pend[s], e)] /\ UNCHANGED recv
      ELSE recv' = [recv EXCEPT ![s] = Append(recv[s], e)] /\ UNCHANGED pend

\* try_append(entry) -> Result<(), E>
TryAppend(t, c) ==
    /\ nent < MaxEntries /\ nent' = nent + 1
    /\ LET d == Lookup(t, c) e == nent + 1 IN
         IF d # 0
           THEN /\ Accept(d, e) /\ L("TryAppend", "ok", t, c, e, d)
                /\ UNCHANGED <<route, asyncs, closed, back, gone, nsink, poisoned>>
           ELSE /\ back' = back \cup {e} /\ L("TryAppend", "back", t, c, e, 0)
                /\ UNCHANGED <<route, asyncs, pend, recv, closed, gone, nsink, poisoned>>

\* append(entry): panics without a destination (the entry is consumed by the panic)
AppendOp(t, c) ==
    /\ nent < MaxEntries /\ nent' = nent + 1
    /\ LET d == Lookup(t, c) e == nent + 1 IN
         IF d # 0
           THEN /\ Accept(d, e) /\ L("Append", "ok", t, c, e, d)
                /\ UNCHANGED <<route, asyncs, closed, back, gone, nsink, poisoned>>
           ELSE /\ gone' = gone \cup {e} /\ L("Append", "panic", t, c, e, 0)
                /\ UNCHANGED <<route, asyncs, pend, recv, closed, back, nsink, poisoned>>

\* sink() -> BoxEntrySink (panics without a destination), then one append through the clone
SinkAppend(t, c) ==
    /\ nent < MaxEntries /\ nent' = nent + 1
    /\ LET d == Lookup(t, c) e == nent + 1 IN
         IF d # 0
           THEN /\ Accept(d, e) /\ L("Sink", "ok", t, c, e, d)
                /\ UNCHANGED <<route, asyncs, closed, back, gone, nsink, poisoned>>
           ELSE /\ gone' = gone \cup {e} /\ L("Sink", "panic", t, c, e, 0)
                /\ UNCHANGED <<route, asyncs, pend, recv, closed, back, nsink, poisoned>>

\* the writer thread of an attached queue hands its oldest entry to the stream
Deliver(s) ==
    /\ s \in asyncs /\ pend[s] # <<>> /\ s \notin closed
    /\ recv' = [recv EXCEPT ![s] = Append(recv[s], Head(pend[s]))]
    /\ pend' = [pend EXCEPT ![s] = Tail(pend[s])]
    /\ L("Deliver", "ok", 0, 0, Head(pend[s]), s)
    /\ UNCHANGED <<route, asyncs, closed, back, gone, nsink, nent, poisoned>>

RouteOp ==
    \/ \E a \in BOOLEAN : Attach(a)
    \/ DropHandle \/ Forget
    \/ \E t \in Threads : SetTL(t) \/ DropTL(t)
    \/ \E r \in Runtimes : SetRTFor(r) \/ DropRT(r)
    \/ \E c \in Ctx : SetRTCur(c)

AppendAny == \E t \in Threads, c \in Ctx : TryAppend(t, c) \/ AppendOp(t, c) \/ SinkAppend(t, c)

Next == RouteOp \/ AppendAny \/ \E s \in Sinks : Deliver(s)

Spec == Init /\ [][Next]_vars

\* ---------------------------------------------------------------- invariants
TypeOK ==
    /\ att \in 0..MaxSinks /\ hs \in {"none", "held", "forgotten"}
    /\ tl \in [Threads -> 0..MaxSinks] /\ rt \in [Runtimes -> 0..MaxSinks]
    /\ asyncs \subseteq Sinks /\ closed \subseteq Sinks
    /\ nsink \in 0..MaxSinks /\ nent \in 0..MaxEntries
    /\ (att = 0) = (hs = "none")

Places(e) == Cardinality({s \in Sinks : e \in Range(Got(s))})
             + (IF e \in back THEN 1 ELSE 0) + (IF e \in gone THEN 1 ELSE 0)
NoDup(s) == \A i, j \in 1..Len(Got(s)) : Got(s)[i] = Got(s)[j] => i = j
ExactlyOne == /\ \A e \in 1..nent : Places(e) = 1
              /\ \A s \in Sinks : NoDup(s)

\* a sink is installed in at most one slot; a detached sink has nothing undelivered
SlotsDisjoint ==
    /\ \A t \in Threads : tl[t] # 0 => tl[t] # att /\ \A r \in Runtimes : rt[r] # tl[t]
    /\ \A r \in Runtimes : rt[r] # 0 => rt[r] # att
    /\ \A t1, t2 \in Threads : t1 # t2 /\ tl[t1] # 0 => tl[t1] # tl[t2]
    /\ \A r1, r2 \in Runtimes : r1 # r2 /\ rt[r1] # 0 => rt[r1] # rt[r2]
ClosedIsFlushed == \A s \in closed : pend[s] = <<>> /\ s # att
NeverPoisoned == ~poisoned
LookupIsDest == \A t \in Threads, c \in Ctx : Lookup(t, c) = Dest(t, c)

Inv == TypeOK /\ ExactlyOne /\ SlotsDisjoint /\ ClosedIsFlushed /\ NeverPoisoned /\ LookupIsDest

\* ---------------------------------------------------------------- action properties
AppendOps == {"TryAppend", "Append", "Sink"}
GotP(s) == recv'[s] \o pend'[s]                      \* Got in the next state
OrderP(t, c) == <<tl'[t], IF c = 0 THEN 0 ELSE rt'[c], att'>>
DestP(t, c) == FirstOf(OrderP(t, c))                 \* Dest in the next state

\* the entry goes to Dest (evaluated where the operation took effect) and nowhere else
Routed ==
    [][ last'.op \in AppendOps /\ nent' = nent + 1 =>
          LET d == Dest(last'.t, last'.c) e == last'.e IN
            /\ d # 0 => /\ GotP(d) = Append(Got(d), e)
                        /\ \A s \in Sinks \ {d} : GotP(s) = Got(s)
                        /\ last'.out = "ok" /\ back' = back /\ gone' = gone
            /\ d = 0 => /\ \A s \in Sinks : GotP(s) = Got(s)
                        /\ IF last'.op = "TryAppend"
                             THEN last'.out = "back" /\ back' = back \cup {e} /\ gone' = gone
                             ELSE last'.out = "panic" /\ gone' = gone \cup {e} /\ back' = back
      ]_vars

PanicUnchanged ==
    [][ last'.out = "panic" => UNCHANGED <<route, asyncs, pend, recv, closed, back, poisoned>> ]_vars

\* dropping a guard or the handle: the caller's destination becomes the next in order, nobody
\* else's routing changes
FallsBack ==
    [][ /\ (last'.op = "DropTL" /\ nsink' = nsink /\ tl' # tl =>
              \A t \in Threads, c \in Ctx :
                 DestP(t, c) = IF t = last'.t THEN FirstOf(<<RtOf(c), att>>) ELSE Dest(t, c))
        /\ (last'.op = "DropRT" /\ rt' # rt =>
              \A t \in Threads, c \in Ctx :
                 DestP(t, c) = IF c = last'.c THEN FirstOf(<<tl[t], att>>) ELSE Dest(t, c))
        /\ (last'.op = "DropHandle" /\ att' # att =>
              \A t \in Threads, c \in Ctx : DestP(t, c) = FirstOf(<<tl[t], RtOf(c)>>))
      ]_vars

\* "after flushing what the detached sink had accepted"
DetachFlushes ==
    [][ last'.op = "DropHandle" /\ att' # att =>
          /\ recv'[att] = Got(att) /\ pend'[att] = <<>> /\ att \in closed' ]_vars

Bound == nsink <= MaxSinks /\ nent <= MaxEntries
=============================================================================
