"""X03: the entry-definition surface beyond #[metrics] (extension of the specification, DESIGN.md section 8/10).

(a) spec/entryderive/EntryDerive.tla      the writer-side `#[derive(Entry)]` as a type-tree builder machine: TLC enumerates
    spec/entryderive/EntryDeriveReplay.tla finished trees (exhaustively within small bounds, by -simulate beyond) with the
    spec/entryderive/EntryDeriveNeg.tla    ordered EntryWriter calls and sample-group pairs the documented expansion
    tools/gen_entryderive.py               produces; the trees become Rust programs using the real derive
    harness-entry/                         (compiled against the working tree); rejected definitions must fail to compile
                                           with the documented diagnostic
(c) spec/instrument/Instrument.tla(+Replay)  Instrumented / instrument_async / on_error / on_success / emit / into_parts /
                                           split_metrics_to over poll / complete / drop histories: entries emitted exactly
                                           once at the documented moment; replayed on real futures (harness/src/bin/flexi.rs)
(b) spec/flex/Flex.tla(+Replay)            Flex dynamic fields: create / with_* / set / clear / close under the surrounding
                                           #[metrics] configurations; exactly the documented item or none, close exactly once
"""
import collections, json, os, re, shutil, subprocess, sys, time
from concurrent.futures import ThreadPoolExecutor
import vlib
from vlib import log

sys.path.insert(0, os.path.join(vlib.VERIF, "tools"))
import gen_entryderive as ge

SPEC_ED = os.path.join(vlib.SPEC, "entryderive")
SPEC_IN = os.path.join(vlib.SPEC, "instrument")
SPEC_FX = os.path.join(vlib.SPEC, "flex")
DEFAULT_CRATE = os.path.join(vlib.VERIF, "harness-entry")

RAS = ["none", "lowercase", "UPPERCASE", "PascalCase", "camelCase", "snake_case", "SCREAMING_SNAKE_CASE", "kebab-case",
       "SCREAMING-KEBAB-CASE"]
FORMS = ["s_named", "s_tuple", "s_unit", "e1_named", "e1_tuple", "e3_named", "e3_tuple", "e3_unit"]
EDGES = ["plain", "some", "none", "box"]
VALUE_KINDS = ["u64", "str", "sg", "fmt", "optnone", "optsome"]
LEAF_KINDS = VALUE_KINDS + [k + "@" for k in VALUE_KINDS] + ["ignore", "ts"]

BUDGET = {
    "quick": {"small_total": 3, "small_bind": 1800, "sim_walks": 4000, "sim_bind": 1800, "chain_walks": 800, "chain_bind": 300,
              "bins": 12, "neg": True,
              "instr_depth": 7, "flex_depth": 5},
    "thorough": {"small_total": 4, "small_bind": 20000, "sim_walks": 12000, "sim_bind": 20000, "chain_walks": 2000,
                 "chain_bind": 3000, "bins": 32, "neg": True,
                 "instr_depth": 9, "flex_depth": 7},
}


def tla_set(xs):
    return "{" + ", ".join('"%s"' % x for x in sorted(xs)) + "}"


# --------------------------------------------------------------------------------------------
# (a) the crate the generated programs live in (same scheme as checks/chk_naming.py)
# --------------------------------------------------------------------------------------------
def crate_layout():
    harness = os.path.realpath(vlib.HARNESS)
    with open(os.path.join(harness, "Cargo.toml")) as f:
        htoml = f.read()
    m = re.search(r'metrique = \{ path = "([^"]+)/metrique"', htoml)
    if not m:
        raise vlib.ToolError("cannot find the metrique path dependency in the harness Cargo.toml")
    hrepo = m.group(1)
    repo = os.environ.get("VERIF_REPO", hrepo).rstrip("/")
    default = harness == os.path.realpath(os.path.join(vlib.VERIF, "harness")) and repo == hrepo
    if os.environ.get("VERIF_ENTRY_HARNESS"):
        crate = os.environ["VERIF_ENTRY_HARNESS"]
    elif default:
        crate = DEFAULT_CRATE
    elif repo == hrepo:
        crate = harness + "-entry"
    else:
        crate = os.path.join(os.path.dirname(repo), "he-" + os.path.basename(repo))
    target = os.path.relpath(os.path.join(harness, "target"), crate) if repo == hrepo else "target"
    return crate, repo, hrepo, htoml, target


def ensure_crate():
    crate, repo, hrepo, htoml, target = crate_layout()
    deps = htoml[htoml.index("[workspace]"):].replace(hrepo + "/", repo + "/")
    toml = ('[package]\nname = "vharness-entry"\nversion = "0.0.0"\nedition = "2024"\npublish = false\n'
            'autobins = true\n\n# dependencies and profile are those of harness/Cargo.toml so that the compiled dependency\n'
            '# tree in the shared target directory is reused (kept in sync by checks/chk_x_entryderive.py)\n' + deps
            # the generated programs themselves are compiled without optimisation (3x faster; the dependencies keep
            # the shared profile)
            + '\n[profile.dev.package.vharness-entry]\nopt-level = 0\n')
    cfg = ('[net]\noffline = true\n[build]\ntarget-dir = "%s"\n'
           'rustflags = ["--cfg", "metrique_verif", "--check-cfg", "cfg(metrique_verif)"]\n' % target)
    os.makedirs(os.path.join(crate, ".cargo"), exist_ok=True)
    os.makedirs(os.path.join(crate, "src", "bin"), exist_ok=True)

    def put(path, text):
        old = None
        if os.path.exists(path):
            with open(path) as f:
                old = f.read()
        if old != text:
            with open(path, "w") as f:
                f.write(text)
            return True
        return False

    changed = put(os.path.join(crate, "Cargo.toml"), toml)
    put(os.path.join(crate, ".cargo", "config.toml"), cfg)
    lock = os.path.join(crate, "Cargo.lock")
    if changed or not os.path.exists(lock):
        shutil.copyfile(os.path.join(os.path.realpath(vlib.HARNESS), "Cargo.lock"), lock)
    if os.path.realpath(crate) != os.path.realpath(DEFAULT_CRATE):
        shutil.copyfile(os.path.join(DEFAULT_CRATE, "src", "lib.rs"), os.path.join(crate, "src", "lib.rs"))
    tdir = os.path.normpath(os.path.join(crate, target))
    return crate, repo, tdir


def cargo(crate, bins, keep_going=False, json_messages=False):
    cmd = ["cargo", "build", "--offline", "--quiet"]
    if keep_going:
        cmd.append("--keep-going")
    if json_messages:
        cmd.append("--message-format=json")
    for b in bins:
        cmd += ["--bin", b]
    env = dict(os.environ, CARGO_NET_OFFLINE="true", CARGO_INCREMENTAL="0")
    t = time.time()
    p = subprocess.run(cmd, cwd=crate, env=env, stdout=subprocess.PIPE, stderr=subprocess.PIPE if json_messages else subprocess.STDOUT,
                       text=True)
    return p, time.time() - t


def run_exe(tdir, name):
    exe = os.path.join(tdir, "debug", name)
    try:
        p = subprocess.run([exe], stdout=subprocess.PIPE, stderr=subprocess.PIPE, text=True, timeout=600,
                           env=dict(os.environ, RUST_BACKTRACE="0"))
    except subprocess.TimeoutExpired:
        raise vlib.ToolError(f"{name} timed out")
    if p.returncode != 0:
        sys.stdout.write(p.stderr[-3000:])
        raise vlib.ToolError(f"{name} exited {p.returncode}")
    return {o["id"]: o for o in (json.loads(l) for l in p.stdout.splitlines() if l.strip())}


# --------------------------------------------------------------------------------------------
# (a) TLC: model checking + behaviour families
# --------------------------------------------------------------------------------------------
def write_cfg(chk, name, consts, header, spec="Spec", inv="Emit"):
    lines = ["\\* generated by checks/chk_x_entryderive.py (seed %d): %s" % (chk.seed, header), "CONSTANTS"]
    for k, v in consts.items():
        lines.append(f"  {k} = {v}")
    lines += [f"SPECIFICATION {spec}", f"INVARIANT {inv}", "CHECK_DEADLOCK FALSE", ""]
    path = os.path.join(chk.dir, name)
    with open(path, "w") as f:
        f.write("\n".join(lines))
    return path


def ed_families(chk, tier):
    """-> list of (family, cfg path, simulate walks or None, depth)"""
    b = BUDGET[tier]
    rng = chk.rng
    fams = []
    # names: every container form x rename_all x variant rename_all, each holding every leaf kind once (seeded order)
    names = {"MaxDepth": 1, "MaxFields": 14, "MaxTotal": 14, "Styles": tla_set(RAS), "VStyles": tla_set(RAS[1:] + ["inherit"]),
             "Kinds": tla_set(LEAF_KINDS), "Forms": tla_set(FORMS), "Edges": "{}", "ScriptKinds": tla_set(LEAF_KINDS),
             "ScriptRot": rng.randrange(14), "ScriptRev": "TRUE" if rng.random() < 0.5 else "FALSE"}
    fams.append(("names", write_cfg(chk, "MC_ed_names.cfg", names, "names family (exhaustive)"), None, None))
    # small trees, exhaustive over a seeded cross-section of the attribute domains
    kinds = {"ts", rng.choice(["sg", "sg@"])} | set(rng.sample(LEAF_KINDS, 3))
    forms = {"s_named", rng.choice(["s_tuple", "e1_tuple", "e3_tuple"]), rng.choice(["e1_named", "e3_named"])}
    small = {"MaxDepth": 3, "MaxFields": 3, "MaxTotal": b["small_total"], "Styles": tla_set(rng.sample(RAS, 1)),
             "VStyles": tla_set(["inherit", rng.choice(RAS[1:])]), "Kinds": tla_set(kinds), "Forms": tla_set(forms),
             "Edges": tla_set({"plain", rng.choice(EDGES[1:])}), "ScriptKinds": "{}", "ScriptRot": 0, "ScriptRev": "FALSE"}
    fams.append(("small", write_cfg(chk, "MC_ed_small.cfg", small, "small trees (exhaustive)"), None, None))
    # large trees by random walks
    sim = {"MaxDepth": 4, "MaxFields": 6, "MaxTotal": 14, "Styles": tla_set(rng.sample(RAS, 3)),
           "VStyles": tla_set(["inherit"] + rng.sample(RAS[1:], 2)), "Kinds": tla_set(LEAF_KINDS),
           "Forms": tla_set(rng.sample(FORMS, 5) + ["s_named"]), "Edges": tla_set(EDGES), "ScriptKinds": "{}",
           "ScriptRot": 0, "ScriptRev": "FALSE"}
    fams.append(("sim", write_cfg(chk, "MC_ed_sim.cfg", sim, "large trees (-simulate)"), b["sim_walks"], 60))
    # long sample-group chains (the derive chains the iterators as a balanced binary tree)
    chain = {"MaxDepth": 2, "MaxFields": 13, "MaxTotal": 18, "Styles": tla_set(rng.sample(RAS, 2)),
             "VStyles": tla_set(["inherit"]), "Kinds": tla_set(["sg", "sg@", "u64"]),
             "Forms": tla_set(["s_named", "e3_named"]), "Edges": tla_set(["plain", "some"]), "ScriptKinds": "{}",
             "ScriptRot": 0, "ScriptRev": "FALSE"}
    fams.append(("chain", write_cfg(chk, "MC_ed_chain.cfg", chain, "sample-group chains (-simulate)"), b["chain_walks"], 60))
    chk.extra["ed_bounds"] = {"names": names, "small": small, "sim": sim, "chain": chain}
    return fams


def fast_replay_lines(out, tag="REPLAY"):
    """PrintT(<<"REPLAY", ToJson(x)>>) lines -> python objects (a TLA+ string literal escapes like JSON does)"""
    pre = '<<"%s", ' % tag
    res = []
    for l in out.splitlines():
        if l.startswith(pre) and l.endswith(">>"):
            res.append(json.loads(json.loads(l[len(pre):-2])))
    return res


def ed_tlc(chk, tier):
    """-> {family: [line, ..]}"""
    cache = os.path.join(vlib.RUNS, "_x03_tlc", f"ed-{tier}-{chk.seed}.json")
    if os.environ.get("VERIF_X03_REUSE_TLC") and os.path.exists(cache):
        with open(cache) as f:
            c = json.load(f)
        chk.models += c["models"]
        chk.states += c["states"]
        chk.transitions += c["transitions"]
        chk.extra["ed_bounds"] = c["bounds"]
        chk.extra["ed_tlc_reused"] = True
        return c["out"]
    m0, s0, t0 = len(chk.models), chk.states, chk.transitions
    if not vlib.SKIP_MC:
        r = vlib.model_check(SPEC_ED, "EntryDerive", "MC_ed.cfg", timeout=1200)
        chk.add_model("EntryDerive/MC_ed.cfg", r)
        for a in ("RootAny", "FieldAny", "OpenAny", "Close", "Finish"):
            if not r.coverage.get(a):
                raise vlib.ToolError(f"vacuity: action {a} of EntryDerive.tla is never taken in MC_ed.cfg")
    out = {}
    for fam, cfg, walks, depth in ed_families(chk, tier):
        # (-simulate is only reproducible for a given seed with one worker)
        r = vlib.tlc(SPEC_ED, "EntryDeriveReplay", cfg, timeout=1800, simulate=walks, depth=depth,
                     seed=chk.seed if walks else None, workers=1 if walks else None)
        if r.errors or (not walks and not r.no_error):
            sys.stdout.write(r.out[-3000:])
            raise vlib.ToolError(f"EntryDeriveReplay/{fam} failed: {r.errors[:2]}")
        lines = fast_replay_lines(r.out)
        r.out = ""
        if walks:
            # a walk is a behaviour, not a state
            seen = set()
            uniq = []
            for l in lines:
                k = json.dumps(l["toks"], sort_keys=True)
                if k not in seen:
                    seen.add(k)
                    uniq.append(l)
            lines = uniq
        chk.add_model(f"EntryDeriveReplay/{fam}" + (f" (-simulate num={walks})" if walks else ""), r)
        log(f"[tlc] EntryDeriveReplay/{fam}: {len(lines)} finished trees ({r.distinct} states) in {r.wall:.1f}s")
        if not lines:
            raise vlib.ToolError(f"EntryDeriveReplay/{fam} printed no behaviours")
        out[fam] = lines
    if os.environ.get("VERIF_X03_REUSE_TLC"):
        os.makedirs(os.path.dirname(cache), exist_ok=True)
        with open(cache, "w") as f:
            json.dump({"models": chk.models[m0:], "states": chk.states - s0, "transitions": chk.transitions - t0,
                       "bounds": chk.extra["ed_bounds"], "out": out}, f)
    return out


# --------------------------------------------------------------------------------------------
# (a) comparison
# --------------------------------------------------------------------------------------------
def seq(x):
    """ToJson of an empty sequence may come back as [] or {}"""
    return list(x) if isinstance(x, list) else ([] if not x else [x[k] for k in sorted(x, key=int)])


class EdComparer:
    def __init__(self, chk):
        self.chk = chk
        self.by_key = collections.Counter()
        self.items = 0
        self.pairs = 0
        self.instances = 0
        self.feat = collections.Counter()
        self.sg_order_drift = 0

    def report(self, aspect, what, fam, bid, line, got):
        key = f"X03:derive:{aspect}"
        self.by_key[key] += 1
        if self.by_key[key] > 2:
            return
        self.chk.violation(f"#[derive(Entry)] {what} [family {fam}, behaviour {bid}]",
                           {"kind": "entryderive", "family": fam, "toks": line["toks"], "expected_items": line["items"],
                            "expected_sg": line["sg"], "got": got}, key=key)

    def compare(self, fam, bid, line, got):
        self.instances += 1
        toks = line["toks"]
        for t in toks:
            if t["t"] == "F":
                self.feat["kind:" + t["k"]] += 1
            elif t["t"] == "O":
                self.feat["edge:" + t["edge"]] += 1
                self.feat["form:" + t["form"]] += 1
            elif t["t"] == "C":
                self.feat["form:" + t["form"]] += 1
        exp = [(i["n"], i["k"], i["v"]) for i in seq(line["items"])]
        esg = [(p["k"], p["v"]) for p in seq(line["sg"])]
        self.items += len(exp)
        self.pairs += len(esg)
        if len(esg) >= 9:
            self.feat["sg_chain>=9"] += 1
        if got is None:
            raise vlib.ToolError(f"no output for behaviour {bid}")
        if "panic" in got:
            self.report("panic", f"the program panicked while writing the entry: {got['panic']}", fam, bid, line, got)
            return
        gi = [tuple(x) for x in got["items"]]
        gs = [tuple(x) for x in got["sg"]]
        if gi != exp:
            ec, gc = collections.Counter(exp), collections.Counter(gi)
            missing = list((ec - gc).elements())
            extra = list((gc - ec).elements())
            if not missing and not extra:
                self.report("order", f"items are written in a different order than the fields are declared: expected {exp}, got {gi}",
                            fam, bid, line, got)
            used = set()
            for it in missing:
                # the emitted item of the same field: same kind + value (values are the depth-first field indices)
                cand = [j for j, e in enumerate(extra) if j not in used and e[1:] == it[1:]]
                if not cand:
                    cand = [j for j, e in enumerate(extra) if j not in used and e[0] == it[0] and e[0]]
                if cand:
                    e = extra[cand[0]]
                    used.add(cand[0])
                    if e[0] != it[0]:
                        self.report("name", f"a field is written under the name {e[0]!r}, the documented name is {it[0]!r}", fam, bid, line, got)
                    elif e[1] != it[1]:
                        self.report("kind", f"item {it[0]!r} is written as {e[1]}, expected {it[1]}", fam, bid, line, got)
                    else:
                        self.report("value", f"item {it[0]!r} has value {e[2]!r}, expected {it[2]!r}", fam, bid, line, got)
                elif it[1] == "timestamp":
                    self.report("timestamp-missing", f"the #[entry(timestamp)] field (t={it[2]}) did not reach EntryWriter::timestamp", fam, bid, line, got)
                else:
                    self.report("missing", f"no item for a present field: expected {it!r}", fam, bid, line, got)
            for j, e in enumerate(extra):
                if j in used:
                    continue
                if e[1] == "timestamp":
                    self.report("timestamp-extra", f"EntryWriter::timestamp is called more often than there are timestamp fields (t={e[2]})", fam, bid, line, got)
                else:
                    self.report("extra", f"an item is written that no field accounts for (ignored / absent field, absent child?): {e!r}", fam, bid, line, got)
        if gs != esg:
            ec, gc = collections.Counter(esg), collections.Counter(gs)
            missing = list((ec - gc).elements())
            extra = list((gc - ec).elements())
            if not missing and not extra:
                # "The order of (key, value) pairs in the group doesn't matter"
                self.sg_order_drift += 1
                if len(self.chk.drift) < 10:
                    self.chk.drift.append({"behaviour": bid, "what": "sample_group() pairs come in a different order than declared",
                                           "expected": esg, "got": gs})
            for p in missing:
                self.report("sg-missing", f"sample_group() lacks the pair {p!r} (got {gs})", fam, bid, line, got)
            for p in extra:
                self.report("sg-extra", f"sample_group() has the unexpected pair {p!r}", fam, bid, line, got)
        # the value() call of an absent Option is made (and writes nothing): only drift if it is not
        nsilent = sum(1 for t in toks if t["t"] == "F" and t["k"].startswith("optnone"))
        if len(got.get("silent", [])) != nsilent and len(self.chk.drift) < 10:
            self.chk.drift.append({"behaviour": bid, "what": "number of value() calls that wrote nothing differs from the number of None fields",
                                   "expected": nsilent, "got": got.get("silent")})


def ed_select(fams, tier, rng):
    b = BUDGET[tier]
    sel = []
    for fam, lines in fams.items():
        idx = list(range(len(lines)))
        if fam == "small" and len(idx) > b["small_bind"]:
            # every tree with <= 2 fields, a seeded sample of the rest
            short = [i for i in idx if sum(1 for t in lines[i]["toks"] if t["t"] in ("F", "O")) <= 2]
            sset = set(short)
            rest = [i for i in idx if i not in sset]
            if len(short) > b["small_bind"] // 2:
                short = rng.sample(short, b["small_bind"] // 2)
            idx = short + rng.sample(rest, min(len(rest), b["small_bind"] - len(short)))
        if fam in ("sim", "chain") and len(idx) > b[fam + "_bind"]:
            # the largest trees first (they are what the exhaustive families cannot reach), then a seeded sample
            idx.sort(key=lambda i: -len(lines[i]["toks"]))
            top = idx[:b[fam + "_bind"] // 3]
            idx = top + rng.sample(idx[len(top):], b[fam + "_bind"] - len(top))
        for i in idx:
            sel.append((fam, f"{fam}{i}", lines[i]))
    return sel


def ed_generate_build_run(chk, sel, nbins, prefix="gen_e"):
    crate, repo, tdir = ensure_crate()
    progs = ge.plan([(bid, line["toks"]) for _, bid, line in sel], nbins, prefix=prefix)
    nlines = ge.write_programs(crate, progs, prefix=prefix)
    ntypes = sum(len(p.types) for p in progs)
    log(f"[gen] {len(progs)} programs, {nlines} lines, {ntypes} container types, {len(sel)} instances; crate {crate} against {repo}")
    p, wall = cargo(crate, [p.bin for p in progs])
    if p.returncode != 0:
        errs = [l for l in p.stdout.splitlines() if l.startswith("error")]
        sys.stdout.write(p.stdout[-5000:])
        raise vlib.ToolError(f"cargo build of the generated derive(Entry) programs failed ({len(errs)} errors): {errs[:2]}")
    log(f"[build] generated derive(Entry) programs in {wall:.1f}s")
    chk.extra.update({"ed_generated_lines": nlines, "ed_programs": len(progs), "ed_container_types": ntypes,
                      "ed_compile_wall_s": round(wall, 1)})
    with ThreadPoolExecutor(max_workers=8) as ex:
        outs = list(ex.map(lambda p: run_exe(tdir, p.bin), progs))
    got = {}
    for o in outs:
        got.update(o)
    return got


def run_entryderive(chk, tier):
    fams = ed_tlc(chk, tier)
    sel = ed_select(fams, tier, chk.rng)
    got = ed_generate_build_run(chk, sel, BUDGET[tier]["bins"])
    cmp_ = EdComparer(chk)
    for fam, bid, line in sel:
        cmp_.compare(fam, bid, line, got.get(bid))
    chk.traces += cmp_.instances
    chk.evaluations += cmp_.items + cmp_.pairs
    for fam, bid, line in sel:
        chk.nontrivial.add(json.dumps(line["toks"], sort_keys=True))
    chk.extra.update({"ed_instances": cmp_.instances, "ed_items_compared": cmp_.items, "ed_sg_pairs_compared": cmp_.pairs,
                      "ed_trees_by_family": {f: len(l) for f, l in fams.items()},
                      "ed_bound_by_family": dict(collections.Counter(f for f, _, _ in sel)),
                      "ed_features": dict(cmp_.feat), "ed_sg_order_drift": cmp_.sg_order_drift,
                      "ed_violations_by_key": dict(cmp_.by_key)})
    for fam, bid, line in sel[:1] + sel[-1:]:
        chk.sample({"subject": "derive(Entry)", "family": fam, "toks": line["toks"], "items": line["items"], "sg": line["sg"]})
    for need in ["kind:" + k for k in LEAF_KINDS] + ["form:" + f for f in FORMS] + ["edge:" + e for e in EDGES] + ["sg_chain>=9"]:
        if not cmp_.feat.get(need):
            raise vlib.ToolError(f"vacuity: no bound derive(Entry) behaviour exercises {need}")
    log(f"[X03a] {cmp_.instances} type trees, {cmp_.items} items, {cmp_.pairs} sample-group pairs compared")


# --------------------------------------------------------------------------------------------
# (a) rejected definitions
# --------------------------------------------------------------------------------------------
NEG_ACTIONS = ("DupName", "DupTs", "TupleUnnamed", "EmptyName", "BadCombo", "UnknownAttr", "BadStyle")


def defect_of(line):
    for t in line["toks"]:
        if t["t"] == "B":
            return t["d"] + (":" + t["c"] if t["d"] == "combo" else "")
    return "badstyle"


def run_entryderive_neg(chk, tier, only=None):
    if only is None:
        r = vlib.model_check(SPEC_ED, "EntryDeriveNeg", "MC_ed_neg.cfg", timeout=600)
        chk.add_model("EntryDeriveNeg/MC_ed_neg.cfg", r)
        for a in NEG_ACTIONS:
            if not r.coverage.get(a):
                raise vlib.ToolError(f"vacuity: action {a} of EntryDeriveNeg.tla is never taken")
        lines = fast_replay_lines(r.out)
        r.out = ""
        by = collections.defaultdict(list)
        for l in lines:
            by[defect_of(l)].append(l)
        per = 12 if tier == "quick" else 10 ** 9
        sel = []
        for d in sorted(by):
            ls = by[d]
            sel += ls if len(ls) <= per else chk.rng.sample(ls, per)
        log(f"[tlc] EntryDeriveNeg: {len(lines)} rejected definitions, {len(by)} defect kinds, {len(sel)} bound")
    else:
        lines = sel = only
    behaviours = [(f"neg{i}", l) for i, l in enumerate(sel)]
    crate, repo, tdir = ensure_crate()
    src, where = ge.neg_program(behaviours)
    path = os.path.join(crate, "src", "bin", "neg_all.rs")
    with open(path, "w") as f:
        f.write(src)
    p, wall = cargo(crate, ["neg_all"], json_messages=True)
    errors = collections.defaultdict(list)       # line -> [message]
    for l in p.stdout.splitlines():
        if not l.startswith("{"):
            continue
        try:
            o = json.loads(l)
        except ValueError:
            continue
        if o.get("reason") != "compiler-message" or o.get("target", {}).get("name") != "neg_all":
            continue
        m = o["message"]
        if m.get("level") != "error":
            continue
        for sp in m.get("spans", []):
            if sp.get("is_primary") and sp.get("file_name", "").endswith("neg_all.rs"):
                errors[sp["line_start"]].append(m["message"])
    if p.returncode == 0:
        log("[neg] the program of rejected definitions compiled")
    by_id = dict(behaviours)
    stats = collections.Counter()
    for ln, (bid, msg) in sorted(where.items()):
        errs = errors.get(ln, [])
        if msg is None:
            stats["controls"] += 1
            if errs:
                base = by_id[bid[:-len("-control")]]
                chk.violation(f"#[derive(Entry)] rejects a well-formed definition: {errs[0]!r} [{src.splitlines()[ln - 1]}]",
                              {"kind": "entryderive-neg", "line": base, "control": True, "errors": errs}, key="X03:derive:neg-control-rejected")
            continue
        line = by_id[bid]
        d = defect_of(line)
        stats["rejected_definitions"] += 1
        chk.nontrivial.add("neg:" + json.dumps(line["toks"], sort_keys=True))
        if not errs:
            chk.violation(f"#[derive(Entry)] accepts a definition it documents as rejected ({d}; expected error {msg!r}) "
                          f"[{src.splitlines()[ln - 1]}]",
                          {"kind": "entryderive-neg", "line": line, "errors": []}, key=f"X03:derive:neg-accepted:{d.split(':')[0]}")
        elif not any(msg in e for e in errs):
            stats["other_message"] += 1
            if len(chk.drift) < 10:
                chk.drift.append({"what": "a rejected definition is rejected with a different diagnostic", "defect": d,
                                  "expected": msg, "got": errs[:2]})
        else:
            stats["diagnostic_matches"] += 1
    if os.path.exists(path):
        os.remove(path)       # a program that must not compile is not left in the crate
    chk.traces += stats["rejected_definitions"] + stats["controls"]
    chk.evaluations += stats["rejected_definitions"] + stats["controls"]
    chk.extra["ed_neg"] = dict(stats, compile_wall_s=round(wall, 1), enumerated=len(lines))
    if sel:
        chk.sample({"subject": "derive(Entry) rejected definition", "toks": sel[0]["toks"], "diagnostic": sel[0]["msg"]})
    log(f"[X03a-neg] {stats['rejected_definitions']} rejected definitions ({stats['diagnostic_matches']} with the documented diagnostic), "
        f"{stats['controls']} well-formed controls, rustc {wall:.1f}s")


# --------------------------------------------------------------------------------------------
# (c) Instrumented, (b) Flex: sequential replay of TLC histories on the real objects
# --------------------------------------------------------------------------------------------
def replay_cfg(chk, base_dir, base, name, subst):
    with open(os.path.join(base_dir, base)) as f:
        text = f.read()
    for k, v in subst.items():
        text = re.sub(r"(?m)^  %s = .*$" % k, "  %s = %s" % (k, v), text)
    path = os.path.join(chk.dir, name)
    with open(path, "w") as f:
        f.write("\\* generated by checks/chk_x_entryderive.py from %s\n" % base + text)
    return path


def drive(chk, cmd, behaviours, tag):
    path = os.path.join(chk.dir, f"{tag}-behaviours.ndjson")
    vlib.write_ndjson(path, behaviours)
    p = vlib.run_bin("flexi", [cmd, path], timeout=600)
    outs = [json.loads(l) for l in p.stdout.splitlines() if l.strip()]
    if len(outs) != len(behaviours):
        raise vlib.ToolError(f"flexi {cmd}: {len(outs)} results for {len(behaviours)} behaviours")
    return outs


def hist_sig(h):
    return " ".join(st["a"] + (":" + st["args"]["which"] if st["a"] == "Callback" else "") for st in h)


def run_instrument(chk, tier, only=None):
    if only is None:
        r = vlib.model_check(SPEC_IN, "Instrument", "MC_instr.cfg", timeout=600)
        chk.add_model("Instrument/MC_instr.cfg", r)
        for a in ("Start", "Poll", "DropFuture", "Callback", "Emit", "IntoParts", "Touch", "DropParts", "SplitTo", "Discard", "DropInst"):
            if not r.coverage.get(a):
                raise vlib.ToolError(f"vacuity: action {a} of Instrument.tla is never taken")
        cfg = replay_cfg(chk, SPEC_IN, "MC_instr_replay.cfg", "MC_instr_replay_run.cfg", {"MaxLen": BUDGET[tier]["instr_depth"]})
        rr = vlib.tlc(SPEC_IN, "InstrumentReplay", cfg, timeout=1200)
        if rr.errors or not rr.no_error:
            sys.stdout.write(rr.out[-3000:])
            raise vlib.ToolError(f"InstrumentReplay failed: {rr.errors[:2]}")
        hists = fast_replay_lines(rr.out)
        rr.out = ""
        chk.add_model("InstrumentReplay/MC_instr_replay.cfg", rr)
        log(f"[tlc] InstrumentReplay: {len(hists)} maximal histories ({rr.distinct} states) in {rr.wall:.1f}s")
    else:
        hists = only
    outs = drive(chk, "instr", hists, "instr")
    stats = collections.Counter()
    seen = collections.Counter()
    for h, o in zip(hists, outs):
        chk.traces += 1
        chk.nontrivial.add("instr:" + json.dumps([(st["a"], st["args"]) for st in h], sort_keys=True))
        start = h[0]["args"]
        discard_guard = start["u"] == "guard" and any(st["a"] == "Discard" for st in h)
        if any(st["a"] == "DropFuture" for st in h) and start["u"] == "guard":
            stats["cancelled_with_guard"] += 1
        if any(st["a"] == "SplitTo" for st in h) and start["pre"] and start["u"] == "guard":
            stats["split_over_prefilled_guard"] += 1

        def bad(aspect, what, i=None):
            key = f"X03:instrument:{aspect}"
            seen[key] += 1
            if seen[key] > 2:
                return
            chk.violation(f"Instrumented: {what} [{json.dumps(start)}; history: {hist_sig(h)}" + (f"; step {i + 1}" if i is not None else "") + "]",
                          {"kind": "instrument", "history": h, "got": o}, key=key)

        if "panic" in o:
            bad("panic", f"panic in the code under test: {o['panic']}")
            continue
        for i, (st, g) in enumerate(zip(h, o["obs"])):
            e = st["obs"]
            chk.evaluations += 1
            exp_em, got_em = seq(e["emitted"]), g["emitted"]
            if got_em != exp_em:
                if discard_guard and st["a"] == "Discard":
                    # "Discard the metrics": whether dropping a guard inside discard_metrics emits is not documented
                    if len(chk.drift) < 10:
                        chk.drift.append({"what": "discard_metrics() on a guard", "expected": exp_em, "got": got_em})
                    break
                if len(got_em) > len(exp_em):
                    if len(exp_em) == 0 and g.get("pending"):
                        bad("emitted-while-pending", f"an entry is in the sink while the instrumented future is still pending: {got_em}", i)
                    elif len(exp_em) == 0:
                        bad("emitted-early", f"after {st['a']} the sink holds {got_em}, but the metrics object has not been dropped yet", i)
                    else:
                        bad("emitted-twice", f"after {st['a']} the sink holds {len(got_em)} entries, expected {len(exp_em)}: {got_em}", i)
                elif len(got_em) < len(exp_em):
                    bad("not-emitted", f"after {st['a']} the guard has been dropped but the sink holds {got_em}, expected {exp_em}", i)
                else:
                    bad("content", f"after {st['a']} the emitted entry is {got_em}, expected {exp_em} (a mutation made before the drop is missing or a foreign one applied)", i)
                break
            if g["val"] != e["val"]:
                bad("value", f"after {st['a']} the caller holds the value {g['val']!r}, expected {e['val']!r}", i)
                break
            if g["pending"] != e["pending"]:
                bad("poll", f"after {st['a']} the future is {'pending' if g['pending'] else 'ready'}, expected {'pending' if e['pending'] else 'ready'} (segments of the closure polled: {i})", i)
                break
            if g["readable"] != seq(e["readable"]):
                bad("metrics", f"after {st['a']} the metrics handed to the caller are {g['readable']}, expected {seq(e['readable'])}", i)
                break
    chk.extra["instrument"] = dict(stats, histories=len(hists), violations_by_key=dict(seen))
    if hists:
        chk.sample({"subject": "Instrumented", "history": hist_sig(hists[len(hists) // 2]), "start": hists[len(hists) // 2][0]["args"],
                    "final_obs": hists[len(hists) // 2][-1]["obs"]})
    if only is None and (not stats["cancelled_with_guard"] or not stats["split_over_prefilled_guard"]):
        raise vlib.ToolError("vacuity: no Instrumented history cancels a future that owns a guard / splits over a pre-filled target")
    log(f"[X03c] {len(hists)} Instrumented histories replayed ({stats['cancelled_with_guard']} cancel a future owning a guard)")


FLEX_DEFAULT = {"u64": "0", "probe": "100"}
FLEX_STATIC_VALUE = {"before": "1", "after": "2", "inner": "3"}


def run_flex(chk, tier, only=None):
    if only is None:
        r = vlib.model_check(SPEC_FX, "Flex", "MC_flex.cfg", timeout=600)
        chk.add_model("Flex/MC_flex.cfg", r)
        for a in ("New", "Put", "Close"):
            if not r.coverage.get(a):
                raise vlib.ToolError(f"vacuity: action {a} of Flex.tla is never taken")
        cfg = replay_cfg(chk, SPEC_FX, "MC_flex_replay.cfg", "MC_flex_replay_run.cfg", {"MaxOps": BUDGET[tier]["flex_depth"] - 2})
        rr = vlib.tlc(SPEC_FX, "FlexReplay", cfg, timeout=1200)
        if rr.errors or not rr.no_error:
            sys.stdout.write(rr.out[-3000:])
            raise vlib.ToolError(f"FlexReplay failed: {rr.errors[:2]}")
        hists = fast_replay_lines(rr.out)
        rr.out = ""
        chk.add_model("FlexReplay/MC_flex_replay.cfg", rr)
        log(f"[tlc] FlexReplay: {len(hists)} histories ({rr.distinct} states) in {rr.wall:.1f}s")
    else:
        hists = only
    outs = drive(chk, "flex", hists, "flex")
    seen = collections.Counter()
    stats = collections.Counter()
    for h, o in zip(hists, outs):
        chk.traces += 1
        chk.nontrivial.add("flex:" + json.dumps([(st["a"], st["args"]) for st in h], sort_keys=True))
        start = h[0]["args"]
        wrap, t, key = start["wrap"], start["t"], start["key"]

        def bad(aspect, what, i=None):
            k = f"X03:flex:{aspect}"
            seen[k] += 1
            if seen[k] > 2:
                return
            chk.violation(f"Flex: {what} [{json.dumps(start)}; history: {hist_sig(h)}" + (f"; step {i + 1}" if i is not None else "") + "]",
                          {"kind": "flex", "history": h, "got": o}, key=k)

        if "panic" in o:
            bad("panic", f"panic in the code under test: {o['panic']}")
            continue

        def val_str(v):
            return FLEX_DEFAULT[t] if v == 100 else str(v)

        for i, (st, g) in enumerate(zip(h, o["obs"])):
            e = st["obs"]
            chk.evaluations += 1
            if st["a"] != "Close":
                if g["key"] != e["key"]:
                    bad("key", f"key() returns {g['key']!r}, the key given to Flex::new is {e['key']!r}", i)
                    break
                if g["has"] != (e["val"] != 0):
                    bad("value-state", f"after {st['a']} value().is_some() is {g['has']}, expected {e['val'] != 0}", i)
                    break
                continue
            # --- Close: the written items and the close calls
            exp_items = [(it["n"], val_str(it["v"]) if it["dyn"] else None, it["dyn"]) for it in seq(e["items"])]
            got = [tuple(x) for x in g["items"]]
            exp_dyn = [(n, v) for n, v, d in exp_items if d]
            exp_static = [n for n, v, d in exp_items if not d]
            got_static = [n for n, v in got if n in exp_static]
            got_dyn = [(n, v) for n, v in got if n not in exp_static]
            if e["val"] == 0:
                stats["closed_unset"] += 1
                if got_dyn:
                    bad("unset-emitted", f"the Flex holds no value at close time but the entry contains {got_dyn} ('If the value is None, the field will not be included')", i)
                    break
            else:
                stats["closed_set"] += 1
                if not got_dyn:
                    bad("set-omitted", f"the Flex holds a value at close time but no item is written (expected {exp_dyn})", i)
                    break
                if len(got_dyn) > 1:
                    bad("duplicated", f"more than one item is written for one Flex: {got_dyn}", i)
                    break
                (gn, gv), (en, ev) = got_dyn[0], exp_dyn[0]
                if gv != ev:
                    bad("value", f"the item carries {gv!r}, the value present at close time is {ev!r}", i)
                    break
                if gn != en:
                    if wrap in ("fprefix", "nested") and gn != en and gn.endswith(en):
                        if len(chk.drift) < 10:
                            chk.drift.append({"what": "a flatten-level prefix reaches the dynamic name", "wrap": wrap, "expected": en, "got": gn})
                    else:
                        bad("name", f"the item is named {gn!r}, the key chosen at run time is {en!r} (surrounding definition: {wrap})", i)
                        break
            if got_static != exp_static:
                bad("statics", f"the static fields around the Flex are written as {[n for n, _ in got]}, expected {[n for n, _, _ in exp_items]}", i)
                break
            if [n for n, _ in got] != [n for n, _, _ in exp_items] and got_dyn and got_dyn[0][0] == exp_dyn[0][0]:
                bad("order", f"items are written as {[n for n, _ in got]}, declaration order is {[n for n, _, _ in exp_items]}", i)
                break
            if t == "probe":
                stats["close_calls_checked"] += 1
                if g["closed"] != seq(e["closed"]):
                    exp_c = seq(e["closed"])
                    if len(g["closed"]) > len(exp_c):
                        bad("close-extra", f"CloseValue::close was called for values {g['closed']}, expected exactly {exp_c} (a replaced / cleared value is dropped unclosed; the final one is closed once)", i)
                    else:
                        bad("close-missing", f"CloseValue::close was called for values {g['closed']}, expected exactly {exp_c}", i)
                    break
    chk.extra["flex"] = dict(stats, histories=len(hists), violations_by_key=dict(seen))
    if hists:
        hh = hists[len(hists) // 3]
        chk.sample({"subject": "Flex", "start": hh[0]["args"], "history": hist_sig(hh), "final_obs": hh[-1]["obs"]})
    if only is None and (not stats["closed_unset"] or not stats["closed_set"] or not stats["close_calls_checked"]):
        raise vlib.ToolError("vacuity: Flex histories do not reach both set and unset closes")
    log(f"[X03b] {len(hists)} Flex histories replayed ({stats['closed_set']} closed with a value, {stats['closed_unset']} without)")


# --------------------------------------------------------------------------------------------
def run(prop, tier):
    chk = vlib.Check(prop, tier)
    chk.rule = ("traces = TLC behaviours executed against the real code: finished #[derive(Entry)] type trees whose ordered "
                "EntryWriter calls and sample-group pairs were compared + rejected definitions whose diagnostic was compared "
                "+ Instrumented histories + Flex histories replayed step by step; evaluations = items / pairs / per-step "
                "observations compared; distinct_nontrivial = distinct behaviours")
    chk.assumptions = [
        "derive(Entry): identifiers are two lowercase words written snake_case or camelCase; digits, acronyms, raw identifiers, "
        "generics and lifetimes on the deriving type are out of scope",
        "derive(Entry): exhaustive within the small bounds / the names family (every container form x rename_all x variant "
        "rename_all holding every leaf kind), random walks (TLC -simulate) beyond; the quick tier binds every names tree and a "
        "seeded sample of the others",
        "derive(Entry): item ORDER is part of the property (the documented expansion writes in declaration order); the order of "
        "sample_group() pairs is not ('The order of (key, value) pairs in the group doesn't matter') and only reported as MODEL-DRIFT",
        "rejected definitions: acceptance of a definition documented as rejected is a violation, a different diagnostic text only drift",
        "Instrumented: one object per history, futures polled by hand with a no-op waker; the closure yields a fixed number of times; "
        "whether discard_metrics() on a guard emits is implementation-shaped (drift only)",
        "Flex: the dynamic name is emitted verbatim under rename_all / struct prefix (module example); that a flatten-level prefix is "
        "ignored too is implementation-shaped (drift only); close calls are observed through a counting CloseValue type",
    ]
    subjects = os.environ.get("VERIF_X03_SUBJECTS", "a,c,b").split(",")
    if "a" in subjects:
        run_entryderive(chk, tier)
        if BUDGET[tier]["neg"]:
            run_entryderive_neg(chk, tier)
    if "c" in subjects or "b" in subjects:
        vlib.cargo_build(["flexi"])
    if "c" in subjects:
        run_instrument(chk, tier)
    if "b" in subjects:
        run_flex(chk, tier)
    return chk.finish()


def replay(prop, path):
    with open(path) as f:
        v = json.load(f)
    rp = v["replay"]
    chk = vlib.Check(prop + "-replay", "quick")
    chk.findings = vlib.load_findings(prop)
    if rp.get("kind") == "entryderive":
        line = {"toks": rp["toks"], "items": rp["expected_items"], "sg": rp["expected_sg"]}
        sel = [(rp["family"], "r0", line)]
        got = ed_generate_build_run(chk, sel, 1, prefix="gen_r")
        cmp_ = EdComparer(chk)
        cmp_.compare(rp["family"], "r0", line, got.get("r0"))
        log(f"replayed 1 type tree: violations {dict(cmp_.by_key)}")
        return 1 if chk.violations else 0
    if rp.get("kind") in ("instrument", "flex"):
        vlib.cargo_build(["flexi"])
        (run_instrument if rp["kind"] == "instrument" else run_flex)(chk, "quick", only=[rp["history"]])
        return 1 if chk.violations else 0
    if rp.get("kind") == "entryderive-neg":
        run_entryderive_neg(chk, "quick", only=[rp["line"]])
        return 1 if chk.violations else 0
    log("unknown replay kind")
    return 2
