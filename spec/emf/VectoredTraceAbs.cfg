CONSTANTS
  MaxSlices = 8
  MaxLen = 1000000
  MaxIntr = 1000000
  Bug = "none"
  Strict = FALSE
SPECIFICATION TSpec
CONSTRAINT Track
INVARIANT VInv
POSTCONDITION Accepted
CHECK_DEADLOCK FALSE
