\* quick, C01 focus: all three stream results, no overflow (Cap = MaxApp), no flush request, drop only
CONSTANTS
  Producers = {1}
  MaxApp = 2
  Cap = 2
  Flushers = {}
  K = 1
  Results = {"ok", "val", "io"}
  AllowForget = FALSE
  AllowTick = TRUE
SPECIFICATION Spec
INVARIANTS TypeOK AbsInv ProducerOrder OnlyAppended NoLossAtEnd BoundedBatch EbwExact NoParkWithWaiters JoinedMeansClosed
PROPERTY Refines
CHECK_DEADLOCK FALSE
