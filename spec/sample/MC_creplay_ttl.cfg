CONSTANTS
  Groups = {1, 2}
  Vols = {0, 9}
  MaxIntervals = 11
  Targets = {5}
  Ttl = 8
  Depth = 11
  OnlyEnds = TRUE
  SortFirst = FALSE
SPECIFICATION RSpec
INVARIANT Emit
INVARIANT CInv
CONSTRAINT Bound
CHECK_DEADLOCK FALSE
