CONSTANTS
  Slots = {1, 2, 3}
  Ds = {0, 1, 2}
  MaxClock = 6
  W0 = 5
  W0B = 9000000
  Ambients = {"A"}
  Threads = {"main"}
  Resolution = "captured"
  UnwindDrops = TRUE
SPECIFICATION SwSpec
INVARIANT SwTypeOK
INVARIANT SwInv
CHECK_DEADLOCK FALSE
