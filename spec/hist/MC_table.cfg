SPECIFICATION TSpec
INVARIANT Layout
INVARIANT Emit
CHECK_DEADLOCK FALSE
