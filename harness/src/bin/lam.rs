//! X02 driver (a): the Lambda-style reporter of metrique-metricsrs (`lambda_reporter`).
//!
//!   lam one                      one behaviour (JSON on stdin) in THIS process, result JSON on stdout.
//!                                The reporter is process-global (OnceLock + the global metrics.rs
//!                                recorder), and an I/O error makes its buffering writer fail for the
//!                                rest of the process, so every behaviour gets a process of its own.
//!   lam batch --behaviours f.ndjson --out o.ndjson [--jobs n]
//!                                runs `lam one` once per behaviour (children of this binary).
//!
//! A behaviour is a sequence of API-level steps produced by TLC (spec/lambda/LambdaReporterReplay.tla):
//!   {"op":"Inc","k":"c1","n":1} {"op":"Set","k":"g1","v":2} {"op":"Rec","k":"h1"}   updates through
//!       the `metrics` 0.24 macros (global recorder installed by `install_reporter_to_writer`)
//!   {"op":"Flush","fault":"ok|short|intr|werr0|werrP|ferr"}   one `flush_metrics` at the end of the
//!       invocation; the fault is what the destination does to the first write that carries bytes
//! The destination is the `Fn() -> impl io::Write` handed to `install_reporter_to_writer`: every
//! instance it makes is one *chunk* (what one stdout handle would receive); the driver reports, per
//! step, the chunks that received bytes during that step, the result of the call and the tracing
//! events (WARN/ERROR) emitted by the library. Judging is done by checks/chk_x_lambda.py against the
//! observation TLC computed for the behaviour.

use metrics_024 as metrics;
use metrique_metricsrs::lambda_reporter;
use metrique_timesource::{TimeSource, fakes::StaticTimeSource, set_time_source};
use metrique_writer_core::format::Format;
use metrique_writer_core::{Entry, IoStreamError};
use metrique_writer_format_emf::Emf;
use serde_json::{Value as J, json};
use std::collections::HashMap;
use std::io::{self, Read, Write};
use std::sync::atomic::{AtomicUsize, Ordering};
use std::sync::{Arc, Mutex};
use std::time::{Duration, Instant, UNIX_EPOCH};
use vharness::util;

// ------------------------------------------------------------------------------------------
// scripted destination
// ------------------------------------------------------------------------------------------
#[derive(Clone, Copy, PartialEq, Debug)]
enum Fault {
    Ok,
    Short,
    Intr,
    Werr0,
    WerrP,
    Ferr,
}

impl Fault {
    fn parse(s: &str) -> Fault {
        match s {
            "short" => Fault::Short,
            "intr" => Fault::Intr,
            "werr0" => Fault::Werr0,
            "werrP" => Fault::WerrP,
            "ferr" => Fault::Ferr,
            _ => Fault::Ok,
        }
    }
    fn name(self) -> &'static str {
        match self {
            Fault::Ok => "ok",
            Fault::Short => "short",
            Fault::Intr => "intr",
            Fault::Werr0 => "werr0",
            Fault::WerrP => "werrP",
            Fault::Ferr => "ferr",
        }
    }
}

#[derive(Default)]
struct Chunk {
    bytes: Vec<u8>,
    /// (bytes offered, bytes accepted or -1 = error)
    calls: Vec<(usize, i64)>,
    fault: Option<Fault>,
    flush: Option<bool>,
    /// step during which the instance was made
    step: usize,
    /// the handle was dropped: nothing more can arrive
    done: bool,
}

#[derive(Default)]
struct Shared {
    /// handles made so far and not yet reported; a handle is reported in the step in which it is dropped
    chunks: Vec<Option<Chunk>>,
    armed: Option<Fault>,
    step: usize,
}

#[derive(Clone, Default)]
struct Dest(Arc<Mutex<Shared>>);

struct DestW {
    d: Dest,
    idx: usize,
    ncalls: usize,
}

impl Dest {
    fn lock(&self) -> std::sync::MutexGuard<'_, Shared> {
        self.0.lock().unwrap_or_else(|e| e.into_inner())
    }
    fn make(&self) -> DestW {
        let mut g = self.lock();
        let step = g.step;
        g.chunks.push(Some(Chunk { step, ..Default::default() }));
        DestW { d: self.clone(), idx: g.chunks.len() - 1, ncalls: 0 }
    }
}

impl Drop for DestW {
    fn drop(&mut self) {
        let mut g = self.d.lock();
        if let Some(Some(c)) = g.chunks.get_mut(self.idx) {
            c.done = true;
        }
    }
}

impl io::Write for DestW {
    fn write(&mut self, buf: &[u8]) -> io::Result<usize> {
        let mut g = self.d.lock();
        if buf.is_empty() {
            return Ok(0);
        }
        if g.chunks[self.idx].as_ref().unwrap().fault.is_none() {
            // the fault of this invocation goes to the first instance that is offered bytes
            let f = g.armed.take().unwrap_or(Fault::Ok);
            g.chunks[self.idx].as_mut().unwrap().fault = Some(f);
        }
        let f = g.chunks[self.idx].as_ref().unwrap().fault.unwrap();
        self.ncalls += 1;
        let n = self.ncalls;
        let c = g.chunks[self.idx].as_mut().unwrap();
        let res: io::Result<usize> = match f {
            Fault::Ok | Fault::Ferr => Ok(buf.len()),
            Fault::Short => Ok(buf.len().min(61)),
            Fault::Intr => {
                if n % 2 == 1 {
                    Err(io::Error::new(io::ErrorKind::Interrupted, "scripted interruption"))
                } else {
                    Ok(buf.len().min(16))
                }
            }
            Fault::Werr0 => Err(io::Error::other("scripted write error")),
            Fault::WerrP => {
                if n == 1 && buf.len() > 1 {
                    Ok((buf.len() - 1).min(10))
                } else {
                    Err(io::Error::new(io::ErrorKind::BrokenPipe, "scripted write error after a partial write"))
                }
            }
        };
        match &res {
            Ok(k) => {
                c.bytes.extend_from_slice(&buf[..*k]);
                c.calls.push((buf.len(), *k as i64));
            }
            Err(_) => c.calls.push((buf.len(), -1)),
        }
        res
    }

    fn flush(&mut self) -> io::Result<()> {
        let mut g = self.d.lock();
        let c = g.chunks[self.idx].as_mut().unwrap();
        if c.fault == Some(Fault::Ferr) {
            c.flush = Some(false);
            Err(io::Error::other("scripted flush error"))
        } else {
            c.flush = Some(true);
            Ok(())
        }
    }
}

/// A format that hands its output to the writer in many small `write_all` calls (formats are allowed
/// to; EMF happens to make one call per entry).
struct Chunky<F>(F, usize);
impl<F: Format> Format for Chunky<F> {
    fn format(&mut self, entry: &impl Entry, output: &mut impl io::Write) -> Result<(), IoStreamError> {
        let mut v = Vec::new();
        self.0.format(entry, &mut v)?;
        for piece in v.chunks(self.1) {
            output.write_all(piece).map_err(IoStreamError::Io)?;
        }
        Ok(())
    }
}

// ------------------------------------------------------------------------------------------
// tracing capture
// ------------------------------------------------------------------------------------------
#[derive(Clone, Default)]
struct LogBuf(Arc<Mutex<Vec<u8>>>);
impl io::Write for LogBuf {
    fn write(&mut self, b: &[u8]) -> io::Result<usize> {
        self.0.lock().unwrap().extend_from_slice(b);
        Ok(b.len())
    }
    fn flush(&mut self) -> io::Result<()> {
        Ok(())
    }
}

fn key_name(k: &str) -> &'static str {
    match k {
        "c1" => "Requests",
        "c2" => "Errors",
        "g1" => "InFlight",
        "g2" => "PoolSize",
        "h1" => "Latency",
        "h2" => "Size",
        _ => "Other",
    }
}

fn update(st: &J) {
    let k = st["k"].as_str().unwrap_or("");
    match st["op"].as_str().unwrap_or("") {
        "Inc" => {
            let n = st["v"].as_u64().or(st["n"].as_u64()).unwrap_or(1);
            match k {
                "c1" => metrics::counter!("Requests").increment(n),
                "c2" => metrics::counter!("Errors", "kind" => "bad").increment(n),
                _ => metrics::counter!("Other").increment(n),
            }
        }
        "Set" => {
            let v = st["v"].as_u64().unwrap_or(0) as f64;
            match k {
                "g1" => metrics::gauge!("InFlight").set(v),
                "g2" => metrics::gauge!("PoolSize", "pool" => "a").set(v),
                _ => metrics::gauge!("Other").set(v),
            }
        }
        "Rec" => {
            let v = st["v"].as_u64().unwrap_or(5) as f64;
            match k {
                "h1" => metrics::histogram!("Latency").record(v),
                "h2" => metrics::histogram!("Size", "kind" => "bad").record(v),
                _ => metrics::histogram!("Other").record(v),
            }
        }
        other => panic!("unknown update {other}"),
    }
}

fn take_chunks(d: &Dest) -> Vec<J> {
    let mut g = d.lock();
    // only handles that were dropped: a live one (its index stays valid) is reported by a later step
    let chunks: Vec<Chunk> = g.chunks.iter_mut().filter(|c| c.as_ref().is_some_and(|c| c.done)).filter_map(|c| c.take()).collect();
    chunks
        .into_iter()
        .filter(|c| !c.calls.is_empty() || c.flush == Some(false))
        .map(|c| {
            json!({"bytes": String::from_utf8_lossy(&c.bytes), "utf8": std::str::from_utf8(&c.bytes).is_ok(),
                   "calls": c.calls.iter().map(|(o, a)| json!([o, a])).collect::<Vec<_>>(),
                   "fault": c.fault.map(|f| f.name()), "flush": c.flush, "made_in_step": c.step})
        })
        .collect()
}

fn cmd_one() {
    let mut s = String::new();
    io::stdin().read_to_string(&mut s).unwrap();
    let b: J = serde_json::from_str(&s).expect("behaviour json");
    let fmt = b["variant"]["fmt"].as_str().unwrap_or("emf");
    let call = b["variant"]["call"].as_str().unwrap_or("sync");

    let logs = LogBuf::default();
    let logs2 = logs.clone();
    tracing_subscriber::fmt()
        .with_max_level(tracing::Level::WARN)
        .with_ansi(false)
        .without_time()
        .with_writer(move || logs2.clone())
        .init();

    let dest = Dest::default();
    let d2 = dest.clone();
    let mk = move || d2.make();
    let emf = || Emf::all_validations("X02".to_string(), vec![vec![]]);
    match fmt {
        "chunky" => lambda_reporter::install_reporter_to_writer::<dyn metrics::Recorder, _, _, _>(Chunky(emf(), 5), mk),
        _ => lambda_reporter::install_reporter_to_writer::<dyn metrics::Recorder, _, _, _>(emf(), mk),
    }
    // a second installation is ignored (OnceLock): its destination must never see a byte
    let second = Dest::default();
    if b["variant"]["reinstall"].as_bool().unwrap_or(false) {
        let s2 = second.clone();
        lambda_reporter::install_reporter_to_writer::<dyn metrics::Recorder, _, _, _>(emf(), move || s2.make());
    }

    let rt = if call == "tokio" {
        Some(tokio::runtime::Builder::new_current_thread().enable_all().build().unwrap())
    } else {
        None
    };
    // every invocation's readout carries its own timestamp: base + 1000 s * invocation
    let base_s: u64 = std::time::SystemTime::now().duration_since(UNIX_EPOCH).unwrap().as_secs() - 3600;
    let mut inv = 0u64;
    let mut out = Vec::new();
    for (i, st) in b["steps"].as_array().unwrap().iter().enumerate() {
        dest.lock().step = i + 1;
        let op = st["op"].as_str().unwrap_or("");
        let mut ret = J::Null;
        let mut took_ms = 0u64;
        if op == "Flush" {
            inv += 1;
            dest.lock().armed = Some(Fault::parse(st["fault"].as_str().unwrap_or("ok")));
            let _g = set_time_source(TimeSource::custom(StaticTimeSource::at_time(
                UNIX_EPOCH + Duration::from_secs(base_s + 10 * inv),
            )));
            let t0 = Instant::now();
            let r = util::catch(|| match call {
                "tokio" => rt.as_ref().unwrap().block_on(lambda_reporter::flush_metrics()),
                "block_on" => futures::executor::block_on(lambda_reporter::flush_metrics()),
                _ => lambda_reporter::flush_metrics_sync(),
            });
            took_ms = t0.elapsed().as_millis() as u64;
            ret = match r {
                Ok(Ok(())) => json!("ok"),
                Ok(Err(e)) => json!(format!("err: {e}")),
                Err(p) => json!(format!("panic: {p}")),
            };
            // an unconsumed fault must not leak into a later invocation
            dest.lock().armed = None;
        } else {
            if let Err(p) = util::catch(|| update(st)) {
                ret = json!(format!("panic: {p}"));
            }
        }
        let chunks = take_chunks(&dest);
        let lg = std::mem::take(&mut *logs.0.lock().unwrap());
        let lg = String::from_utf8_lossy(&lg);
        let lines: Vec<&str> = lg.lines().filter(|l| !l.trim().is_empty()).collect();
        out.push(json!({"op": op, "ret": ret, "chunks": chunks, "logs": lines, "took_ms": took_ms,
                        "ts_ms": if op == "Flush" { json!((base_s + 10 * inv) * 1000) } else { J::Null }}));
    }
    let stray = take_chunks(&second);
    let names: serde_json::Map<String, J> =
        ["c1", "c2", "g1", "g2", "h1", "h2"].iter().map(|k| (k.to_string(), json!(key_name(k)))).collect();
    let res = json!({"id": b["id"], "steps": out, "second_install_chunks": stray, "names": names});
    println!("{}", serde_json::to_string(&res).unwrap());
    // the writer thread of the reporter's queue is detached; leave without waiting for it
    io::stdout().flush().unwrap();
    std::process::exit(0);
}

fn run_child(exe: &std::path::Path, b: &J, timeout: Duration) -> J {
    use std::process::{Command, Stdio};
    let mut ch = Command::new(exe)
        .arg("one")
        .stdin(Stdio::piped())
        .stdout(Stdio::piped())
        .stderr(Stdio::piped())
        .env("RUST_BACKTRACE", "0")
        .spawn()
        .expect("spawn lam one");
    {
        let mut si = ch.stdin.take().unwrap();
        si.write_all(serde_json::to_string(b).unwrap().as_bytes()).unwrap();
    }
    let t0 = Instant::now();
    loop {
        match ch.try_wait().unwrap() {
            Some(_) => break,
            None if t0.elapsed() > timeout => {
                let _ = ch.kill();
                let _ = ch.wait();
                return json!({"id": b["id"], "timeout": true});
            }
            None => std::thread::sleep(Duration::from_micros(300)),
        }
    }
    let o = ch.wait_with_output().unwrap();
    let so = String::from_utf8_lossy(&o.stdout);
    // the result line is complete before the child leaves; how it leaves (its detached writer thread may
    // still be running while the process exits) does not matter
    match so.lines().last().and_then(|l| serde_json::from_str::<J>(l).ok()) {
        Some(v) if v.get("steps").is_some() => v,
        _ => json!({"id": b["id"], "crash": String::from_utf8_lossy(&o.stderr).chars().take(2000).collect::<String>(),
                    "status": o.status.code()}),
    }
}

fn cmd_batch(a: &HashMap<String, String>) {
    let beh = util::read_ndjson(util::arg_str(a, "behaviours", ""));
    let jobs = util::arg_u64(a, "jobs", 8) as usize;
    let timeout = Duration::from_secs(util::arg_u64(a, "timeout", 20));
    let exe = std::env::current_exe().unwrap();
    let next = AtomicUsize::new(0);
    let results: Mutex<Vec<(usize, J)>> = Mutex::new(Vec::new());
    std::thread::scope(|sc| {
        for _ in 0..jobs.max(1) {
            sc.spawn(|| {
                loop {
                    let i = next.fetch_add(1, Ordering::Relaxed);
                    if i >= beh.len() {
                        break;
                    }
                    let r = run_child(&exe, &beh[i], timeout);
                    results.lock().unwrap().push((i, r));
                }
            });
        }
    });
    let mut rs = results.into_inner().unwrap();
    rs.sort_by_key(|x| x.0);
    let mut f = io::BufWriter::new(std::fs::File::create(util::arg_str(a, "out", "")).unwrap());
    for (_, r) in rs {
        serde_json::to_writer(&mut f, &r).unwrap();
        f.write_all(b"\n").unwrap();
    }
    f.flush().unwrap();
}

fn main() {
    let (cmd, a) = util::args();
    match cmd.as_str() {
        "one" => cmd_one(),
        "batch" => cmd_batch(&a),
        _ => {
            eprintln!("usage: lam one | batch --behaviours f --out o [--jobs n]");
            std::process::exit(2);
        }
    }
}
