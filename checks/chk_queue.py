"""C01 C04 C05 C09: background queue.

spec/queue/QueueAbs.tla         property layer (abstract drop-oldest FIFO + flush/close/handle rules)
spec/queue/BackgroundQueue.tla  implementation-shaped model, TLC: refines QueueAbs for all interleavings
spec/queue/WakerTracker.tla     component model of the flush-waker protocol (C04)
spec/queue/QueueTrace.tla       trace validation of recorded / scheduled executions of the real code
"""
import json, os, random
import vlib
from vlib import log

SPECD = os.path.join(vlib.SPEC, "queue")


# --------------------------------------------------------------------------------------------
# scenario generators (free-running recorded executions)
# --------------------------------------------------------------------------------------------
def _results(rng, prods, pval=0.1, pio=0.1):
    res = {}
    for pi, p in enumerate(prods):
        for k in range(1, p["n"] + 1):
            r = rng.random()
            if r < pval:
                res[str((pi + 1) * 10000 + k)] = "val"
            elif r < pval + pio:
                res[str((pi + 1) * 10000 + k)] = "io"
    return res


def gen_c01(rng, n):
    out = []
    for i in range(n):
        nprod = rng.choice([1, 1, 2, 3, 4, 6])
        prods = [{"n": rng.randint(5, 60 if nprod < 4 else 30), "pace_us": rng.choice([0, 0, 0, 20, 200])} for _ in range(nprod)]
        total = sum(p["n"] for p in prods)
        sc = {"cap": total + 8, "boxed": rng.random() < 0.5,
              "flush_us": rng.choice([1, 50, 1000, 59_000_000]),
              "producers": prods, "results": _results(rng, prods, *rng.choice([(0, 0), (0.1, 0.1), (0.5, 0.3), (1.0, 0)])),
              "report_res": rng.choice(["ok", "ok", "io", "val"]),
              "flushers": [{"count": rng.randint(1, 3), "delay_us": rng.randint(0, 500), "gap_us": rng.randint(0, 300)}
                           for _ in range(rng.choice([0, 1, 1, 2]))],
              "end": rng.choice(["drop", "drop", "live"]),
              "permille": rng.choice([0, 100, 400, 800]), "max_us": rng.choice([50, 300]),
              "slow_us": rng.choice([0, 0, 0, 30]), "flush_err": rng.random() < 0.15,
              "recorder": rng.random() < 0.3}
        out.append(sc)
    return out


def gen_c04(rng, n):
    out = []
    for i in range(n):
        kind = rng.choice(["parked", "busy", "busy", "mixed", "smallcap"])
        if kind == "parked":
            # the writer is parked with a 59 s deadline: completion needs the unpark of flush_async
            prods = [{"n": rng.randint(0, 4), "pace_us": 0}]
            sc = {"cap": 16, "flush_us": 59_000_000, "producers": prods,
                  "flushers": [{"count": rng.randint(1, 3), "delay_us": rng.choice([0, 2000, 20000]), "gap_us": rng.choice([0, 3000])}
                               for _ in range(rng.randint(1, 2))], "end": rng.choice(["live", "drop"])}
        elif kind == "busy":
            # slow stream + fast producers: the queue does not drain while requests are outstanding
            nprod = rng.randint(1, 3)
            prods = [{"n": rng.randint(60, 150), "pace_us": rng.choice([0, 5])} for _ in range(nprod)]
            total = sum(p["n"] for p in prods)
            sc = {"cap": rng.choice([total + 1, 33, 64, 100]), "flush_us": rng.choice([200, 1000, 5000]), "producers": prods,
                  "slow_us": rng.choice([20, 50, 100]),
                  "flushers": [{"count": rng.randint(2, 5), "delay_us": rng.randint(0, 2000), "gap_us": rng.randint(0, 1000)}
                               for _ in range(rng.randint(1, 3))], "end": rng.choice(["live", "drop"])}
        elif kind == "smallcap":
            nprod = rng.randint(1, 2)
            prods = [{"n": rng.randint(10, 40), "pace_us": rng.choice([0, 50])} for _ in range(nprod)]
            sc = {"cap": rng.randint(1, 5), "flush_us": rng.choice([100, 1000]), "producers": prods,
                  "slow_us": rng.choice([0, 30]),
                  "flushers": [{"count": rng.randint(2, 6), "delay_us": rng.randint(0, 500), "gap_us": rng.randint(0, 300)}
                               for _ in range(rng.randint(1, 3))], "end": rng.choice(["live", "drop"])}
        else:
            nprod = rng.randint(1, 4)
            prods = [{"n": rng.randint(5, 40), "pace_us": rng.choice([0, 20, 100])} for _ in range(nprod)]
            total = sum(p["n"] for p in prods)
            sc = {"cap": total + 4, "flush_us": rng.choice([1, 100, 59_000_000]), "producers": prods,
                  "flushers": [{"count": rng.randint(1, 4), "delay_us": rng.randint(0, 800), "gap_us": rng.randint(0, 400)}
                               for _ in range(rng.randint(1, 3))], "end": rng.choice(["live", "drop", "forget"])}
        sc.setdefault("results", _results(rng, sc["producers"], 0.05, 0.05))
        if sc["end"] == "forget":
            # a forgotten queue notices that it is unreferenced once per flush interval
            sc["flush_us"] = min(sc["flush_us"], 20000)
        sc["boxed"] = rng.random() < 0.4
        sc["permille"] = rng.choice([0, 200, 600])
        sc["max_us"] = rng.choice([50, 300])
        sc["kind"] = kind
        out.append(sc)
    return out


def gen_c05(rng, n):
    out = []
    for i in range(n):
        nprod = rng.choice([0, 1, 1, 2, 3])
        prods = [{"n": rng.randint(1, 50), "pace_us": rng.choice([0, 0, 30])} for _ in range(nprod)]
        total = sum(p["n"] for p in prods)
        end = rng.choice(["drop", "drop", "forget"])
        sc = {"cap": rng.choice([total + 4, max(1, total // 2), 8]), "boxed": rng.random() < 0.5,
              "flush_us": rng.choice([100, 1000, 20000]) if end == "forget" else rng.choice([1, 1000, 59_000_000]),
              "producers": prods, "results": _results(rng, prods, 0.1, 0.1),
              "slow_us": rng.choice([0, 20, 100]),
              "flushers": [{"count": rng.randint(1, 2), "delay_us": rng.randint(0, 500), "gap_us": 0}
                           for _ in range(rng.choice([0, 0, 1]))],
              "end": end, "late_appends": rng.choice([0, 2, 5]) if end == "drop" else 0,
              "permille": rng.choice([0, 300, 800]), "max_us": rng.choice([50, 300]),
              "flush_err": rng.random() < 0.1}
        out.append(sc)
    return out


def gen_c09(rng, n, caps=None):
    out = []
    grid = []
    for cap in (caps or [1, 2, 3, 4, 5, 8]):
        for k in (0, 1, cap):
            for extra in sorted(set([0, 1, cap, 2 * cap])):
                grid.append((cap, k, extra))
    rng.shuffle(grid)
    for (cap, k, extra) in grid[:n]:
        nprod = rng.choice([1, 1, 1, 2, 3])
        if k == 0:
            # no stall entry: the writer is held before its first hand-off by gating entry 1 and
            # letting everybody wait for it
            k_eff = 1
        else:
            k_eff = k
        prods = [{"n": k_eff + cap + extra, "pace_us": 0}]
        for _ in range(nprod - 1):
            prods.append({"n": rng.randint(1, cap + 1), "pace_us": 0})
        sc = {"cap": cap, "boxed": rng.random() < 0.5, "flush_us": rng.choice([100, 1000, 59_000_000]),
              "producers": prods, "results": _results(rng, prods, 0.05, 0.05), "flushers": [],
              "end": rng.choice(["drop", "live"]), "stall": {"k": k_eff}, "recorder": True,
              "permille": rng.choice([0, 300]), "max_us": 100}
        out.append(sc)
    # free-running overflow scenarios (no stall): fast producers, slow writer, small capacity
    for i in range(max(2, n // 4)):
        nprod = rng.randint(1, 4)
        prods = [{"n": rng.randint(20, 80), "pace_us": rng.choice([0, 0, 10])} for _ in range(nprod)]
        out.append({"cap": rng.randint(1, 6), "boxed": rng.random() < 0.5, "flush_us": rng.choice([100, 1000]),
                    "producers": prods, "results": {}, "flushers": [{"count": 2, "delay_us": 100, "gap_us": 100}],
                    "slow_us": rng.choice([10, 50, 200]), "end": rng.choice(["drop", "live"]), "recorder": True,
                    "permille": rng.choice([0, 300]), "max_us": 100})
    return out


def gen_forget_slowflush(rng, n):
    """Forgotten join handle, periodic flush that takes longer than the flush interval: the last
    appends and the drop of the last queue handle land while the writer is inside stream.flush(),
    i.e. between its last empty pop and its 'no appenders left' check."""
    out = []
    for i in range(n):
        nprod = rng.choice([1, 1, 2])
        prods = [{"n": rng.randint(3, 12), "pace_us": rng.choice([300, 700, 1500])} for _ in range(nprod)]
        out.append({"cap": 64, "boxed": rng.random() < 0.5, "flush_us": rng.choice([500, 1000]),
                    "flush_slow_us": rng.choice([2000, 5000, 20000]), "producers": prods, "results": {},
                    "flushers": [], "end": rng.choice(["forget", "forget_first", "forget_first"]), "permille": 0,
                    "kind": "forget-slowflush"})
    return out


def gen_flush_faults(rng, n):
    """Stream whose flush keeps failing while the handle is dropped / forgotten."""
    out = []
    for i in range(n):
        prods = [{"n": rng.randint(1, 10), "pace_us": rng.choice([0, 100])} for _ in range(rng.choice([1, 2]))]
        out.append({"cap": 32, "boxed": rng.random() < 0.5, "flush_us": rng.choice([500, 2000]), "producers": prods,
                    "results": _results(rng, prods, 0.1, 0.2), "flushers": [], "flush_err": True,
                    "end": rng.choice(["drop", "forget"]), "permille": 0, "kind": "flush-faults"})
    return out


def gen_race_rounds(rng, n, rounds):
    return [{"cap": rng.choice([1, 2, 3, 4]), "boxed": rng.random() < 0.5, "flush_us": rng.choice([1000, 59_000_000]),
             "producers": [], "results": {}, "flushers": [], "end": "drop", "recorder": True,
             "race_rounds": rounds, "kind": "race-rounds"} for _ in range(n)]


def gen_pair_rounds(rng, n, rounds):
    """two producers race for the last free slot of a stalled queue (a stale `is_full()` fast path
    would drop the NEWEST entry there)"""
    return [{"cap": rng.choice([1, 2, 2, 3]), "boxed": rng.random() < 0.5, "flush_us": rng.choice([1000, 59_000_000]),
             "producers": [], "results": {}, "flushers": [], "end": "drop", "recorder": True,
             "pair_rounds": rounds, "kind": "pair-rounds"} for _ in range(n)]


def gen_stall_shutdown(rng, n):
    """the stream is stalled for longer than shutdown_timeout while > 32 entries are queued and the
    handle is dropped during the stall; afterwards the stream is fast: everything must be drained"""
    out = []
    for i in range(n):
        st = rng.choice([300, 500])
        nent = rng.randint(80, 200)
        # every other scenario: some of the backlog that the final drain hands over is rejected with an I/O
        # or validation error - the drain still goes through the whole backlog
        res = {} if i % 2 == 0 else {str(10001 + k): rng.choice(["io", "io", "val"]) for k in range(2, nent) if rng.random() < 0.15}
        out.append({"cap": 512, "boxed": rng.random() < 0.5, "flush_us": rng.choice([1000, 50000]),
                    "producers": [{"n": nent, "pace_us": 0}], "results": res, "flushers": [],
                    "stall": {"k": 1}, "shutdown_timeout_ms": st, "hold_stall_ms": st + 400, "end": "drop",
                    "kind": "stall-shutdown"})
    return out


def gen_smallcap_flush(rng, n):
    """C01: single producer (unambiguous linearization), small capacity, slow stream and flush requests
    pending while a backlog flows through: every entry still reaches the stream exactly once"""
    out = []
    for i in range(n):
        cap = rng.choice([8, 16, 33, 40])
        out.append({"cap": cap, "boxed": rng.random() < 0.5, "flush_us": rng.choice([500, 1000, 5000]),
                    "producers": [{"n": rng.randint(3 * cap, 6 * cap), "pace_us": rng.choice([20, 40, 80])}],
                    "results": {}, "slow_us": rng.choice([20, 40]),
                    "flushers": [{"count": rng.randint(3, 8), "delay_us": rng.randint(0, 1000), "gap_us": rng.randint(0, 300)}
                                 for _ in range(rng.randint(1, 2))],
                    "end": "drop", "kind": "smallcap-flush"})
    return out


def gen_report_burst(rng, n):
    out = []
    for i in range(n):
        nb = rng.randint(20, 40)
        res = {str(70001 + k): "val" for k in range(nb + 1)}
        out.append({"cap": 256, "boxed": rng.random() < 0.5, "flush_us": 1000, "producers": [{"n": 3, "pace_us": 0}],
                    "results": res, "flushers": [], "end": "drop", "report_burst": {"quiet_ms": rng.choice([2300, 3300]), "n": nb},
                    "kind": "report-burst"})
    return out


def gen_slowflush_busy(rng, n):
    """C04: requests arriving while the writer is inside the (slow) stream.flush() that releases an
    earlier request, with a backlog > 32 and drains that hit the flush deadline"""
    out = []
    for i in range(n):
        out.append({"cap": rng.choice([128, 256]), "boxed": rng.random() < 0.5, "flush_us": rng.choice([300, 500]),
                    "flush_slow_us": rng.choice([1500, 3000, 6000]), "slow_us": rng.choice([10, 20]),
                    "producers": [{"n": rng.randint(300, 500), "pace_us": rng.choice([5, 10, 20])}], "results": {},
                    "flushers": [{"count": rng.randint(4, 8), "delay_us": rng.randint(0, 2000), "gap_us": 0}
                                 for _ in range(rng.randint(1, 2))]
                                + [{"count": rng.randint(12, 25), "delay_us": rng.randint(0, 1000), "gap_us": rng.choice([300, 700, 1500]),
                                    "fire": True}],
                    "end": "drop", "kind": "slowflush-busy"})
    return out


def gen_flush_storm(rng, n):
    """C04: more flush requests outstanding at once than any internal bound (writer stalled)"""
    return [{"cap": 16, "boxed": rng.random() < 0.5, "flush_us": 1000, "producers": [{"n": 3, "pace_us": 0}], "results": {},
             "flushers": [], "stall": {"k": 1}, "flush_storm": rng.choice([1100, 1300]), "end": "drop", "kind": "flush-storm"}
            for _ in range(n)]


def gen_drop_variants(rng, n):
    """C05: handle dropped by unwinding; forgotten queue with a never-polled flush future kept alive"""
    out = []
    for i in range(n):
        prods = [{"n": rng.randint(20, 100), "pace_us": 0}]
        if i % 2 == 0:
            out.append({"cap": 256, "boxed": rng.random() < 0.5, "flush_us": 1000, "producers": prods, "results": {},
                        "flushers": [], "slow_us": rng.choice([50, 200]), "end": "drop", "drop_unwind": True, "kind": "drop-unwind"})
        else:
            out.append({"cap": 256, "boxed": rng.random() < 0.5, "flush_us": rng.choice([1000, 5000]), "producers": prods,
                        "results": {}, "flushers": [], "end": "forget", "hold_unpolled_flush": True, "kind": "forget-unpolled-flush"})
    return out


def gen_io_burst(rng, n):
    """C01: the in-band report is written after a VALIDATION failure only: one validation failure, a quiet
    period (the 1/s rate limiter is open again), then I/O failures - none of them may be followed by a report"""
    out = []
    for i in range(n):
        nb = rng.randint(3, 8)
        res = {str(70001 + k): "io" for k in range(nb + 1)}
        res["70001"] = rng.choice(["val", "io"])
        out.append({"cap": 256, "boxed": rng.random() < 0.5, "flush_us": 1000, "producers": [{"n": 3, "pace_us": 0}],
                    "results": res, "flushers": [], "end": "drop", "report_burst": {"quiet_ms": rng.choice([1150, 1300]), "n": nb},
                    "kind": "io-burst"})
    return out


def gen_allfail_progress(rng, n):
    """C04 (bounded progress): a stream that rejects EVERY entry, a producer that keeps the queue non-empty
    (faster than the slow stream, the queue overflows), flush requests in the middle: each completes before
    the writer has handed over `lbound` further entries. lbound = 2*cap + 3*D + 64 where D = flush_us/slow_us + 33
    bounds one drain pass (the clock is checked every 32 entries; every hand-off takes at least slow_us):
    the pass in progress at the request, one batch of earlier requests (cap entries + its last pass), and
    the request's own batch."""
    out = []
    for i in range(n):
        cap = rng.choice([8, 16])
        slow = rng.choice([200, 250, 300])
        flush_us = rng.choice([500, 1000])
        d = flush_us // slow + 33
        lbound = 2 * cap + 3 * d + 64
        total = lbound + rng.randint(250, 350)
        kind = rng.choice(["io", "val", "mixed"])
        res = {str(10001 + k): (kind if kind != "mixed" else rng.choice(["io", "val"])) for k in range(total)}
        out.append({"cap": cap, "boxed": rng.random() < 0.5, "flush_us": flush_us, "slow_us": slow,
                    "producers": [{"n": total, "pace_us": slow // 2}], "results": res,
                    "flushers": [{"count": 2, "delay_us": rng.randint(8000, 20000), "gap_us": rng.randint(0, 3000)}],
                    "end": "drop", "lbound": lbound, "heavy": True, "kind": "allfail-progress"})
    return out


def gen_pingpong(rng, n):
    """C04: append / flush ping-pong against a stream whose flush is slow: many appends land while the
    writer is inside a periodic stream flush that began with an empty queue; the request follows after a
    random delay (during that flush, after it, after the hand-off) and well before the next periodic flush"""
    out = []
    for i in range(n):
        fs = rng.choice([2000, 4000])
        fu = rng.choice([5000, 10000])
        out.append({"cap": rng.choice([4, 64]), "boxed": rng.random() < 0.5, "flush_us": fu,
                    "flush_slow_us": fs, "producers": [{"n": rng.randint(25, 40), "pace_us": 0, "flush_each": True, "jitter_us": fu,
                                                        "flush_delay_us": fs + 1500}],
                    "results": {}, "flushers": [], "end": rng.choice(["drop", "live"]), "kind": "pingpong"})
    return out


def gen_overflow_then_flush(rng, n):
    """C04: overflow while no flush request is outstanding (stalled writer), the backlog is written without
    any request; later a backlog below the capacity is appended to a slow stream (drain passes end at the
    flush deadline) and a flush is requested: it completes only after that backlog has been written"""
    out = []
    for i in range(n):
        cap = rng.choice([128, 160, 256])   # the late backlog (cap - 5..30 entries) takes at least three drain passes of 32
        out.append({"cap": cap, "boxed": rng.random() < 0.5, "flush_us": 1000,
                    "producers": [{"n": 1 + cap + rng.randint(100, 300), "pace_us": 0}], "results": {}, "flushers": [],
                    "stall": {"k": 1}, "end": "drop",
                    "late_phase": {"n": cap - rng.randint(5, 30), "slow_us": rng.choice([200, 300]), "settle_ms": 60},
                    "kind": "overflow-then-flush"})
    return out


def gen_unused_forget(rng, n):
    """C05: a queue that is never used - no append, no flush request -, its join handle forgotten, clones made
    and dropped: once the last queue handle is gone the stream is flushed and closed and the thread exits"""
    out = []
    for i in range(n):
        out.append({"cap": rng.choice([1, 64]), "boxed": rng.random() < 0.5, "flush_us": rng.choice([1000, 20000]),
                    "producers": [{"n": 0, "pace_us": 0} for _ in range(rng.randint(0, 2))], "results": {}, "flushers": [],
                    "end": "forget", "no_final_flush": True, "kind": "unused-forget"})
    return out


def gen_aod(rng, n):
    """C05: AppendOnDrop guards (into_entry / forget / dropped) are queue handles while they live and not
    afterwards: after forget + the last handle dropped the queue still shuts down by itself"""
    out = []
    for i in range(n):
        out.append({"cap": 64, "boxed": rng.random() < 0.5, "flush_us": 1000, "producers": [{"n": rng.randint(2, 10), "pace_us": 0}],
                    "results": {}, "flushers": [], "end": "forget" if i % 4 != 3 else "drop",
                    "aod": [rng.choice([1, 2, 3]) for _ in range(rng.randint(1, 4))] + [1], "kind": "append-on-drop"})
    return out


def gen_builder_order(rng, n):
    """C09: the order of BackgroundQueueBuilder calls does not matter: shutdown_timeout LAST; one bulk run
    with a capacity above the default 64Ki (stalled writer, 1000-2000 entries beyond the capacity)"""
    out = []
    for i in range(n):
        if i == 1:
            # 16 KiB entries: the ring buffer is tens of MiB, the configured capacity still holds exactly
            cap = rng.choice([1500, 2048])
            out.append({"cap": cap, "big": True, "flush_us": 1000, "producers": [{"n": cap + rng.choice([0, 1, 40]), "pace_us": 0}],
                        "results": {}, "flushers": [], "end": "drop", "recorder": True, "bulk": True, "stall": {"k": 1},
                        "kind": "bulk-bigentry"})
        elif i == 0:
            cap = rng.choice([70000, 66000])
            out.append({"cap": cap, "boxed": rng.random() < 0.5, "flush_us": 1000, "producers": [{"n": cap + rng.randint(1000, 2000), "pace_us": 0}],
                        "results": {}, "flushers": [], "end": "drop", "recorder": True, "bulk": True, "stall": {"k": 1},
                        "st_last": True, "kind": "bulk-bigcap"})
        else:
            cap = rng.choice([1, 4, 8])
            out.append({"cap": cap, "boxed": rng.random() < 0.5, "flush_us": 1000, "producers": [{"n": cap + rng.randint(2, 12), "pace_us": 0}],
                        "results": {}, "flushers": [], "end": "drop", "recorder": True, "stall": {"k": 1}, "st_last": True,
                        "shutdown_timeout_ms": rng.choice([0, 5000]), "kind": "builder-order"})
    return out


def gen_overflow_phases(rng, n):
    """C09: appending never blocks: several producers overflow the full (stalled) queue continuously for
    more than a second (the once-per-second overflow log becomes due while all of them are appending), each
    pausing 300 us at the verification point rl.loaded, which sits between the rate limiter's load of the
    next slot and its compare-exchange; and runs with a recorder for the count"""
    out = []
    for i in range(n):
        for rec, ms in ((False, 1300), (True, 250)):
            out.append({"cap": rng.choice([1, 4]), "boxed": rng.random() < 0.5, "flush_us": 1000, "producers": [{"n": 6, "pace_us": 0}],
                        "results": {}, "flushers": [], "end": "drop", "recorder": rec, "count_only": True, "stall": {"k": 1},
                        "point_delay": {"rl.loaded": 300},
                        "overflow_phases": {"phases": 1, "quiet_ms": 10, "threads": 6, "per": 0, "hammer_ms": ms},
                        "kind": "overflow-hammer"})
    return out


def gen_count_only(rng, n, per):
    out = []
    for i in range(n):
        nprod = rng.choice([2, 3, 4, 6])
        out.append({"cap": rng.choice([1, 4, 8, 32]), "boxed": rng.random() < 0.5, "flush_us": 1000,
                    "producers": [{"n": per // nprod, "pace_us": 0} for _ in range(nprod)], "results": {},
                    "flushers": [], "slow_us": rng.choice([0, 5, 20]), "end": "drop", "recorder": True,
                    "count_only": True, "stall": rng.choice([None, {"k": 1}]), "kind": "count-only"})
    return out


GEN = {"C01": gen_c01, "C04": gen_c04, "C05": gen_c05, "C09": gen_c09}
NSCEN = {"quick": {"C01": 40, "C04": 40, "C05": 40, "C09": 36}, "thorough": {"C01": 1500, "C04": 1200, "C05": 800, "C09": 600}}


def tame(sc):
    """Concurrent appends that overflow leave TLC an exponential choice of linearizations (entries
    that are displaced are never observed again). Such scenarios either serialize their appends
    in the harness or stay tiny; concurrency x overflow is covered exhaustively by the TLC
    model (MC_*.cfg with Cap = 1) and by the tiny scenarios."""
    total = sum(p["n"] for p in sc["producers"])
    if len(sc["producers"]) > 1 and sc["cap"] < total and total > 14:
        sc["serialize"] = True
    return sc


def run_recorded(chk, prop, scen, tag="rec", chunk=150, subscriber=False, extra_args=None, vchunk=20):
    """Run scenarios in the real code and validate their traces against QueueTrace.tla."""
    scen = [tame(s) for s in scen]
    heavy = [s for s in scen if s.get("heavy")]
    if heavy and tag == "rec":
        # long single traces: validated one per TLC run (a chunk of them would hit the chunk timeout)
        run_recorded(chk, prop, heavy, tag="heavy", chunk=chunk, vchunk=1)
        scen = [s for s in scen if not s.get("heavy")]
    counting = [s for s in scen if s.get("count_only")]
    if counting and tag == "rec":
        run_recorded(chk, prop, counting, tag="cnt", chunk=chunk)
        scen = [s for s in scen if not s.get("count_only")]
    bulk = [s for s in scen if s.get("bulk")]
    if bulk and tag == "rec":
        run_recorded(chk, prop, bulk, tag="bulk", chunk=chunk)
        scen = [s for s in scen if not s.get("bulk")]
    tspec = {"cnt": "QueueCountTrace", "bulk": "QueueBulkTrace"}.get(tag, "QueueTrace")
    total_events = 0
    for c0 in range(0, len(scen), chunk):
        part = scen[c0:c0 + chunk]
        sp = os.path.join(chk.dir, f"{tag}-{c0}-scen.ndjson")
        tp = os.path.join(chk.dir, f"{tag}-{c0}-trace.ndjson")
        mp = os.path.join(chk.dir, f"{tag}-{c0}-meta.ndjson")
        vlib.write_ndjson(sp, part)
        vlib.run_bin("bq", ["run", "--scenarios", sp, "--out", tp, "--meta", mp] + (["--subscriber", str(int(subscriber))] if subscriber else []) + (extra_args or []),
                     timeout=3600)

        def on_reject(meta, v, lines):
            what = (f"recorded execution of scenario {meta['id']} is not a behaviour of {'QueueAbs' if tspec == 'QueueTrace' else tspec}: "
                    + (f"invariant {v.invariant} violated" if v.invariant else f"event {json.dumps(v.event)} (line {v.rel_line} of the scenario trace) is not enabled")
                    + f"; abstract state before it: {str(v.state)[:700]}")
            ev = v.event if isinstance(v.event, dict) else {}
            key = f"{prop}:{ev.get('ev')}:{meta['scenario'].get('end')}"
            chk.violation(what, {"kind": "recorded", "scenario": meta["scenario"], "rejected_line": v.rel_line,
                                 "event": v.event, "trace": [json.loads(l) for l in lines]}, key=key)

        acc = vlib.validate_scenarios(SPECD, tspec, tspec + ".cfg", tp, mp, on_reject, stats=chk.extra,
                                      chunk=(2 if tspec != "QueueTrace" else vchunk))
        chk.traces += acc
        metas = vlib.read_ndjson(mp)
        total_events += sum(m["events"] for m in metas)
        for m in metas:
            s = m["scenario"]
            chk.evaluations += 1
            chk.nontrivial.add(json.dumps([s.get("cap"), len(s.get("producers", [])), s.get("end"), s.get("boxed"),
                                           s.get("flush_us"), bool(s.get("stall")), len(s.get("flushers", [])),
                                           s.get("permille"), s.get("race_rounds"), s.get("count_only"), m["events"]]))
        if c0 == 0:
            with open(tp) as f:
                head = [json.loads(next(f)) for _ in range(min(12, metas[0]["events"]))]
            chk.sample({"scenario": metas[0]["scenario"], "first_events": head})
    chk.extra["recorded_events"] = chk.extra.get("recorded_events", 0) + total_events


# --------------------------------------------------------------------------------------------
# scheduled replay of TLC behaviours
# --------------------------------------------------------------------------------------------
GRANT = {  # model action -> (actor, replay action) ; internal sub-steps are skipped
    "AStart": None, "Push": "Push", "PUnpark": "PUnpark", "DropSink": "DropSink",
    "FSend": "FSend", "FUnpark": "FUnpark", "FComplete": None,
    "HSetFlag": "HSetFlag", "HUnpark": "HUnpark", "HJoin": "HJoin", "HForget": "HForget", "DropMain": None,
    "Tick": None,
    "OuterStart": "OuterStart", "PopSome": "PopSome", "PopNone": "PopNone", "Consume": "Consume",
    "Report": None, "SkipReport": None,
    "Handle": "Handle", "HWake": None, "HCollect": "Decide", "Park": "Park", "AfterPark": "AfterPark",
    "OuterFlush": "OuterFlush", "ExitCheck": None, "SFlush": "SFlush", "Close": "Close", "ExitWake": None,
}


def gen_schedules(chk, cfg, num, depth, seed):
    """TLC -simulate over BackgroundQueueReplay: one JSON behaviour per simulated run."""
    r = vlib.tlc(SPECD, "BackgroundQueueReplay", cfg, workers=1, simulate=num, depth=depth, seed=seed, timeout=900,
                 env={"BQ_DEPTH": str(depth)})
    beh = vlib.replay_lines(r)
    return beh, r


def run_scheduled(chk, prop, tier):
    num = 150 if tier == "quick" else 3000
    cfgs = ["MC_replay_a.cfg", "MC_replay_b.cfg"]
    scheds = []
    sid = 0
    for ci, cfg in enumerate(cfgs):
        beh, r = gen_schedules(chk, cfg, num, 90, chk.seed * 10 + ci)
        seen = set()
        for b in beh:
            key = json.dumps(b["steps"])
            if key in seen:
                continue
            seen.add(key)
            sid += 1
            steps = []
            results = {}
            exited = False
            for st in b["steps"]:
                act, who = st[0], st[1]
                if act == "Consume":
                    e = int(st[2])
                    results[str((e // 100) * 10000 + e % 100)] = st[3]
                if act == "ExitWake":
                    if not exited:
                        steps.append([who, "Exit"])
                    exited = True
                    continue
                g = GRANT.get(act)
                if g is None:
                    continue
                steps.append([who, g])
            scheds.append({"id": sid, "cap": b["cap"], "producers": b["producers"], "maxapp": b["maxapp"],
                           "flushers": b["flushers"], "results": results, "steps": steps})
    if not scheds:
        raise vlib.ToolError("no schedules generated")
    sp = os.path.join(chk.dir, "sched-scen.ndjson")
    tp = os.path.join(chk.dir, "sched-trace.ndjson")
    mp = os.path.join(chk.dir, "sched-meta.ndjson")
    vlib.write_ndjson(sp, scheds)
    vlib.run_bin("bq", ["sched", "--schedules", sp, "--out", tp, "--meta", mp], timeout=3600)

    def on_reject(meta, v, lines):
        what = (f"scheduled replay {meta['id']} of a BackgroundQueue.tla behaviour is not a behaviour of QueueAbs: "
                + (f"invariant {v.invariant}" if v.invariant else f"event {json.dumps(v.event)} not enabled")
                + f"; abstract state: {v.state}")
        ev = v.event if isinstance(v.event, dict) else {}
        chk.violation(what, {"kind": "scheduled", "schedule": meta["scenario"], "event": v.event,
                             "trace": [json.loads(l) for l in lines]}, key=f"{prop}:sched:{ev.get('ev')}")

    acc = vlib.validate_scenarios(SPECD, "QueueTrace", "QueueTrace.cfg", tp, mp, on_reject, stats=chk.extra)
    chk.traces += acc
    metas = vlib.read_ndjson(mp)
    ndrift = 0
    for m in metas:
        chk.evaluations += 1
        chk.nontrivial.add("sched:" + json.dumps(m["scenario"]["steps"]))
        if m["result"]["drift"]:
            ndrift += 1
            if len(chk.drift) < 20:
                chk.drift.append({"schedule": m["id"], "drift": m["result"]["drift"][:3]})
    chk.extra["scheduled_replays"] = len(metas)
    chk.extra["scheduled_replays_in_sync"] = len(metas) - ndrift
    chk.sample({"schedule": metas[0]["scenario"]["steps"][:40]})


# --------------------------------------------------------------------------------------------
# WakerTracker replay (C04)
# --------------------------------------------------------------------------------------------
def run_apalache_inductive(chk):
    """Unbounded safety of the waker protocol (S1) by an inductive invariant, discharged with
    Apalache (no bound on calls, counts, capacity 1..64; 3 requests)."""
    import subprocess, time, re
    d = os.path.join(SPECD, "apalache")
    out = os.path.join(chk.dir, "apalache-out")
    steps = [("Init => IndInv", ["--init=Init", "--inv=IndInv", "--length=0"]),
             ("IndInv /\\ Next => IndInv'", ["--init=IndInit", "--inv=IndInv", "--length=1"])]
    ok = 0
    t0 = time.time()
    for name, args in steps:
        cmd = ["apalache-mc", "check", "--cinit=ConstInit", f"--out-dir={out}"] + args + ["WakerTrackerInd.tla"]
        try:
            p = subprocess.run(cmd, cwd=d, stdout=subprocess.PIPE, stderr=subprocess.STDOUT, text=True, timeout=900)
        except subprocess.TimeoutExpired:
            raise vlib.ToolError("apalache timed out on WakerTrackerInd (" + name + ")")
        if "The outcome is: NoError" not in p.stdout:
            sys_out = p.stdout[-2000:]
            print(sys_out)
            raise vlib.ToolError("apalache could not discharge '" + name + "' for WakerTrackerInd.tla (the model, not the code)")
        ok += 1
    chk.extra["apalache_inductive_invariant"] = {"module": "spec/queue/apalache/WakerTrackerInd.tla", "obligations": len(steps),
                                                 "discharged": ok, "wall_s": round(time.time() - t0, 1),
                                                 "scope": "S1 for 3 requests, any capacity in 1..64, any count, unbounded number of calls"}
    log(f"[apalache] WakerTrackerInd: {ok}/{len(steps)} obligations discharged in {time.time()-t0:.1f}s")


def run_wakertracker(chk, tier):
    cfg = "MC_wt_quick.cfg" if tier == "quick" else "MC_wt.cfg"
    r = vlib.model_check(SPECD, "WakerTracker", cfg, timeout=1800)
    chk.add_model("WakerTracker/" + cfg, r)
    # behaviours: exhaustive up to a depth through the replay module
    rcfg = "MC_wt_replay_quick.cfg" if tier == "quick" else "MC_wt_replay.cfg"
    rr = vlib.tlc(SPECD, "WakerTrackerReplay", rcfg, workers=vlib.TLC_WORKERS, timeout=1800)
    if rr.errors:
        raise vlib.ToolError(f"WakerTrackerReplay failed: {rr.errors[:2]}")
    beh = vlib.replay_lines(rr)
    # deep random behaviours with many requests (late joiners, countdown resets): -simulate
    rs = vlib.tlc(SPECD, "WakerTrackerReplay", "MC_wt_replay_deep.cfg", workers=1, simulate=(400 if tier == "quick" else 6000),
                  depth=26, seed=chk.seed, timeout=900)
    deep = vlib.replay_lines(rs)
    rs2 = vlib.tlc(SPECD, "WakerTrackerReplay", "MC_wt_replay_never_empty.cfg", workers=1,
                   simulate=(400 if tier == "quick" else 6000), depth=26, seed=chk.seed + 1, timeout=900)
    deep += vlib.replay_lines(rs2)
    seen = set()
    for b in deep:
        k = json.dumps(b["steps"])
        if k not in seen:
            seen.add(k)
            beh.append(b)
    chk.extra["wakertracker_deep_behaviours"] = len(seen)
    for i, b in enumerate(beh):
        b["id"] = i
    bp = os.path.join(chk.dir, "wt-beh.ndjson")
    op = os.path.join(chk.dir, "wt-out.ndjson")
    vlib.write_ndjson(bp, beh)
    vlib.run_bin("bq", ["wt", "--behaviours", bp, "--out", op])
    outs = {o["id"]: o for o in vlib.read_ndjson(op)}
    bad = 0
    ndrift = 0
    for b in beh:
        o = outs[b["id"]]
        cap = b["cap"]
        viol = None
        drift = None
        hits, drains, pending = {}, {}, set()
        for i, (e, g) in enumerate(zip(b["steps"], o["obs"])):
            if e["op"] == "Req":
                pending.add(e["id"])
                hits[e["id"]] = 0
                drains[e["id"]] = 0
                continue
            gd, ed = sorted(g["done"]), sorted(e["done"])
            owed = e["owed"]  # after this call's pops, index id-1
            for f in pending:
                if e["drained"]:
                    drains[f] += 1
                else:
                    hits[f] += 1
            # S1: a request may complete only if nothing is owed to it, and after a flush
            if gd and not g["flushed"]:
                viol = f"call {i}: flush requests {gd} completed without the stream being flushed in that call"
                break
            early = [f for f in gd if f - 1 < len(owed) and owed[f - 1] > 0]
            if early:
                viol = (f"call {i}: flush requests {early} completed while entries queued before them were still "
                        f"unpopped (owed {owed}) - S1")
                break
            unknown = [f for f in gd if f not in pending]
            if unknown:
                viol = f"call {i}: completed requests {unknown} that were not outstanding"
                break
            pending -= set(gd)
            # L1: two batches at most
            late = [f for f in pending if hits[f] >= 2 * cap or drains[f] >= 2]
            if late:
                viol = (f"call {i}: flush requests {late} still not completed after {max(hits[f] for f in late)} progress "
                        f"calls / {max(drains[f] for f in late)} drained calls (bound 2*cap / 2) - L1")
                break
            if gd != ed and drift is None:
                drift = {"behaviour": b["id"], "call": i, "model_done": ed, "real_done": gd}
        if viol:
            bad += 1
            chk.violation("WakerTracker replay: " + viol, {"kind": "wakertracker", "behaviour": b, "observed": o["obs"]},
                          key="C04:wt")
        elif drift:
            ndrift += 1
            if len(chk.drift) < 20:
                chk.drift.append(drift)
        chk.evaluations += 1
        chk.nontrivial.add("wt:" + json.dumps(b["steps"]))
    chk.extra["wakertracker_drift"] = ndrift
    chk.traces += len(beh) - bad
    chk.extra["wakertracker_behaviours_replayed"] = len(beh)
    if beh:
        chk.sample({"wakertracker_behaviour": beh[len(beh) // 2]})


# --------------------------------------------------------------------------------------------
def run(prop, tier):
    chk = vlib.Check(prop, tier)
    chk.rule = ("evaluations = executions of the real BackgroundQueue (free-running recorded scenarios with seeded "
                "parameters, TLC-generated schedules replayed under the cooperative controller, WakerTracker.tla "
                "behaviours replayed into the real tracker); distinct_nontrivial = distinct (parameter tuple, trace length) "
                "resp. distinct schedules / behaviours")
    chk.assumptions = [
        "crossbeam ArrayQueue::force_push/pop are linearizable (modelled as the abstract drop-oldest FIFO)",
        "tokio oneshot: the receiver's waker is invoked only when the sender is dropped/used (FlushDone is logged from the waker)",
        "TLC results are exhaustive only within the constants of the MC_*.cfg files; larger instances only through recorded traces",
        "termination / completion is observed with a 10 s budget",
    ]
    vlib.cargo_build(["bq", "gs"] if prop == "C05" else ["bq"])
    # 1. the implementation-shaped model refines the property layer (exhaustive, small constants)
    quick_mc = {"C01": ["MC_q_c01.cfg"], "C04": ["MC_q_c04.cfg"], "C05": ["MC_q_c05.cfg", "MC_live.cfg"],
                "C09": ["MC_q_c09a.cfg", "MC_q_c09b.cfg"]}
    mc = quick_mc[prop] if tier == "quick" else sorted(set(["MC_quick.cfg", "MC_small.cfg", "MC_live.cfg", "MC_2p_fl.cfg",
                                                          "MC_2p_nofl.cfg"] + quick_mc[prop]))
    if prop == "C04":
        mc = mc + ["MC_credit_quick.cfg" if tier == "quick" else "MC_credit.cfg"]
    for cfg in ([] if vlib.SKIP_MC else mc):
        r = vlib.model_check(SPECD, "BackgroundQueue", cfg, timeout=7200, heap="24g" if tier == "thorough" else "8g")
        chk.add_model("BackgroundQueue/" + cfg, r)
    if prop == "C04" and not vlib.SKIP_MC:
        # non-vacuity of EbwExact (bounded progress of the whole writer loop): a model in which drain passes
        # ending with a rejected entry are not credited against the batch must violate it
        r = vlib.model_check(SPECD, "BackgroundQueue", "MC_neg_credit.cfg", expect_ok=False, timeout=600)
        if not r.invariant_violated:
            raise vlib.ToolError("MC_neg_credit.cfg: the under-counting model does not violate EbwExact (invariant vacuous?)")
        chk.extra["negative_models_rejected"] = ["BackgroundQueue/MC_neg_credit.cfg (EbwExact)"]
    # 2. recorded executions of the real code against the property layer
    rng = random.Random(chk.seed * 7919 + int(prop[1:]))
    scen = GEN[prop](rng, NSCEN[tier][prop])
    q = tier == "quick"
    if prop == "C01":
        scen += gen_forget_slowflush(rng, 6 if q else 60) + gen_smallcap_flush(rng, 8 if q else 80) + gen_report_burst(rng, 1 if q else 4) + gen_io_burst(rng, 2 if q else 8)
        scen += gen_stall_shutdown(rng, 2 if q else 10)
    if prop == "C04":
        scen += gen_slowflush_busy(rng, 10 if q else 80) + gen_flush_storm(rng, 1 if q else 4)
        scen += gen_allfail_progress(rng, 3 if q else 30) + gen_pingpong(rng, 6 if q else 60)
        scen += gen_overflow_then_flush(rng, 3 if q else 30)
    if prop == "C05":
        scen += gen_forget_slowflush(rng, 6 if q else 60) + gen_flush_faults(rng, 4 if q else 40) + gen_stall_shutdown(rng, 4 if q else 20) + gen_drop_variants(rng, 4 if q else 40) + gen_aod(rng, 4 if q else 40)
        scen += gen_unused_forget(rng, 3 if q else 20)
    if prop == "C09":
        scen += gen_forget_slowflush(rng, 6 if q else 40)
        scen += gen_race_rounds(rng, 24 if q else 200, 50) + gen_pair_rounds(rng, 10 if q else 80, 60) + gen_count_only(rng, 3 if q else 30, 2400 if q else 12000)
        scen += gen_builder_order(rng, 4 if q else 20) + gen_overflow_phases(rng, 1 if q else 6)
    for i, s in enumerate(scen):
        s["id"] = i + 1
        s.setdefault("seed", chk.seed * 100000 + i)
    run_recorded(chk, prop, scen)
    if prop == "C01":
        # the same queue in a process with a tracing subscriber installed: validation failures must
        # then NOT produce the in-band report entry (Report is not enabled when sub = 1)
        sub = gen_c01(rng, 8 if q else 80)
        for i, s in enumerate(sub):
            s["id"] = 5000 + i
            s["seed"] = chk.seed * 100000 + 5000 + i
            prods = s["producers"]
            s["results"] = _results(rng, prods, 0.4, 0.1)
        run_recorded(chk, prop, sub, tag="sub", subscriber=True)
        # ... also when the installed subscriber filters every event out (it is still a subscriber)
        sub2 = gen_c01(rng, 6 if q else 60)
        for i, s in enumerate(sub2):
            s["id"] = 5500 + i
            s["seed"] = chk.seed * 100000 + 5500 + i
            s["results"] = _results(rng, s["producers"], 0.5, 0.1)
            if i == 0:
                # the first failure of the process finds the rate limiter open: make it a validation failure
                s["results"] = {str(10001 + k): "val" for k in range(s["producers"][0]["n"])}
        run_recorded(chk, prop, sub2, tag="sub2", subscriber=2)
        # ... and a subscriber installed WHILE the queue lives (once per process, so one scenario per run)
        for j in range(1 if q else 6):
            mid = gen_c01(rng, 1)[0]
            mid.update({"id": 6000 + j, "seed": chk.seed * 100000 + 6000 + j, "end": "drop", "after_sub": 6,
                        "results": dict(_results(rng, mid["producers"], 0.5, 0.0), **{"80001": "val", "80003": "val", "80005": "val"}),
                        "flushers": [], "permille": 0})
            run_recorded(chk, prop, [mid], tag=f"submid{j}")
    if prop == "C09":
        # queues reporting to the process-GLOBAL metrics recorder under their own `sink` label: several
        # differently named queues are overflowed one after the other by the same (main) thread
        glob = gen_race_rounds(rng, 4 if q else 20, 20) + gen_pair_rounds(rng, 2 if q else 10, 20)
        for i, s in enumerate(glob):
            s["id"] = 7000 + i
            s["seed"] = chk.seed * 100000 + 7000 + i
            s["cap"] = [1, 2, 3, 4][i % 4]
            s["race_extra"] = 1 + i % 3
        run_recorded(chk, prop, glob, tag="glob", extra_args=["--global-recorder", "1"])
    if prop == "C05":
        # the attach handle of a global sink backed by a queue: appenders racing with the handle drop
        import chk_globalsink as G
        races = G.gen_races(random.Random(chk.seed * 31 + 5), 12 if q else 200)
        G.run_T(chk, prop, races, tag="detach")
    # 3. TLC schedules replayed into the real code
    run_scheduled(chk, prop, tier)
    # 4. the waker protocol, stepped through the real WakerTracker
    if prop == "C04":
        run_wakertracker(chk, tier)
        if not vlib.SKIP_MC:
            run_apalache_inductive(chk)
    return chk.finish()


def replay(prop, path):
    """Re-validate the trace stored in a violation file and re-run its scenario a few times."""
    with open(path) as f:
        v = json.load(f)
    rp = v["replay"]
    d = vlib.rundir(prop + "-replay")
    tp = os.path.join(d, "trace.ndjson")
    vlib.write_ndjson(tp, rp["trace"])
    r = vlib.validate_trace(SPECD, "QueueTrace", "QueueTrace.cfg", tp)
    log("stored trace:", "ACCEPTED" if r.accepted else f"REJECTED at line {r.line}: {r.event}")
    if rp.get("kind") == "recorded":
        vlib.cargo_build(["bq"])
        chk = vlib.Check(prop + "-replay", "quick")
        scen = [dict(rp["scenario"], id=i + 1) for i in range(10)]
        run_recorded(chk, prop, scen, tag="replay")
        return 1 if chk.violations or not r.accepted else 0
    return 0 if r.accepted else 1
