\* the loop as found on the pinned tree (D5): Terminates FAILS (self-test only)
CONSTANTS
  Producers = {1, 2}
  NSend = 1
  NK = 2
  Flushing = {1}
  BreakOnDisconnect = FALSE
SPECIFICATION FairSpec
PROPERTIES Terminates FlushLive
CHECK_DEADLOCK FALSE
