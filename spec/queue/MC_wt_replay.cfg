CONSTANTS
  Cap = 3
  K = 2
  Reqs = {1, 2, 3}
  MaxCalls = 7
  Counts = {1, 2}
  Depth = 7
  DrainedOK = TRUE
  OwedVals = {3}
SPECIFICATION RSpec
INVARIANT Emit
INVARIANT WInv
CONSTRAINT Bound
CHECK_DEADLOCK FALSE
