--------------------------- MODULE ServiceTrace ---------------------------
(***************************************************************************)
(* Trace validation (T direction) for X01: is an execution recorded from   *)
(* the real service-shaped program (harness/src/bin/svc.rs: request        *)
(* threads and sub-task threads using #[metrics] entries, the global       *)
(* ServiceMetrics, a real BackgroundQueue, the real Emf formatter writing  *)
(* into a recording io::Write) a behaviour of the composition Service.tla? *)
(*                                                                         *)
(* Logged by the request / sub-task threads: ReqStart, SinkStart/SinkEnd   *)
(* (try_sink), Work, SubWork, DropStart/DropEnd (k = "o" owner, "g" the    *)
(* sub-task's guard), TryStart/TryEnd (try_append); by the operator:       *)
(* AttachStart/AttachEnd, FlushReq/FlushDone (FlushDone from inside the    *)
(* waker, i.e. in the writer thread), DetachStart/DetachEnd; by the        *)
(* recording io::Write inside the queue's writer thread: Line (one per     *)
(* complete line, with the members parsed by the strict JSON parser and    *)
(* the EMF projection), WFlush, WClose.                                    *)
(*                                                                         *)
(* Not observable, hence silent steps placed by TLC: the instants at which *)
(* try_sink / try_append / attach / the handle drop take effect, the       *)
(* linearization of a queue append, the writer's pop.  The hints h (the    *)
(* result a call reports later) and r (position of the request's line in   *)
(* the output, 0 = never) are computed from the trace itself and only      *)
(* prune runs that could never be accepted (see QueueTrace.tla).           *)
(*                                                                         *)
(* Events the harness logs when something that must not happen did         *)
(* (BadLine: a line that is not valid EMF or has no request id, Panic,     *)
(* DetachTimeout, FlushTimeout, Altered) are consumed by no action.        *)
(***************************************************************************)
EXTENDS Service, Json, IOUtils

Rec == ndJsonDeserialize(IOEnv.TRACE)
N == Len(Rec)

VARIABLES l,   \* next line of the trace
          rk,  \* request |-> position of its line in the output (0 = never)
          hint \* request |-> result its try_sink / try_append will report
tvars == <<vars, l, rk, hint>>

Ev(name) == l <= N /\ Rec[l].ev = name
Adv == l' = l + 1
Keep == UNCHANGED <<rk, hint>>

TInit == l = 1 /\ SInit(1) /\ rk = <<>> /\ hint = <<>> /\ TLCSet(1, 1) /\ TLCSet(2, <<>>)

TReset ==
    /\ Ev("Reset") /\ Adv
    /\ cap' = Rec[l].cap /\ q' = <<>> /\ pending' = {} /\ linned' = {} /\ ended' = {} /\ cur' = 0
    /\ nexted' = <<>> /\ lastRes' = "none" /\ lost' = {} /\ flushed' = {} /\ unflushed' = 0
    /\ closed' = FALSE /\ before' = <<>> /\ fdone' = {} /\ hs' = "held" /\ snap' = {} /\ sinks' = 1
    /\ aatt' = 0 /\ pendApp' = {} /\ linApp' = {} /\ okd' = {} /\ errd' = {}
    /\ accepted' = [s \in {S1} |-> {}] /\ gnexted' = [s \in {S1} |-> <<>>] /\ nflushed' = [s \in {S1} |-> 0]
    /\ closedS' = {} /\ astate' = [s \in {S1} |-> "new"]
    /\ rq' = <<>> /\ out' = <<>> /\ rk' = <<>> /\ hint' = <<>>

E == Rec[l].e
TheLine == [e |-> Rec[l].e, op |-> Rec[l].op, ts |-> Rec[l].ts, c |-> Rec[l].c, h |-> Rec[l].h,
            t |-> Rec[l].t, sub |-> Rec[l].sub]

TReqStart  == Ev("ReqStart") /\ Adv /\ ReqStart(Rec[l].p, E, Rec[l].mode, Rec[l].op, Rec[l].ts) /\ Keep
TSinkStart == Ev("SinkStart") /\ Adv /\ SinkStart(E) /\ hint' = (E :> Rec[l].h) @@ hint /\ UNCHANGED rk
TSinkEnd   == Ev("SinkEnd") /\ Adv /\ SinkEnd(E, Rec[l].ok = 1) /\ Keep
TWork      == Ev("Work") /\ Adv /\ Work(E, Rec[l].by, Rec[l].d) /\ Keep
TSubWork   == Ev("SubWork") /\ Adv /\ SubWork(E, Rec[l].by, Rec[l].d) /\ Keep
TDropStart == Ev("DropStart") /\ Adv /\ rk' = (E :> Rec[l].r) @@ rk /\ UNCHANGED hint
              /\ IF Rec[l].k = "o" THEN ODropStart(E) ELSE GDropStart(E)
TDropEnd   == Ev("DropEnd") /\ Adv /\ Keep
              /\ IF Rec[l].k = "o" THEN ODropEnd(E) ELSE GDropEnd(E)
TTryStart  == Ev("TryStart") /\ Adv /\ TryStart(E)
              /\ rk' = (E :> Rec[l].r) @@ rk /\ hint' = (E :> Rec[l].h) @@ hint
TTryEnd    == Ev("TryEnd") /\ Adv /\ TryEnd(E, Rec[l].ok = 1) /\ Keep
TLine      == Ev("Line") /\ Adv /\ Write(E, TheLine) /\ Keep
TWFlush    == Ev("WFlush") /\ Adv /\ WFlush /\ Keep
TWClose    == Ev("WClose") /\ Adv /\ WClose /\ Keep
TAttStart  == Ev("AttachStart") /\ Adv /\ AttachStart /\ Keep
TAttEnd    == Ev("AttachEnd") /\ Adv /\ Rec[l].ok = 1 /\ AttachEnd /\ Keep
TDetStart  == Ev("DetachStart") /\ Adv /\ DetachStart /\ Keep
TDetEnd    == Ev("DetachEnd") /\ Adv /\ DetachEnd /\ Keep
TFlushReq  == Ev("FlushReq") /\ Adv /\ FlushReq(Rec[l].f) /\ Keep
TFlushDone == Ev("FlushDone") /\ Adv /\ FlushDone(Rec[l].f) /\ Keep
TQuiesce   == Ev("Quiesce") /\ Adv /\ Quiesced /\ UNCHANGED vars /\ Keep

\* ---- silent steps -------------------------------------------------------------------------------
\* The placement of the silent steps is canonical; each rule below only removes runs that are
\* equivalent to a run that is kept (measured: without them 4 concurrent handlers x 100 requests did
\* not finish, with them the search is linear in the length of the trace):
\*  - try_sink / try_append take effect EAGERLY, as soon as the state of the global agrees with the result
\*    the call reports later (hint).  Taking effect earlier while the global is in the same state changes
\*    nothing but the time at which the entry counts as accepted / its append as begun, and every
\*    obligation that follows from that exists at the later time as well.
\*  - the linearization of a queue append and the writer's pop happen LAZILY, just in time: a pop
\*    immediately before the line of the popped entry; a linearization when the append of the entry
\*    (or of one that must be behind it in the FIFO) is about to return or its line is about to be
\*    written.  Nothing else reads the queue.
\*  - a FIFO hands entries over in linearization order (r, see QueueTrace.tla); without overflow (the
\*    driver keeps the capacity above the number of requests) an entry that is never written (r = 0)
\*    is behind every entry that is written.
\*  The instants at which attach and the handle drop take effect are placed freely.
Silent(A) == l <= N /\ A /\ UNCHANGED <<l, rk, hint>>
Agrees(e) == (hint[e] = 1) = (aatt # 0)
EagerEnabled == \/ \E e \in DOMAIN rq : rq[e].sk = "look" /\ Agrees(e)
                \/ \E pe \in pendApp : Agrees(pe[2])
SSinkLin == Silent(\E e \in DOMAIN rq : rq[e].sk = "look" /\ Agrees(e) /\ SinkLin(e))
STryLin  == Silent(\E pe \in pendApp : Agrees(pe[2]) /\ TryLin(pe[2]))
SAtt     == Silent(AttachLin \/ DetachLin)
ForcedBy(e) == Rec[l].ev \in {"DropEnd", "TryEnd", "Line"} /\ Rec[l].e = e
Urgent(e) == \E pe \in pending : /\ ForcedBy(pe[2])
                                  /\ ((rk[pe[2]] = 0 /\ Rec[l].ev # "Line") \/ (rk[e] > 0 /\ rk[pe[2]] >= rk[e]))
InOrder(e) == \A pe2 \in pending : IF rk[e] = 0 THEN rk[pe2[2]] = 0
                                     ELSE rk[pe2[2]] = 0 \/ rk[e] <= rk[pe2[2]]
SQLin    == Silent(\E pe \in pending : /\ Urgent(pe[2]) /\ InOrder(pe[2]) /\ QLin(pe[2])
                                       /\ (Len(q) >= cap => rk[Head(q)] = 0))
SQPop    == Silent(/\ Rec[l].ev = "Line" /\ q # <<>> /\ Head(q) = Rec[l].e
                   /\ rk[Head(q)] = Len(nexted) + 1 /\ QPop)

Logged ==
    \/ TReset \/ TReqStart \/ TSinkStart \/ TSinkEnd \/ TWork \/ TSubWork \/ TDropStart \/ TDropEnd
    \/ TTryStart \/ TTryEnd \/ TLine \/ TWFlush \/ TWClose \/ TAttStart \/ TAttEnd \/ TDetStart \/ TDetEnd
    \/ TFlushReq \/ TFlushDone \/ TQuiesce

TNext_ == IF l <= N /\ EagerEnabled THEN SSinkLin \/ STryLin
          ELSE Logged \/ SAtt \/ SQLin \/ SQPop

TSpec == TInit /\ [][TNext_]_tvars

\* The end-to-end statements are stable (once false they stay false within a scenario), so it is enough -
\* and much cheaper on long traces - to evaluate them when a scenario has come to rest.
TraceInv == (l > N \/ Rec[l].ev = "Quiesce") => SvcInv

\* ---- diagnosis of the event that could not be consumed (printed with the rejection) ---------------
Missing(s) == s \ (lost \cup flushed)
Why ==
    IF l > N THEN <<"end">>
    ELSE LET ev == Rec[l].ev IN
      IF ev = "Line" THEN
         IF ~Has(E) THEN <<"line of a request that was never started">>
         ELSE IF E \in Written THEN <<"second line of this request">>
         ELSE IF ~rq[E].em THEN <<"line of a request whose entry has not been appended">>
         ELSE <<"expected", [op |-> rq[E].op, ts |-> rq[E].ts, c |-> rq[E].cnt, h |-> rq[E].cnt,
                            tlo |-> rq[E].tlo, thi |-> IF rq[E].thi = -1 THEN rq[E].clk ELSE rq[E].thi,
                            mode |-> rq[E].mode, subv |-> rq[E].subv, gst |-> rq[E].gst,
                            gAtOS |-> rq[E].gAtOS, gAtOE |-> GuardAtOwnerEnd(rq[E])],
                 "cur", cur, "closed", closed>>
      ELSE IF ev = "DetachEnd" THEN
         <<"closed", closed, "unflushed", unflushed, "accepted not flushed", Missing(accepted[S1]),
           "appended before DetachStart, not written", snap \ Written>>
      ELSE IF ev = "FlushDone" /\ Rec[l].f \in DOMAIN before THEN
         <<"closed", closed, "appended before the request, not flushed", Missing(before[Rec[l].f])>>
      ELSE IF ev = "Quiesce" THEN
         <<"not flushed", {e \in DOMAIN rq : Must(e) /\ e \notin flushed}, "written although handed back", errd \cap Written,
           "pending", pending, linned, pendApp, linApp>>
      ELSE IF ev \in {"DropEnd", "TryEnd", "SinkEnd", "DropStart", "TryStart", "Work", "SubWork"} /\ Has(E) THEN <<"request", rq[E]>>
      ELSE <<"state", astate, hs, closed>>

\* high-water mark of consumed lines (register 1); needs -workers 1
Track ==
    /\ IF l > TLCGet(1) THEN TLCSet(1, l) /\ TLCSet(2, Why) ELSE TRUE
    /\ IF l = N + 1 THEN TLCSet("exit", TRUE) ELSE TRUE

Accepted ==
    IF TLCGet(1) = N + 1 THEN PrintT(<<"ACCEPTED", N>>)
    ELSE /\ PrintT(<<"REJECTED", TLCGet(1), ToJson(Rec[TLCGet(1)]), TLCGet(2)>>)
         /\ FALSE
=============================================================================
