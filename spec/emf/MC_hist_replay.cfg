\* C14 behaviours, thorough: every triple of kinds for every configuration
CONSTANTS
  Bug = "none"
  ConfigNames = {"v1", "n1", "v2d", "n2d", "v3dd", "v1i", "s2d", "sn1", "wf", "ws", "wg"}
  Depth = 3
  Shallow = 3
  Deep = {}
SPECIFICATION RSpec
INVARIANT Emit
CONSTRAINT Bound
CHECK_DEADLOCK FALSE
