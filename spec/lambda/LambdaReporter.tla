--------------------------- MODULE LambdaReporter ---------------------------
(***************************************************************************)
(* X02 (a): the Lambda-style reporter of metrique-metricsrs                 *)
(* (lambda_reporter.rs: install_reporter_to_writer, flush_metrics,          *)
(* BufferingStdoutWriter).                                                  *)
(*                                                                         *)
(* Life cycle: during an invocation the handler updates counters, gauges    *)
(* and histograms through the metrics.rs facade (cells of the global        *)
(* recorder); at the end of the invocation ONE flush_metrics call reads the *)
(* recorder out (counters and histograms are drained, gauges stay), formats *)
(* the readout into the buffering writer and flushes the buffer: the        *)
(* destination (one fresh handle from the `Fn() -> io::Write` per flush,    *)
(* stdout in production) receives what was buffered in one piece.           *)
(*                                                                         *)
(* Implementation-shaped layer: one action per step of flush_metrics        *)
(*   FlushCall -> Readout -> Format -> Deliver -> Return                    *)
(* (pc), the buffering writer = wbuf (records buffered) + failed (`buf:     *)
(* None`, "turn temporary errors into permanent errors"), the destination   *)
(* misbehaves as chosen by FlushCall: ok | short (partial writes) | intr    *)
(* (ErrorKind::Interrupted) | werr0 (error, nothing accepted) | werrP       *)
(* (error after a partial write) | ferr (everything accepted, flush fails). *)
(* EmptyFlush = the periodic flush of the reporter's background queue: the  *)
(* buffer is empty whenever it can run, so it hands nothing over.           *)
(*                                                                         *)
(* Property layer (history variables incT, recT, lostC, lostH, retd, ...):  *)
(*   Conservation   every increment / sample is in exactly one place: still *)
(*                  in its cell, in the readout in flight, buffered, in ONE *)
(*                  record at the destination, or lost to a destination     *)
(*                  error - never in two records, never nowhere             *)
(*   NoDup          records arrive in invocation order, none twice          *)
(*   NoTear         the destination never receives part of a record unless  *)
(*                  it tore it itself (werrP)                               *)
(*   OnlyOnFlush    nothing of invocation i reaches the destination before  *)
(*                  the flush of invocation i; between invocations the      *)
(*                  buffer is empty                                         *)
(*   FlushDelivers  when flush_metrics returns and the destination has      *)
(*                  never failed, the record of that invocation is there    *)
(*   Permanent      after a destination error nothing is handed over any    *)
(*                  more (a partial record is never completed or repeated)  *)
(*   GaugeLast      a record carries, for every registered gauge, the value *)
(*                  last set before its readout                             *)
(* CONSTANT Bug re-introduces a defect (the model must then fail):          *)
(*   noclear (buffer not cleared after a flush), eager (buffer writes       *)
(*   through), noswap (readout does not drain counters), nowait             *)
(*   (flush_metrics returns before the data flush), retry (errors are not   *)
(*   permanent: the buffer is kept and sent again), gaugereset.             *)
(***************************************************************************)
EXTENDS Naturals, Sequences, FiniteSets, TLC

CONSTANTS CKeys, GKeys, HKeys,      \* counter / gauge / histogram keys
          GVals,                    \* values a gauge may be set to (positive)
          MaxInv,                   \* invocations
          MaxUpd,                   \* updates per invocation
          Faults,                   \* subset of {"ok","short","intr","werr0","werrP","ferr"}
          Bug

VARIABLES cnt, gau, hst,            \* recorder cells (gau = 0: not registered)
          pc, cur, fault,           \* flush_metrics in progress: program counter, readout in flight, destination behaviour
          wbuf, failed,             \* buffering writer
          dest,                     \* destination: sequence of chunks [recs, torn, f, inv]
          inv, nupd,
          incT, recT, lastSet, lostC, lostH, retd, failedAt, destAtFail

vars == <<cnt, gau, hst, pc, cur, fault, wbuf, failed, dest, inv, nupd,
          incT, recT, lastSet, lostC, lostH, retd, failedAt, destAtFail>>

Zero(S) == [k \in S |-> 0]
IncOf(k) == IF k = "c1" THEN 1 ELSE 2          \* distinct amounts: a delta identifies its key
Nil == [inv |-> 0, c |-> Zero(CKeys), g |-> Zero(GKeys), h |-> Zero(HKeys)]
Benign == {"ok", "short", "intr"}

RECURSIVE SumRecs(_, _, _)
SumRecs(s, fld, k) == IF s = <<>> THEN 0 ELSE Head(s)[fld][k] + SumRecs(Tail(s), fld, k)
RECURSIVE SumChunks(_, _, _)
SumChunks(s, fld, k) == IF s = <<>> THEN 0 ELSE SumRecs(Head(s).recs, fld, k) + SumChunks(Tail(s), fld, k)
RECURSIVE Flat(_)
Flat(s) == IF s = <<>> THEN <<>> ELSE Head(s).recs \o Flat(Tail(s))
Invs(s) == [i \in 1..Len(Flat(s)) |-> Flat(s)[i].inv]

Init ==
    /\ cnt = Zero(CKeys) /\ gau = Zero(GKeys) /\ hst = Zero(HKeys)
    /\ pc = "idle" /\ cur = Nil /\ fault = "ok"
    /\ wbuf = <<>> /\ failed = FALSE /\ dest = <<>>
    /\ inv = 0 /\ nupd = 0
    /\ incT = Zero(CKeys) /\ recT = Zero(HKeys) /\ lastSet = Zero(GKeys)
    /\ lostC = Zero(CKeys) /\ lostH = Zero(HKeys) /\ retd = {} /\ failedAt = 0 /\ destAtFail = 0

\* ---- updates during an invocation (metrics::counter! / gauge! / histogram!) -----------------
Upd == /\ pc = "idle" /\ inv < MaxInv /\ nupd < MaxUpd /\ nupd' = nupd + 1
       /\ UNCHANGED <<pc, cur, fault, wbuf, failed, dest, inv, lostC, lostH, retd, failedAt, destAtFail>>
Inc(k) == /\ Upd
          /\ cnt' = [cnt EXCEPT ![k] = @ + IncOf(k)] /\ incT' = [incT EXCEPT ![k] = @ + IncOf(k)]
          /\ UNCHANGED <<gau, hst, recT, lastSet>>
SetG(k, v) == /\ Upd
              /\ gau' = [gau EXCEPT ![k] = v] /\ lastSet' = [lastSet EXCEPT ![k] = v]
              /\ UNCHANGED <<cnt, hst, incT, recT>>
Rec(k) == /\ Upd
          /\ hst' = [hst EXCEPT ![k] = @ + 1] /\ recT' = [recT EXCEPT ![k] = @ + 1]
          /\ UNCHANGED <<cnt, gau, incT, lastSet>>

\* ---- flush_metrics ---------------------------------------------------------------------------
FlushCall(f) ==
    /\ pc = "idle" /\ inv < MaxInv
    /\ pc' = "read" /\ inv' = inv + 1 /\ fault' = f /\ nupd' = 0
    /\ UNCHANGED <<cnt, gau, hst, cur, wbuf, failed, dest, incT, recT, lastSet, lostC, lostH, retd, failedAt, destAtFail>>

\* MetricRecorder::readout: counters swap(0), histograms drain, gauges load
Readout ==
    /\ pc = "read"
    /\ cur' = [inv |-> inv, c |-> cnt, g |-> gau, h |-> hst]
    /\ cnt' = IF Bug = "noswap" THEN cnt ELSE Zero(CKeys)
    /\ hst' = Zero(HKeys)
    /\ gau' = IF Bug = "gaugereset" THEN Zero(GKeys) ELSE gau
    /\ pc' = "queued"
    /\ UNCHANGED <<fault, wbuf, failed, dest, inv, nupd, incT, recT, lastSet, lostC, lostH, retd, failedAt, destAtFail>>

Lose(recs) == /\ lostC' = [k \in CKeys |-> lostC[k] + SumRecs(recs, "c", k)]
              /\ lostH' = [k \in HKeys |-> lostH[k] + SumRecs(recs, "h", k)]

\* the queue's writer thread hands the readout to the format, which writes into the buffering writer
Format ==
    /\ pc = "queued"
    /\ pc' = "buffered" /\ cur' = Nil
    /\ IF failed
         THEN /\ Lose(<<cur>>) /\ UNCHANGED <<wbuf, dest>>            \* write after error: BrokenPipe
         ELSE IF Bug = "eager"
           THEN /\ dest' = dest \o <<[recs |-> <<>>, torn |-> TRUE, f |-> "none", inv |-> inv],
                                     [recs |-> <<>>, torn |-> TRUE, f |-> "none", inv |-> inv]>>
                /\ Lose(<<cur>>) /\ UNCHANGED wbuf
           ELSE /\ wbuf' = Append(wbuf, cur) /\ UNCHANGED <<dest, lostC, lostH>>
    /\ UNCHANGED <<cnt, gau, hst, fault, failed, inv, nupd, incT, recT, lastSet, retd, failedAt, destAtFail>>

Fail == IF Bug = "retry" THEN UNCHANGED <<failed, failedAt, destAtFail>>
        ELSE /\ failed' = TRUE /\ failedAt' = inv /\ destAtFail' = Len(dest')

\* the flush that carries the data: BufferingStdoutWriter::flush -> (f)(), write_all(buf), flush()
Deliver ==
    /\ pc = "buffered"
    /\ pc' = "flushed"
    /\ IF failed \/ wbuf = <<>>
         THEN UNCHANGED <<wbuf, dest, failed, failedAt, destAtFail, lostC, lostH>>
         ELSE CASE fault \in Benign ->
                     /\ dest' = Append(dest, [recs |-> wbuf, torn |-> FALSE, f |-> "ok", inv |-> inv])
                     /\ wbuf' = IF Bug = "noclear" THEN wbuf ELSE <<>>
                     /\ UNCHANGED <<failed, failedAt, destAtFail, lostC, lostH>>
                [] fault = "werr0" ->
                     /\ dest' = dest
                     /\ Fail
                     /\ IF Bug = "retry" THEN UNCHANGED <<wbuf, lostC, lostH>> ELSE wbuf' = <<>> /\ Lose(wbuf)
                [] fault = "werrP" ->
                     /\ dest' = Append(dest, [recs |-> <<>>, torn |-> TRUE, f |-> fault, inv |-> inv])
                     /\ Fail
                     /\ IF Bug = "retry" THEN UNCHANGED <<wbuf, lostC, lostH>> ELSE wbuf' = <<>> /\ Lose(wbuf)
                [] fault = "ferr" ->
                     /\ dest' = Append(dest, [recs |-> wbuf, torn |-> FALSE, f |-> fault, inv |-> inv])
                     /\ wbuf' = <<>>
                     /\ Fail
                     /\ UNCHANGED <<lostC, lostH>>
    /\ UNCHANGED <<cnt, gau, hst, cur, fault, inv, nupd, incT, recT, lastSet, retd>>

Return ==
    /\ pc = "flushed" \/ (Bug = "nowait" /\ pc = "buffered")
    /\ pc' = "idle" /\ retd' = retd \cup {inv} /\ fault' = "ok"
    /\ UNCHANGED <<cnt, gau, hst, cur, wbuf, failed, dest, inv, nupd, incT, recT, lastSet, lostC, lostH, failedAt, destAtFail>>

\* periodic flush of the background queue (any time the writer thread is not inside Format/Deliver):
\* hands over whatever is buffered - which is nothing, see BufferEmpty
EmptyFlush ==
    /\ pc \in {"idle", "read", "queued"} /\ ~failed /\ wbuf # <<>>
    /\ dest' = Append(dest, [recs |-> wbuf, torn |-> FALSE, f |-> "ok", inv |-> 0])
    /\ wbuf' = <<>>
    /\ UNCHANGED <<cnt, gau, hst, pc, cur, fault, failed, inv, nupd, incT, recT, lastSet, lostC, lostH, retd, failedAt, destAtFail>>

Next ==
    \/ \E k \in CKeys : Inc(k)
    \/ \E k \in GKeys, v \in GVals : SetG(k, v)
    \/ \E k \in HKeys : Rec(k)
    \/ \E f \in Faults : FlushCall(f)
    \/ Readout \/ Format \/ Deliver \/ Return \/ EmptyFlush

Spec == Init /\ [][Next]_vars

\* ---- property layer --------------------------------------------------------------------------
Conservation ==
    /\ \A k \in CKeys : incT[k] = cnt[k] + cur.c[k] + SumRecs(wbuf, "c", k) + SumChunks(dest, "c", k) + lostC[k]
    /\ \A k \in HKeys : recT[k] = hst[k] + cur.h[k] + SumRecs(wbuf, "h", k) + SumChunks(dest, "h", k) + lostH[k]
NoDup == \A i, j \in 1..Len(Invs(dest)) : i < j => Invs(dest)[i] < Invs(dest)[j]
NoTear == \A i \in 1..Len(dest) : dest[i].torn => dest[i].f = "werrP"
\* a record the destination tore is never completed or repeated: nothing follows it
TornIsLast == \A i \in 1..Len(dest) : dest[i].torn => i = Len(dest)
BufferEmpty == pc \in {"idle", "read", "queued"} => wbuf = <<>>
OnlyOnFlush ==
    /\ BufferEmpty
    /\ pc \in {"read", "queued", "buffered"} => \A i \in 1..Len(dest) : dest[i].inv < inv
    /\ \A i \in 1..Len(dest) : dest[i].inv # 0 /\ \A j \in 1..Len(dest[i].recs) : dest[i].recs[j].inv = dest[i].inv
FlushDelivers == \A i \in retd : (failedAt = 0 \/ i < failedAt) => \E j \in 1..Len(Invs(dest)) : Invs(dest)[j] = i
\* lost only to the destination: nothing is lost while it has never failed
LossOnlyByError == failedAt = 0 => lostC = Zero(CKeys) /\ lostH = Zero(HKeys)
Permanent == failed => Len(dest) = destAtFail
GaugeLast == cur # Nil => cur.g = lastSet
LInv == Conservation /\ NoDup /\ NoTear /\ TornIsLast /\ OnlyOnFlush /\ FlushDelivers /\ LossOnlyByError /\ Permanent /\ GaugeLast
=============================================================================
