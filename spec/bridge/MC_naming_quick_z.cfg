CONSTANTS
  Depth = 4
  EmitZero = TRUE
  DescUnits = {"Bytes", "TerabitsPerSecond"}
SPECIFICATION Spec
INVARIANT Emit
INVARIANT UnitInv
CONSTRAINT Bound
CHECK_DEADLOCK FALSE
