CONSTANTS
  Slots = {1}
  Ds = {1}
  MaxClock = 1000
  W0 = 1700000
  W0B = 9000000
  Ambients = {"A", "B", "none"}
  Threads = {"main", "other"}
  Resolution = "captured"
  UnwindDrops = TRUE
  Depth = 6
SPECIFICATION RSpec
INVARIANT Emit
INVARIANT TmInv
CONSTRAINT Bound
CHECK_DEADLOCK FALSE
