\* deep random behaviours (tlc -simulate): many requests, small counts, so that batches are
\* joined late and countdowns run for many calls
CONSTANTS
  Cap = 3
  K = 1
  Reqs = {1, 2, 3, 4, 5, 6, 7, 8}
  MaxCalls = 24
  Counts = {1, 2}
  Depth = 24
  DrainedOK = TRUE
  OwedVals = {0, 3}
SPECIFICATION RSpec
INVARIANT Emit
INVARIANT WInv
CONSTRAINT Bound
CHECK_DEADLOCK FALSE
