CONSTANTS
  Strategy = "sam"
  Procs = {1}
  MaxOps = 4
  Occs = {1, 3}
  MaxDrains = 2
SPECIFICATION Spec
INVARIANT HInv
CHECK_DEADLOCK FALSE
