//! Driver for the background queue (C01 C04 C05 C09 C16-sink).
//!
//!   bq run   --scenarios s.ndjson --out trace.ndjson --meta meta.ndjson
//!       free-running recorded executions (T direction): every scenario is executed with real OS
//!       threads; AppStart/AppEnd, stream events, flush requests/completions, handle and sink
//!       drops are logged in one totally ordered trace that TLC checks against QueueTrace.tla
//!   bq sched --schedules b.ndjson --out trace.ndjson --meta meta.ndjson
//!       scheduled replay (R direction): a TLC behaviour of BackgroundQueue.tla (sequence of
//!       (actor, action)) is stepped through the real code under the cooperative controller
//!   bq wt    --behaviours b.ndjson --out results.ndjson
//!       replays WakerTracker.tla behaviours into the real WakerTracker

use metrique_writer::sink::BackgroundQueueBuilder;
use metrique_writer::{AnyEntrySink, BoxEntry, BoxEntrySink, EntrySink};
use serde::Deserialize;
use serde_json::{Value, json};
use std::collections::HashMap;
use std::future::Future;
use std::io::Write;
use std::pin::Pin;
use std::sync::atomic::{AtomicBool, Ordering};
use std::sync::{Arc, Barrier, Condvar, Mutex};
use std::task::{Context, Poll, Wake, Waker};
use std::time::{Duration, Instant};
use vharness::sched::{self, Arrival};
use vharness::stream::{BigEntry, NumEntry, Res, StreamCtl};
use vharness::{trace, util};

const BUDGET: Duration = Duration::from_secs(10);

#[derive(Deserialize, Clone, Debug)]
struct Producer {
    n: u64,
    #[serde(default)]
    pace_us: u64,
    /// C04: request a flush right after every append and wait for it (append / flush ping-pong);
    /// before each append wait a pseudo-random 0..jitter_us
    #[serde(default)]
    flush_each: bool,
    #[serde(default)]
    jitter_us: u64,
    /// with flush_each: wait a pseudo-random 0..flush_delay_us between the append and the request
    #[serde(default)]
    flush_delay_us: u64,
}

#[derive(Deserialize, Clone, Debug)]
struct Flusher {
    count: u64,
    #[serde(default)]
    delay_us: u64,
    #[serde(default)]
    gap_us: u64,
    /// issue the requests at a fixed cadence without waiting for the previous one to complete
    #[serde(default)]
    fire: bool,
}

#[derive(Deserialize, Clone, Debug, Default)]
struct Stall {
    /// the writer is stalled inside `next` of producer 1's k-th entry (1-based)
    k: u64,
    /// producers wait for the stall before appending their remaining entries
    #[serde(default)]
    release_after_appends: bool,
}

#[derive(Deserialize, Clone, Debug)]
struct Scenario {
    id: u64,
    cap: usize,
    #[serde(default)]
    boxed: bool,
    flush_us: u64,
    producers: Vec<Producer>,
    #[serde(default)]
    results: HashMap<String, String>,
    #[serde(default)]
    report_res: Option<String>,
    #[serde(default)]
    flushers: Vec<Flusher>,
    /// drop | forget | live
    end: String,
    #[serde(default)]
    permille: u32,
    #[serde(default)]
    max_us: u32,
    #[serde(default)]
    seed: u64,
    #[serde(default)]
    stall: Option<Stall>,
    #[serde(default)]
    slow_us: u64,
    #[serde(default)]
    flush_err: bool,
    /// append some entries after the handle drop / shutdown completed
    #[serde(default)]
    late_appends: u64,
    /// keep appending (refilling) while a flush is outstanding so that the queue never drains
    #[serde(default)]
    refill: bool,
    #[serde(default)]
    recorder: bool,
    /// appends of different producers never overlap (harness mutex around AppStart..AppEnd):
    /// the linearization order is then the log order
    #[serde(default)]
    serialize: bool,
    /// every stream flush takes this long (widens the windows around the periodic flush)
    #[serde(default)]
    flush_slow_us: u64,
    /// overflow race rounds (C09): the writer is stalled, the queue is filled to exactly its
    /// capacity, then the writer is released while ONE more entry is appended; repeated
    #[serde(default)]
    race_rounds: u64,
    /// race rounds: entries appended beyond the capacity while the writer is stalled (certain displacements)
    #[serde(default)]
    race_extra: u64,
    /// log only AppEnd (not AppStart) - for the counting spec on large concurrent runs
    #[serde(default)]
    count_only: bool,
    /// log the queue's own metrics (X04) after the handle drop
    #[serde(default)]
    self_metrics: bool,
    /// BackgroundQueueBuilder::shutdown_timeout (ms); 0 = default (30 s)
    #[serde(default)]
    shutdown_timeout_ms: u64,
    /// keep the stalled stream stalled while the handle is being dropped, for this long
    #[serde(default)]
    hold_stall_ms: u64,
    /// C09 pair rounds: writer stalled, queue filled to capacity-1, then TWO producers append
    /// one entry each at the same instant
    #[serde(default)]
    pair_rounds: u64,
    /// C01: after the producers have finished, install a global tracing subscriber (once per
    /// process!), wait for the rate limiter, then append `after_sub` more entries
    #[serde(default)]
    after_sub: u64,
    /// C01 (rate-limited report): one validation failure, `quiet_ms` without failures, then a
    /// quick burst of `n` failing entries; a burst shorter than 1 s may see at most 2 reports
    #[serde(default)]
    report_burst: Option<ReportBurst>,
    /// C04: while the writer is stalled, issue this many flush requests (each polled once)
    #[serde(default)]
    flush_storm: u64,
    /// C05: the join handle is dropped by unwinding (its owner panics)
    #[serde(default)]
    drop_unwind: bool,
    /// C05: (forget) a FlushWait is created and kept, never polled, while the last handle is dropped
    #[serde(default)]
    hold_unpolled_flush: bool,
    /// C09: `shutdown_timeout` is the LAST builder call (after capacity / recorder), not the first
    #[serde(default)]
    st_last: bool,
    /// C09 bulk runs (tens of thousands of entries, one producer): appends are logged as
    /// `AppBulk{p,a,b}`, hand-offs as `NextRange{a,b}` (QueueBulkTrace.tla)
    #[serde(default)]
    bulk: bool,
    /// C09: the writer is stalled; in each of `phases` phases (separated by `quiet_ms` without any
    /// overflow, so that the once-per-second overflow log is due again) `threads` producers released
    /// together append `per` entries each into the full queue
    #[serde(default)]
    overflow_phases: Option<OverflowPhases>,
    /// C04 (bounded progress): once a flush is requested it completes before the writer has handed
    /// over this many further entries (0 = not checked); derived by the generator from capacity,
    /// flush interval and the per-entry stream delay
    #[serde(default)]
    lbound: u64,
    /// C05: AppendOnDrop guards taken from the queue handle before the end phase:
    /// 1 = into_entry (no append), 2 = forget (no append), 3 = dropped (appends)
    #[serde(default)]
    aod: Vec<u8>,
    /// fixed delay (µs) at named verification points for the whole scenario
    #[serde(default)]
    point_delay: HashMap<String, u64>,
    /// typed queue of 16 KiB entries instead of 8-byte ones
    #[serde(default)]
    big: bool,
    /// C04: after the producers have finished and the backlog has been written WITHOUT any flush
    /// request, the stream becomes slow (`slow_us` per entry), `n` more entries are appended at once
    /// and one flush is requested
    #[serde(default)]
    late_phase: Option<LatePhase>,
    /// C05 (forget): no flush request before the last queue handle is dropped
    #[serde(default)]
    no_final_flush: bool,
}

#[derive(Deserialize, Clone, Debug)]
struct LatePhase {
    n: u64,
    slow_us: u64,
    settle_ms: u64,
}

#[derive(Deserialize, Clone, Debug)]
struct OverflowPhases {
    phases: u64,
    quiet_ms: u64,
    threads: u64,
    per: u64,
    /// > 0: every thread appends continuously for this long instead of `per` entries (crossing at
    /// least one whole-second boundary of the overflow log's rate limiter); the appends are logged
    /// as one `AppMany{p,a,b}` interval per thread
    #[serde(default)]
    hammer_ms: u64,
}

#[derive(Deserialize, Clone, Debug)]
struct ReportBurst {
    quiet_ms: u64,
    n: u64,
}

#[derive(Clone)]
enum Q {
    Typed(metrique_writer::sink::BackgroundQueue<NumEntry>),
    Boxed(BoxEntrySink),
    /// typed queue of 16 KiB entries (scenario field `big`)
    Big(metrique_writer::sink::BackgroundQueue<BigEntry>),
}
impl Q {
    fn append(&self, e: NumEntry) {
        match self {
            Q::Typed(q) => q.append(e),
            Q::Boxed(q) => q.append_any(e),
            Q::Big(q) => q.append(BigEntry::new(e.0)),
        }
    }
    fn flush_async(&self) -> metrique_writer::sink::FlushWait {
        match self {
            Q::Typed(q) => q.flush_async(),
            Q::Boxed(q) => AnyEntrySink::flush_async(q),
            Q::Big(q) => q.flush_async(),
        }
    }
}

struct FlushWaker {
    f: i64,
    logged: AtomicBool,
    woke: Mutex<bool>,
    cv: Condvar,
}
impl FlushWaker {
    fn log_done(&self) {
        if !self.logged.swap(true, Ordering::SeqCst) {
            trace::evi("FlushDone", &[("f", self.f)]);
        }
    }
}
impl Wake for FlushWaker {
    fn wake(self: Arc<Self>) {
        // runs synchronously in the thread that completes the flush (the writer thread drops
        // the oneshot sender), so the event is exactly ordered against Next / Flush / Close
        self.log_done();
        *self.woke.lock().unwrap() = true;
        self.cv.notify_all();
    }
}

/// Issue one flush request and wait for its completion within the budget.
fn do_flush(q: &Q, f: i64) -> bool {
    trace::evi("FlushReq", &[("f", f)]);
    let mut fut = q.flush_async();
    let w = Arc::new(FlushWaker {
        f,
        logged: AtomicBool::new(false),
        woke: Mutex::new(false),
        cv: Condvar::new(),
    });
    let waker = Waker::from(w.clone());
    let mut cx = Context::from_waker(&waker);
    let deadline = Instant::now() + BUDGET;
    let mut woken_but_pending = 0u32;
    loop {
        if let Poll::Ready(()) = Pin::new(&mut fut).poll(&mut cx) {
            w.log_done();
            return true;
        }
        if w.logged.load(Ordering::SeqCst) {
            // The waker ran. It may have run after the poll above returned Pending, so poll
            // again: only a future that is still pending AFTER its waker ran contradicts the
            // oneshot contract (wake <=> complete) this harness relies on.
            woken_but_pending += 1;
            if woken_but_pending >= 3 {
                eprintln!("TOOL-ERROR spurious wake of flush future {f}");
                std::process::exit(2);
            }
            std::thread::yield_now();
            continue;
        }
        let g = w.woke.lock().unwrap();
        let now = Instant::now();
        if now >= deadline {
            trace::evi("FlushTimeout", &[("f", f)]);
            return false;
        }
        let (mut g, _) = w
            .cv
            .wait_timeout_while(g, deadline - now, |woke| !*woke)
            .unwrap();
        *g = false;
    }
}

static APPEND_LOCK: Mutex<()> = Mutex::new(());

fn timed_append_ser(q: &Q, p: i64, e: u64, serialize: bool) {
    if serialize {
        let _g = APPEND_LOCK.lock().unwrap_or_else(|e| e.into_inner());
        timed_append(q, p, e);
    } else {
        timed_append(q, p, e);
    }
}

static COUNT_ONLY: AtomicBool = AtomicBool::new(false);
static BULK: AtomicBool = AtomicBool::new(false);
/// `bq run --global-recorder 1`: a DebuggingRecorder is installed as the process-global metrics
/// recorder and queues report through `metrics_recorder_global` under their own `sink` label
static GLOBAL_SNAP: std::sync::OnceLock<metrics_util_020::debugging::Snapshotter> = std::sync::OnceLock::new();

/// a (silent) global tracing subscriber is installed in this process (`bq run --subscriber 1`)
static SUBSCRIBER: AtomicBool = AtomicBool::new(false);

fn timed_append(q: &Q, p: i64, e: u64) {
    if BULK.load(Ordering::Relaxed) {
        // logged by the caller as AppBulk ranges
        let t = Instant::now();
        if util::catch(|| q.append(NumEntry(e))).is_err() {
            trace::evi("Panic", &[("p", p), ("e", e as i64)]);
        } else if t.elapsed() > Duration::from_secs(5) {
            trace::evi("AppendBlocked", &[("p", p), ("e", e as i64)]);
        }
        return;
    }
    if !COUNT_ONLY.load(Ordering::Relaxed) {
        trace::evi("AppStart", &[("p", p), ("e", e as i64)]);
    }
    let t = Instant::now();
    let r = util::catch(|| q.append(NumEntry(e)));
    if r.is_err() {
        trace::evi("Panic", &[("p", p), ("e", e as i64)]);
        return;
    }
    if t.elapsed() > Duration::from_secs(5) && !SCHEDULED.load(Ordering::Relaxed) {
        trace::evi("AppendBlocked", &[("p", p), ("e", e as i64)]);
    }
    trace::evi("AppEnd", &[("p", p), ("e", e as i64)]);
}

thread_local! {
    /// with the global recorder: only counters labelled with this scenario's queue name count
    static SINK_FILTER: std::cell::RefCell<Option<String>> = const { std::cell::RefCell::new(None) };
}

fn label_ok(k: &metrics_util_020::CompositeKey) -> bool {
    SINK_FILTER.with(|f| match &*f.borrow() {
        None => true,
        Some(name) => k.key().labels().any(|l| l.key() == "sink" && l.value() == name),
    })
}

fn overflow_count(rec: &metrics_util_020::debugging::Snapshotter) -> i64 {
    let mut n = 0i64;
    for (k, _u, _d, v) in rec.snapshot().into_vec() {
        if k.key().name() == "metrique_queue_overflows" && label_ok(&k) {
            if let metrics_util_020::debugging::DebugValue::Counter(c) = v {
                n += c as i64;
            }
        }
    }
    n
}

/// Drop the join handle in a helper thread: a drop that does not return within the budget is
/// logged as `DropTimeout` (an event no action of the specification consumes); the stream's
/// scripted faults are then switched off so that the process can go on.
fn watched_drop(handle: metrique_writer::sink::BackgroundQueueJoinHandle, ctl: &StreamCtl) {
    watched_drop_how(handle, ctl, false)
}

fn watched_drop_how(handle: metrique_writer::sink::BackgroundQueueJoinHandle, ctl: &StreamCtl, unwind: bool) {
    let done = Arc::new((Mutex::new(false), Condvar::new()));
    let d2 = done.clone();
    let t = std::thread::spawn(move || {
        let ep = trace::epoch();
        trace::evi("DropStart", &[]);
        if unwind {
            // the handle's owner panics: the handle is dropped while this thread unwinds
            let _ = std::panic::catch_unwind(std::panic::AssertUnwindSafe(move || {
                let _h = handle;
                std::panic::resume_unwind(Box::new("verif: unwinding drop"));
            }));
        } else {
            drop(handle);
        }
        // a drop that returns only after the harness has given up on it (DropTimeout) and moved
        // on to the next scenario must not log into that scenario
        if trace::epoch() == ep {
            trace::evi("DropEnd", &[]);
        }
        *d2.0.lock().unwrap() = true;
        d2.1.notify_all();
    });
    let g = done.0.lock().unwrap();
    let (g, _) = done.1.wait_timeout_while(g, BUDGET, |d| !*d).unwrap();
    let finished = *g;
    drop(g);
    if !finished {
        trace::evi("DropTimeout", &[]);
        ctl.flush_errors(false);
        ctl.open_all();
        let g = done.0.lock().unwrap();
        let _ = done.1.wait_timeout_while(g, BUDGET, |d| !*d).unwrap();
        trace::set_epoch(u64::MAX); // whatever that thread still logs is not part of the scenario
    } else {
        let _ = t.join();
    }
}

/// C09: several producers overflow the (stalled) full queue at the same instant, in phases that
/// are at least a second apart. Returns false when some append did not return within its budget.
fn run_overflow_phases(op: &OverflowPhases, q: &Q) -> bool {
    let mut e = 300_000u64;
    for ph in 0..op.phases {
        std::thread::sleep(Duration::from_millis(op.quiet_ms));
        let go = Arc::new(AtomicBool::new(false));
        let done = Arc::new((Mutex::new(0u64), Condvar::new()));
        for t in 0..op.threads {
            let (q, go, done) = (q.clone(), go.clone(), done.clone());
            let base = if op.hammer_ms > 0 { 50_000_000 * (1 + ph * op.threads + t) } else { e + t * op.per };
            let per = op.per;
            let hammer = op.hammer_ms;
            std::thread::spawn(move || {
                while !go.load(Ordering::Acquire) {
                    std::hint::spin_loop();
                }
                if hammer > 0 {
                    let t0 = Instant::now();
                    let mut i = 0u64;
                    while i < 49_000_000 {
                        q.append(NumEntry(base + i));
                        i += 1;
                        if i % 64 == 0 && t0.elapsed() >= Duration::from_millis(hammer) {
                            break;
                        }
                    }
                    trace::evi("AppMany", &[("p", 20 + t as i64), ("a", base as i64), ("b", (base + i - 1) as i64)]);
                } else {
                    for i in 0..per {
                        timed_append(&q, 20 + t as i64, base + i);
                    }
                }
                drop(q);
                *done.0.lock().unwrap() += 1;
                done.1.notify_all();
            });
        }
        e += op.threads * op.per;
        std::thread::sleep(Duration::from_millis(5));
        go.store(true, Ordering::Release);
        let g = done.0.lock().unwrap();
        let (g, _) = done.1.wait_timeout_while(g, Duration::from_millis(8000 + op.hammer_ms), |d| *d < op.threads).unwrap();
        if *g < op.threads {
            trace::evi("AppendBlocked", &[("p", 20), ("e", ph as i64)]);
            return false;
        }
    }
    true
}

/// C09 pair rounds: two producers race for the last free slot of a stalled queue.
fn run_pair_rounds(sc: &Scenario, q: &Q, ctl: &StreamCtl) {
    let cap = sc.cap as u64;
    let mut next_id = 10000u64;
    let mut handed = ctl.nexts();
    let mut fno = 1000i64;
    for round in 0..sc.pair_rounds {
        next_id += 1;
        let stall_id = next_id;
        ctl.gate(stall_id);
        timed_append(q, 1, stall_id);
        handed += 1;
        if !ctl.wait_nexts(handed, BUDGET) {
            trace::evi("StallNotReached", &[("e", stall_id as i64)]);
            ctl.open_all();
            return;
        }
        for _ in 0..cap.saturating_sub(1) {
            next_id += 1;
            timed_append(q, 1, next_id);
        }
        // two producers, released together by a spin flag
        let go = Arc::new(AtomicBool::new(false));
        let mut hs = Vec::new();
        for t in 0..2u64 {
            let q = q.clone();
            let go = go.clone();
            let id = (2 + t) * 10000 + round + 1;
            let spin = Duration::from_nanos(((round * 31 + t * 17 + sc.seed) % 3) * 150);
            hs.push(std::thread::spawn(move || {
                while !go.load(Ordering::Acquire) {
                    std::hint::spin_loop();
                }
                let t0 = Instant::now();
                while t0.elapsed() < spin {
                    std::hint::spin_loop();
                }
                timed_append(&q, (2 + t) as i64, id);
            }));
        }
        std::thread::sleep(Duration::from_micros(200));
        go.store(true, Ordering::Release);
        for h in hs {
            let _ = h.join();
        }
        ctl.open_gate(stall_id);
        fno += 1;
        do_flush(q, fno);
        handed = ctl.nexts();
    }
}

/// C09 race rounds, single producer (the linearization is then unambiguous up to the one race).
fn run_race_rounds(sc: &Scenario, q: &Q, ctl: &StreamCtl) {
    let cap = sc.cap as u64;
    let mut next_id = 10000u64;
    let mut handed = 0u64; // entries whose `next` has been entered so far
    for round in 0..sc.race_rounds {
        // 1. one entry that the writer takes and stalls on
        next_id += 1;
        let stall_id = next_id;
        ctl.gate(stall_id);
        timed_append(q, 1, stall_id);
        handed += 1;
        if !ctl.wait_nexts(handed, BUDGET) {
            trace::evi("StallNotReached", &[("e", stall_id as i64)]);
            ctl.open_all();
            return;
        }
        // 2. fill the queue to exactly its capacity (+ race_extra certain displacements)
        for _ in 0..(cap + sc.race_extra) {
            next_id += 1;
            timed_append(q, 1, next_id);
        }
        // 3. release the writer and race one more append against its first pop
        next_id += 1;
        let racer = next_id;
        let left_before = vharness::stream::LEFT_HINT.load(Ordering::Acquire);
        ctl.open_gate(stall_id);
        // wait until the writer is leaving next(stall entry), then scan the window up to its
        // first pop with a short busy-wait (0..4 us)
        let tw = Instant::now();
        while vharness::stream::LEFT_HINT.load(Ordering::Acquire) == left_before
            && tw.elapsed() < Duration::from_millis(200)
        {
            std::hint::spin_loop();
        }
        let spin = Duration::from_nanos((round * 7919 + sc.seed * 31) % 4_000);
        let t0 = Instant::now();
        while t0.elapsed() < spin {
            std::hint::spin_loop();
        }
        timed_append(q, 1, racer);
        // 4. let the writer drain: cap or cap+1 more hand-offs, then idle
        let t = Instant::now();
        loop {
            let n = ctl.nexts();
            if n >= handed + cap {
                std::thread::sleep(Duration::from_micros(300));
                let n2 = ctl.nexts();
                if n2 == n || n2 >= handed + cap + 1 {
                    handed = n2;
                    break;
                }
            }
            if t.elapsed() > BUDGET {
                handed = ctl.nexts();
                break;
            }
            std::thread::yield_now();
        }
    }
}

/// The queue's own metrics as seen by the metrics recorder: (emitted, io_errors,
/// validation_errors, max queue_len sample, max idle_percent sample).
fn self_metrics(rec: &metrics_util_020::debugging::Snapshotter) -> (i64, i64, i64, i64, i64, i64) {
    use metrics_util_020::debugging::DebugValue;
    let (mut em, mut io, mut val, mut qlen, mut idle, mut ovf) = (0i64, 0i64, 0i64, 0i64, 0i64, 0i64);
    for (k, _u, _d, v) in rec.snapshot().into_vec() {
        if !label_ok(&k) {
            continue;
        }
        match (k.key().name(), v) {
            ("metrique_metrics_emitted", DebugValue::Counter(c)) => em += c as i64,
            ("metrique_io_errors", DebugValue::Counter(c)) => io += c as i64,
            ("metrique_validation_errors", DebugValue::Counter(c)) => val += c as i64,
            ("metrique_queue_overflows", DebugValue::Counter(c)) => ovf += c as i64,
            ("metrique_queue_len", DebugValue::Histogram(h)) => {
                for x in h {
                    qlen = qlen.max(x.into_inner() as i64);
                }
            }
            ("metrique_idle_percent", DebugValue::Histogram(h)) => {
                for x in h {
                    idle = idle.max(x.into_inner() as i64);
                }
            }
            _ => {}
        }
    }
    (em, io, val, qlen, idle, ovf)
}

fn run_scenario(sc: &Scenario) {
    let ctrl = sched::controller();
    let nprod = sc.producers.len();
    trace::set_epoch(sc.id);
    trace::ev(json!({"ev":"Reset","cap":sc.cap as i64,"sinks":(nprod+1) as i64,"scenario":sc.id as i64,
                     "sub": if SUBSCRIBER.load(Ordering::Relaxed) {1} else {0}, "lbound": sc.lbound as i64}));
    let ctl = StreamCtl::new();
    for (k, v) in &sc.results {
        ctl.script(k.parse().unwrap(), Res::parse(v));
    }
    if let Some(r) = &sc.report_res {
        ctl.report_result(Res::parse(r));
    }
    ctl.slow(sc.slow_us);
    ctl.slow_flush(sc.flush_slow_us);
    ctl.flush_errors(sc.flush_err);
    COUNT_ONLY.store(sc.count_only, Ordering::Relaxed);
    BULK.store(sc.bulk, Ordering::Relaxed);
    ctl.bulk(sc.bulk);
    let stall_id = sc.stall.as_ref().map(|s| 10000 + s.k);
    if let Some(id) = stall_id {
        ctl.gate(id);
    }
    ctrl.clear_point_delays();
    if sc.permille > 0 {
        ctrl.begin_perturb(sc.seed, sc.permille, sc.max_us, false);
    } else {
        ctrl.free_run();
    }
    for (name, us) in &sc.point_delay {
        ctrl.set_point_delay(name, *us);
    }
    let mut builder = BackgroundQueueBuilder::new();
    if sc.shutdown_timeout_ms > 0 && !sc.st_last {
        builder = builder.shutdown_timeout(Duration::from_millis(sc.shutdown_timeout_ms));
    }
    let mut builder = builder
        .capacity(sc.cap)
        .flush_interval(Duration::from_micros(sc.flush_us))
        .thread_name(format!("vqw-{}", sc.id));
    let sink_name = format!("q{}", sc.id);
    let debug_rec = if sc.recorder {
        if let Some(snap) = GLOBAL_SNAP.get() {
            builder = builder
                .metrics_recorder_global::<dyn metrics_024::Recorder>()
                .metric_name(sink_name.clone());
            Some(snap.clone())
        } else {
            let r = Arc::new(metrics_util_020::debugging::DebuggingRecorder::new());
            let snap = r.snapshotter();
            builder = builder.metrics_recorder_local::<dyn metrics_024::Recorder, _>(r);
            Some(snap)
        }
    } else {
        None
    };
    if sc.st_last {
        // the order of builder calls must not matter: here the shutdown timeout comes last
        let ms = if sc.shutdown_timeout_ms > 0 { sc.shutdown_timeout_ms } else { 30_000 };
        builder = builder.shutdown_timeout(Duration::from_millis(ms));
    }
    SINK_FILTER.with(|f| *f.borrow_mut() = if GLOBAL_SNAP.get().is_some() { Some(sink_name.clone()) } else { None });
    let (q, handle) = if sc.big {
        let (q, h) = builder.build::<BigEntry>(ctl.stream());
        (Q::Big(q), h)
    } else if sc.boxed {
        let (q, h) = builder.build_boxed(ctl.stream());
        (Q::Boxed(q), h)
    } else {
        let (q, h) = builder.build::<NumEntry>(ctl.stream());
        (Q::Typed(q), h)
    };

    let start = Arc::new(Barrier::new(nprod + sc.flushers.len() + 1));
    let stalled = Arc::new((Mutex::new(false), Condvar::new()));
    let producers_done = Arc::new((Mutex::new(0usize), Condvar::new()));
    let mut threads = Vec::new();
    let fcount = Arc::new(std::sync::atomic::AtomicI64::new(0));
    for (pi, p) in sc.producers.iter().enumerate() {
        let pid = (pi + 1) as i64;
        let q = q.clone();
        let fcount = fcount.clone();
        let bulk = sc.bulk;
        let seed = sc.seed ^ sc.id;
        let p = p.clone();
        let start = start.clone();
        let stall = sc.stall.clone();
        let stalled = stalled.clone();
        let done = producers_done.clone();
        let serialize = sc.serialize;
        threads.push(std::thread::spawn(move || {
            start.wait();
            let mut bulk_from = 1u64;
            let mut x = seed.wrapping_mul(0x9E37_79B9_7F4A_7C15) | 1;
            for i in 1..=p.n {
                if let Some(s) = &stall {
                    // everything after producer 1's k-th entry waits until the writer is stalled
                    let wait = if pid == 1 { i > s.k } else { true };
                    if wait {
                        if bulk && i > bulk_from && !*stalled.0.lock().unwrap() {
                            trace::evi("AppBulk", &[("p", pid), ("a", (pid as u64 * 10000 + bulk_from) as i64), ("b", (pid as u64 * 10000 + i - 1) as i64)]);
                            bulk_from = i;
                        }
                        let g = stalled.0.lock().unwrap();
                        let _g = stalled.1.wait_while(g, |s| !*s).unwrap();
                    }
                }
                if p.jitter_us > 0 {
                    x ^= x << 13;
                    x ^= x >> 7;
                    x ^= x << 17;
                    let t0 = Instant::now();
                    let d = Duration::from_micros(x % p.jitter_us);
                    while t0.elapsed() < d {
                        std::hint::spin_loop();
                    }
                }
                timed_append_ser(&q, pid, pid as u64 * 10000 + i, serialize);
                if p.flush_each {
                    if p.flush_delay_us > 0 {
                        x ^= x << 13;
                        x ^= x >> 7;
                        x ^= x << 17;
                        let t0 = Instant::now();
                        let d = Duration::from_micros(x % p.flush_delay_us);
                        while t0.elapsed() < d {
                            std::hint::spin_loop();
                        }
                    }
                    do_flush(&q, fcount.fetch_add(1, Ordering::SeqCst) + 1);
                }
                if p.pace_us > 0 {
                    std::thread::sleep(Duration::from_micros(p.pace_us));
                }
            }
            if bulk && p.n >= bulk_from {
                trace::evi("AppBulk", &[("p", pid), ("a", (pid as u64 * 10000 + bulk_from) as i64), ("b", (pid as u64 * 10000 + p.n) as i64)]);
            }
            drop(q);
            trace::evi("SinkDrop", &[("p", pid)]);
            *done.0.lock().unwrap() += 1;
            done.1.notify_all();
        }));
    }
    for fl in sc.flushers.iter() {
        let q = q.clone();
        let fl = fl.clone();
        let start = start.clone();
        let fcount = fcount.clone();
        threads.push(std::thread::spawn(move || {
            start.wait();
            std::thread::sleep(Duration::from_micros(fl.delay_us));
            if fl.fire {
                let mut pending: Vec<(i64, metrique_writer::sink::FlushWait, Arc<FlushWaker>)> = Vec::new();
                for _ in 0..fl.count {
                    let f = fcount.fetch_add(1, Ordering::SeqCst) + 1;
                    trace::evi("FlushReq", &[("f", f)]);
                    let mut fut = q.flush_async();
                    let w = Arc::new(FlushWaker { f, logged: AtomicBool::new(false), woke: Mutex::new(false), cv: Condvar::new() });
                    let waker = Waker::from(w.clone());
                    let mut cx = Context::from_waker(&waker);
                    if let Poll::Ready(()) = Pin::new(&mut fut).poll(&mut cx) {
                        w.log_done();
                    }
                    pending.push((f, fut, w));
                    let t0 = Instant::now();
                    while t0.elapsed() < Duration::from_micros(fl.gap_us) {
                        std::hint::spin_loop();
                    }
                }
                for (f, mut fut, w) in pending {
                    let waker = Waker::from(w.clone());
                    let mut cx = Context::from_waker(&waker);
                    let deadline = Instant::now() + BUDGET;
                    loop {
                        if w.logged.load(Ordering::SeqCst) {
                            break;
                        }
                        if let Poll::Ready(()) = Pin::new(&mut fut).poll(&mut cx) {
                            w.log_done();
                            break;
                        }
                        if Instant::now() >= deadline {
                            trace::evi("FlushTimeout", &[("f", f)]);
                            break;
                        }
                        std::thread::sleep(Duration::from_micros(200));
                    }
                }
            } else {
            for _ in 0..fl.count {
                let f = fcount.fetch_add(1, Ordering::SeqCst) + 1;
                do_flush(&q, f);
                std::thread::sleep(Duration::from_micros(fl.gap_us));
            }
            }
            // flusher handles are not counted as sinks in the trace: they are dropped before
            // the scenario's end phase begins (joined below)
            drop(q);
        }));
    }
    // "forget_first": the join handle is forgotten and the harness's own queue handle dropped
    // before the producers run, so that the LAST queue handle is dropped by a producer right
    // after its last append
    let (q, handle) = if sc.end == "forget_first" {
        handle.forget();
        trace::evi("Forget", &[]);
        drop(q);
        trace::evi("SinkDrop", &[("p", 0)]);
        (None, None)
    } else {
        (Some(q), Some(handle))
    };
    start.wait();
    if sc.end == "forget_first" {
        for t in threads {
            let _ = t.join();
        }
        if !ctl.wait_closed(BUDGET) {
            trace::evi("CloseTimeout", &[]);
        } else {
            trace::evi("Quiesce", &[]);
        }
        ctrl.free_run();
        return;
    }
    let (q, handle) = (q.unwrap(), handle.unwrap());
    if sc.race_rounds > 0 {
        run_race_rounds(sc, &q, &ctl);
    }
    if sc.pair_rounds > 0 {
        run_pair_rounds(sc, &q, &ctl);
    }
    if let Some(id) = stall_id {
        // wait until the writer is inside next(stall entry): k hand-offs have been entered
        let k = sc.stall.as_ref().unwrap().k;
        if !ctl.wait_nexts(k, BUDGET) {
            trace::evi("StallNotReached", &[("e", id as i64)]);
        }
        *stalled.0.lock().unwrap() = true;
        stalled.1.notify_all();
    }
    // wait for producers (bounded: an append that blocks is a C09 violation, not a hang)
    {
        let g = producers_done.0.lock().unwrap();
        let (g, _) = producers_done
            .1
            .wait_timeout_while(g, Duration::from_secs(20), |d| *d < nprod)
            .unwrap();
        if *g < nprod {
            // an append that does not return: no action of the specification consumes this event.
            // The blocked threads are abandoned (they may never return); what they log later is
            // outside every scenario.
            trace::evi("AppendBlocked", &[("p", 0), ("e", 0)]);
            ctl.open_all();
            drop(g);
            std::mem::forget(handle);
            ctrl.free_run();
            return;
        }
    }
    if let Some(op) = &sc.overflow_phases {
        if !run_overflow_phases(op, &q) {
            ctl.open_all();
            std::mem::forget(handle);
            ctrl.free_run();
            return;
        }
    }
    // C05: AppendOnDrop guards are queue handles too while they live
    for (i, mode) in sc.aod.iter().enumerate() {
        let e = 60000 + i as u64 + 1;
        trace::evi("SinkClone", &[]);
        match (&q, *mode) {
            (Q::Typed(tq), 1) => {
                let _ = tq.append_on_drop(NumEntry(e)).into_entry();
            }
            (Q::Typed(tq), 2) => tq.append_on_drop(NumEntry(e)).forget(),
            (Q::Typed(tq), _) => {
                let g = tq.append_on_drop(NumEntry(e));
                trace::evi("AppStart", &[("p", 6), ("e", e as i64)]);
                drop(g);
                trace::evi("AppEnd", &[("p", 6), ("e", e as i64)]);
            }
            (Q::Big(tq), 1) => {
                let _ = tq.append_on_drop(BigEntry::new(e)).into_entry();
            }
            (Q::Big(tq), 2) => tq.append_on_drop(BigEntry::new(e)).forget(),
            (Q::Big(tq), _) => {
                let g = tq.append_on_drop(BigEntry::new(e));
                trace::evi("AppStart", &[("p", 6), ("e", e as i64)]);
                drop(g);
                trace::evi("AppEnd", &[("p", 6), ("e", e as i64)]);
            }
            (Q::Boxed(bq), 1) => {
                let _ = bq.append_on_drop(BoxEntry::new(NumEntry(e))).into_entry();
            }
            (Q::Boxed(bq), 2) => bq.append_on_drop(BoxEntry::new(NumEntry(e))).forget(),
            (Q::Boxed(bq), _) => {
                let g = bq.append_on_drop(BoxEntry::new(NumEntry(e)));
                trace::evi("AppStart", &[("p", 6), ("e", e as i64)]);
                drop(g);
                trace::evi("AppEnd", &[("p", 6), ("e", e as i64)]);
            }
        }
        trace::evi("SinkDrop", &[("p", 6)]);
    }
    let mut storm: Vec<(i64, metrique_writer::sink::FlushWait, Arc<FlushWaker>)> = Vec::new();
    for i in 0..sc.flush_storm {
        // the writer is stalled: none of these may complete now
        let f = 100_000 + i as i64;
        trace::evi("FlushReq", &[("f", f)]);
        let mut fut = q.flush_async();
        let w = Arc::new(FlushWaker { f, logged: AtomicBool::new(false), woke: Mutex::new(false), cv: Condvar::new() });
        let waker = Waker::from(w.clone());
        let mut cx = Context::from_waker(&waker);
        if let Poll::Ready(()) = Pin::new(&mut fut).poll(&mut cx) {
            w.log_done();
        }
        storm.push((f, fut, w));
    }
    if stall_id.is_some() && sc.hold_stall_ms == 0 {
        ctl.open_all();
    }
    for (f, mut fut, w) in storm {
        let waker = Waker::from(w.clone());
        let mut cx = Context::from_waker(&waker);
        let deadline = Instant::now() + BUDGET;
        loop {
            if w.logged.load(Ordering::SeqCst) {
                break;
            }
            if let Poll::Ready(()) = Pin::new(&mut fut).poll(&mut cx) {
                w.log_done();
                break;
            }
            if Instant::now() >= deadline {
                trace::evi("FlushTimeout", &[("f", f)]);
                break;
            }
            std::thread::sleep(Duration::from_micros(200));
        }
    }
    if let Some(lp) = &sc.late_phase {
        std::thread::sleep(Duration::from_millis(lp.settle_ms));
        ctl.slow(lp.slow_us);
        for i in 1..=lp.n {
            timed_append(&q, 8, 80000 + i);
        }
        do_flush(&q, 800);
        ctl.slow(0);
    }
    if let Some(rb) = &sc.report_burst {
        // one failure, a quiet period, then a burst: the in-band report is rate limited
        timed_append(&q, 7, 70001);
        do_flush(&q, 700);
        std::thread::sleep(Duration::from_millis(rb.quiet_ms));
        trace::evi("BurstBegin", &[]);
        let t0 = Instant::now();
        for i in 0..rb.n {
            timed_append(&q, 7, 70002 + i);
        }
        do_flush(&q, 701);
        let short = t0.elapsed() < Duration::from_millis(900);
        trace::evi("BurstEnd", &[("short", if short { 1 } else { 0 })]);
    }
    if sc.hold_stall_ms > 0 {
        // the stream stays stalled while the handle is dropped (below); released by a timer
        let ctl2 = ctl.clone();
        let ms = sc.hold_stall_ms;
        std::thread::spawn(move || {
            std::thread::sleep(Duration::from_millis(ms));
            ctl2.open_all();
        });
    }
    if sc.after_sub > 0 {
        // (once per process) from now on a tracing subscriber is installed: validation failures
        // must go to tracing, not into the stream
        do_flush(&q, 900);
        tracing_subscriber::fmt()
            .with_writer(std::io::sink)
            .with_max_level(tracing::Level::ERROR)
            .init();
        trace::evi("SubInstalled", &[]);
        std::thread::sleep(Duration::from_millis(1300)); // let the 1 s rate limiter reopen
        for i in 1..=sc.after_sub {
            timed_append(&q, 8, 80000 + i);
        }
        do_flush(&q, 901);
    }
    // flushers were started together with the producers; join everything
    for t in threads {
        let _ = t.join();
    }
    let next_f = |fcount: &std::sync::atomic::AtomicI64| fcount.fetch_add(1, Ordering::SeqCst) + 1;
    match sc.end.as_str() {
        "drop" => {
            watched_drop_how(handle, &ctl, sc.drop_unwind);
            for i in 1..=sc.late_appends {
                timed_append(&q, 9, 90000 + i);
            }
            if sc.late_appends > 0 {
                // a flush on a shut-down queue completes immediately
                do_flush(&q, next_f(&fcount));
                std::thread::sleep(Duration::from_millis(2));
            }
            if let Some(snap) = &debug_rec {
                // one snapshot only: taking a snapshot resets the recorder's counters
                if sc.self_metrics {
                    let (em, io, val, qlen, idle, ovf) = self_metrics(snap);
                    trace::evi("Overflows", &[("n", ovf)]);
                    trace::evi(
                        "SelfMetrics",
                        &[("emitted", em), ("io", io), ("val", val), ("qlen", qlen), ("idle", idle)],
                    );
                } else {
                    trace::evi("Overflows", &[("n", overflow_count(snap))]);
                }
            }
            drop(q);
            trace::evi("SinkDrop", &[("p", 0)]);
            trace::evi("Quiesce", &[]);
        }
        "forget" => {
            handle.forget();
            trace::evi("Forget", &[]);
            if !sc.no_final_flush {
                do_flush(&q, next_f(&fcount));
            }
            // a flush future that is created but never polled is not a queue handle
            let _held_unpolled = if sc.hold_unpolled_flush { Some(q.flush_async()) } else { None };
            drop(q);
            trace::evi("SinkDrop", &[("p", 0)]);
            if !ctl.wait_closed(BUDGET) {
                trace::evi("CloseTimeout", &[]);
            } else {
                if let Some(snap) = &debug_rec {
                    trace::evi("Overflows", &[("n", overflow_count(snap))]);
                }
                trace::evi("Quiesce", &[]);
            }
        }
        _ => {
            // live queue: a final flush must cover everything appended
            do_flush(&q, next_f(&fcount));
            if let Some(snap) = &debug_rec {
                trace::evi("Overflows", &[("n", overflow_count(snap))]);
            }
            trace::evi("Quiesce", &[]);
            watched_drop(handle, &ctl);
            drop(q);
            trace::evi("SinkDrop", &[("p", 0)]);
        }
    }
    ctrl.free_run();
}

/// Search hint for trace validation: every AppStart event gets "r" = position of its entry in
/// the sequence of stream hand-offs (0 = never handed over). A FIFO forces entries that are
/// both handed over to be linearized in hand-off order, so TLC need not try the other orders;
/// the hint only prunes runs that could never be accepted.
fn annotate_ranks(evs: &mut [Value]) {
    let mut rank: HashMap<i64, i64> = HashMap::new();
    let mut n = 0i64;
    for e in evs.iter() {
        if e["ev"] == "Next" {
            n += 1;
            rank.entry(e["e"].as_i64().unwrap_or(-1)).or_insert(n);
        }
    }
    for e in evs.iter_mut() {
        if e["ev"] == "AppStart" {
            let r = rank.get(&e["e"].as_i64().unwrap_or(-2)).copied().unwrap_or(0);
            e["r"] = json!(r);
        }
    }
}

fn cmd_run(a: &HashMap<String, String>) {
    if util::arg_u64(a, "global-recorder", 0) == 1 {
        let r = metrics_util_020::debugging::DebuggingRecorder::new();
        let snap = r.snapshotter();
        metrics_024::set_global_recorder(r).expect("global recorder");
        let _ = GLOBAL_SNAP.set(snap);
    }
    if util::arg_u64(a, "subscriber", 0) == 1 {
        // any subscriber other than NoSubscriber; its output goes nowhere
        tracing_subscriber::fmt()
            .with_writer(std::io::sink)
            .with_max_level(tracing::Level::ERROR)
            .init();
        SUBSCRIBER.store(true, Ordering::Relaxed);
    }
    if util::arg_u64(a, "subscriber", 0) == 2 {
        // a subscriber IS installed, but it filters every event out
        tracing_subscriber::fmt()
            .with_writer(std::io::sink)
            .with_max_level(tracing::level_filters::LevelFilter::OFF)
            .init();
        SUBSCRIBER.store(true, Ordering::Relaxed);
    }
    let scen = util::read_ndjson(util::arg_str(a, "scenarios", ""));
    let mut out = std::io::BufWriter::new(std::fs::File::create(util::arg_str(a, "out", "")).unwrap());
    let mut meta = std::io::BufWriter::new(std::fs::File::create(util::arg_str(a, "meta", "")).unwrap());
    let mut line = 1usize;
    for v in scen {
        let sc: Scenario = serde_json::from_value(v.clone()).unwrap();
        let t = Instant::now();
        run_scenario(&sc);
        let mut evs = trace::take();
        annotate_ranks(&mut evs);
        trace::append_ndjson(&mut out, &evs).unwrap();
        let m = json!({"id": sc.id, "first_line": line, "last_line": line + evs.len() - 1,
                       "events": evs.len(), "wall_ms": t.elapsed().as_millis() as u64, "scenario": v});
        line += evs.len();
        serde_json::to_writer(&mut meta, &m).unwrap();
        meta.write_all(b"\n").unwrap();
    }
    out.flush().unwrap();
    meta.flush().unwrap();
}

// ------------------------------------------------------------------------------------------
// scheduled replay of BackgroundQueue.tla behaviours
// ------------------------------------------------------------------------------------------

#[derive(Deserialize, Clone, Debug)]
struct Sched {
    id: u64,
    cap: usize,
    producers: u64,
    maxapp: u64,
    flushers: u64,
    /// "drop" | "forget" | "none"
    #[serde(default)]
    results: HashMap<String, String>,
    /// sequence of [actor, action]; actors: "w", "h", "p1".., "f1"..
    steps: Vec<(String, String)>,
}

const STEP_TIMEOUT: Duration = Duration::from_millis(300);

fn actor_id(name: &str) -> u32 {
    match name.as_bytes()[0] {
        b'w' => 0,
        b'h' => 1,
        b'p' => 10 + name[1..].parse::<u32>().unwrap(),
        b'f' => 50 + name[1..].parse::<u32>().unwrap(),
        _ => 99,
    }
}

/// Where the model expects the writer to be stopped after an action (gating point names).
fn run_sched(sc: &Sched) -> Value {
    let ctrl = sched::controller();
    let tname = format!("vqs-{}", sc.id);
    let mut actors: Vec<u32> = vec![0, 1];
    for p in 1..=sc.producers {
        actors.push(10 + p as u32);
    }
    for f in 1..=sc.flushers {
        actors.push(50 + f as u32);
    }
    const GATING: &[&str] = &[
        "bq.w_outer_start",
        "bq.w_pop",
        "bq.w_popped",
        "bq.w_drained",
        "bq.w_hit",
        "bq.w_handled",
        "bq.w_park",
        "bq.w_after_park",
        "bq.w_outer_flush",
        "bq.s_flushed",
        "bq.s_closed",
        "bq.pushed",
        "bq.flush_sent",
        "bq.h_flag",
        "bq.h_unparked",
        "h.app",
        "h.flush",
        "h.handle",
        "h.sinkdrop",
    ];
    ctrl.begin_gate(&actors, &[(tname.clone(), 0)], GATING, true);
    trace::set_epoch(1_000_000 + sc.id);
    trace::ev(json!({"ev":"Reset","cap":sc.cap as i64,"sinks":(sc.producers+1) as i64,"scenario":sc.id as i64,"sub":0}));
    let ctl = StreamCtl::new();
    for (k, v) in &sc.results {
        ctl.script(k.parse().unwrap(), Res::parse(v));
    }
    let (q, handle) = BackgroundQueueBuilder::new()
        .capacity(sc.cap)
        .flush_interval(Duration::from_secs(59))
        .thread_name(tname)
        .build::<NumEntry>(ctl.stream());
    let q = Q::Typed(q);
    let mut threads = Vec::new();
    for p in 1..=sc.producers {
        let q = q.clone();
        let maxapp = sc.maxapp;
        threads.push(std::thread::spawn(move || {
            let _g = sched::ActorGuard::new(10 + p as u32);
            for i in 1..=maxapp {
                sched::point("h.app", &[i as i64]);
                timed_append(&q, p as i64, p * 10000 + i);
            }
            sched::point("h.sinkdrop", &[]);
            drop(q);
            trace::evi("SinkDrop", &[("p", p as i64)]);
        }));
    }
    for f in 1..=sc.flushers {
        let q = q.clone();
        threads.push(std::thread::spawn(move || {
            let _g = sched::ActorGuard::new(50 + f as u32);
            sched::point("h.flush", &[]);
            do_flush(&q, f as i64);
            drop(q);
        }));
    }
    let hthread = std::thread::spawn(move || {
        let _g = sched::ActorGuard::new(1);
        sched::point("h.handle", &[]);
        // the controller tells through the argument-less point whether to drop or forget:
        // decided by the schedule: "HForget" leaves through the forget flag
        if FORGET.swap(false, Ordering::SeqCst) {
            handle.forget();
            trace::evi("Forget", &[]);
        } else {
            trace::evi("DropStart", &[]);
            drop(handle);
            trace::evi("DropEnd", &[]);
        }
    });
    // initial synchronisation: everybody at their first point
    for a in &actors {
        ctrl.wait_arrival(*a, Duration::from_secs(5));
    }
    let mut drift: Vec<Value> = Vec::new();
    let mut executed = 0usize;
    for (i, (actor, action)) in sc.steps.iter().enumerate() {
        let a = actor_id(actor);
        if action == "HForget" {
            FORGET.store(true, Ordering::SeqCst);
        }
        // steps after which the actor blocks inside the code (a pending flush future, thread exit)
        let blocking = action == "FUnpark" || action == "Exit";
        let before = ctrl.peek(a);
        if before == Arrival::Finished {
            drift.push(json!({"step": i, "actor": actor, "action": action, "why": "actor already finished"}));
            continue;
        }
        if before == Arrival::Blocked {
            // running or blocked inside the code: wait for it to come to a point first
            let arr = ctrl.wait_arrival(a, STEP_TIMEOUT);
            if arr == Arrival::Blocked {
                drift.push(json!({"step": i, "actor": actor, "action": action, "why": "actor blocked"}));
                continue;
            }
        }
        let arr = if blocking {
            ctrl.grant(a);
            Arrival::Blocked
        } else if action == "HJoin" {
            // the model enables HJoin only when the writer is done, so join() returns promptly
            ctrl.step(a, Duration::from_secs(5))
        } else {
            ctrl.step(a, STEP_TIMEOUT)
        };
        executed += 1;
        if let Some(exp) = expected_point(action) {
            let ok = match &arr {
                Arrival::At(n, _) => exp.contains(n),
                Arrival::Finished => exp.contains(&"<finished>"),
                Arrival::Blocked => exp.contains(&"<blocked>"),
            };
            if !ok {
                drift.push(json!({"step": i, "actor": actor, "action": action, "arrived": format!("{arr:?}"), "expected": exp}));
            }
        }
    }
    // let everything finish freely
    ctrl.free_run();
    ctl.open_all();
    let t0 = Instant::now();
    // everything must now terminate by itself: appends return (C09), flush requests complete (C04), the
    // handle's drop returns (C05). A thread that does not finish within the budget is abandoned and the
    // event `Hang` (consumed by no action of the specification) is logged.
    let deadline = Instant::now() + BUDGET + BUDGET;
    let mut hung = 0;
    for t in threads.into_iter().chain(std::iter::once(hthread)) {
        while !t.is_finished() && Instant::now() < deadline {
            std::thread::sleep(Duration::from_millis(2));
        }
        if t.is_finished() {
            let _ = t.join();
        } else {
            hung += 1;
        }
    }
    if hung > 0 {
        trace::evi("Hang", &[("threads", hung)]);
        trace::set_epoch(u64::MAX);
        let points = ctrl.take_points();
        return json!({"id": sc.id, "executed": executed, "steps": sc.steps.len(), "drift": drift,
                      "tail_ms": t0.elapsed().as_millis() as u64, "points": points.len()});
    }
    drop(q);
    trace::evi("SinkDrop", &[("p", 0)]);
    let closed = ctl.wait_closed(BUDGET);
    if !closed {
        trace::evi("CloseTimeout", &[]);
    } else {
        trace::evi("Quiesce", &[]);
    }
    let points = ctrl.take_points();
    json!({"id": sc.id, "executed": executed, "steps": sc.steps.len(), "drift": drift,
           "tail_ms": t0.elapsed().as_millis() as u64, "points": points.len()})
}

static FORGET: AtomicBool = AtomicBool::new(false);
/// set while a scheduled replay runs: appends then wait at gating points, so their duration
/// says nothing about blocking
static SCHEDULED: AtomicBool = AtomicBool::new(false);

/// Gating point at which the acting thread is expected to stop after a model action
/// (used only for MODEL-DRIFT reporting, never for the verdict).
fn expected_point(action: &str) -> Option<&'static [&'static str]> {
    Some(match action {
        "Push" => &["bq.pushed"],
        "PUnpark" => &["h.app", "h.sinkdrop"],
        "DropSink" => &["<finished>"],
        "FSend" => &["bq.flush_sent"],
        "FUnpark" => &["<blocked>"],
        "HSetFlag" => &["bq.h_flag"],
        "HUnpark" => &["bq.h_unparked"],
        "HJoin" => &["<finished>"],
        "HForget" => &["<finished>"],
        "OuterStart" => &["bq.w_pop"],
        "PopSome" => &["bq.w_popped"],
        "PopNone" => &["bq.w_drained"],
        "Consume" => &["bq.w_pop", "bq.w_hit"],
        "Handle" => &["bq.w_handled"],
        "Decide" => &["bq.w_park", "bq.w_after_park", "bq.w_outer_flush"],
        "Park" => &["bq.w_after_park"],
        "AfterPark" => &["bq.w_pop", "bq.w_outer_flush"],
        "OuterFlush" => &["bq.w_outer_start", "bq.w_pop"],
        "SFlush" => &["bq.s_flushed"],
        "Close" => &["bq.s_closed"],
        "Exit" => &["<blocked>"],
        _ => return None,
    })
}

fn cmd_sched(a: &HashMap<String, String>) {
    SCHEDULED.store(true, Ordering::Relaxed);
    let scen = util::read_ndjson(util::arg_str(a, "schedules", ""));
    let mut out = std::io::BufWriter::new(std::fs::File::create(util::arg_str(a, "out", "")).unwrap());
    let mut meta = std::io::BufWriter::new(std::fs::File::create(util::arg_str(a, "meta", "")).unwrap());
    let mut line = 1usize;
    let mut hangs = 0;
    let mut slow = 0;
    for v in scen {
        let sc: Sched = serde_json::from_value(v.clone()).unwrap();
        let t_sched = Instant::now();
        let r = run_sched(&sc);
        if t_sched.elapsed() > Duration::from_secs(8) {
            slow += 1;
        }
        let mut evs = trace::take();
        annotate_ranks(&mut evs);
        trace::append_ndjson(&mut out, &evs).unwrap();
        let m = json!({"id": sc.id, "first_line": line, "last_line": line + evs.len() - 1,
                       "events": evs.len(), "result": r, "scenario": v});
        line += evs.len();
        serde_json::to_writer(&mut meta, &m).unwrap();
        meta.write_all(b"\n").unwrap();
        if evs.iter().any(|e| e["ev"] == "Hang") {
            hangs += 1;
        }
        {
            if hangs >= 2 || slow >= 4 {
                // every hang costs its whole budget (and leaves threads behind): the remaining
                // schedules are not run, the recorded ones are judged as usual
                eprintln!("bq sched: {hangs} schedules did not terminate, {slow} took more than 8 s (actors never reached their points): skipping the remaining ones");
                break;
            }
        }
    }
    out.flush().unwrap();
    meta.flush().unwrap();
}

// ------------------------------------------------------------------------------------------
// WakerTracker replay
// ------------------------------------------------------------------------------------------

fn cmd_wt(a: &HashMap<String, String>) {
    use metrique_writer::sink::verif_api::WakerTrackerDriver;
    use tokio::sync::oneshot::error::TryRecvError;
    let behaviours = util::read_ndjson(util::arg_str(a, "behaviours", ""));
    let mut out = std::io::BufWriter::new(std::fs::File::create(util::arg_str(a, "out", "")).unwrap());
    for b in behaviours {
        let cap = b["cap"].as_u64().unwrap() as usize;
        let mut d = WakerTrackerDriver::new();
        let mut rx: Vec<(i64, tokio::sync::oneshot::Receiver<()>)> = Vec::new();
        let mut obs: Vec<Value> = Vec::new();
        for st in b["steps"].as_array().unwrap() {
            let op = st["op"].as_str().unwrap();
            match op {
                "Req" => {
                    let id = st["id"].as_i64().unwrap();
                    rx.push((id, d.request_flush()));
                    obs.push(json!({"op":"Req","id":id}));
                }
                "Handle" => {
                    let drained = st["drained"].as_bool().unwrap();
                    let count = st["count"].as_u64().unwrap() as usize;
                    let flushed = d.handle(cap, drained, count);
                    let mut done: Vec<i64> = Vec::new();
                    rx.retain_mut(|(id, r)| match r.try_recv() {
                        Err(TryRecvError::Closed) | Ok(()) => {
                            done.push(*id);
                            false
                        }
                        Err(TryRecvError::Empty) => true,
                    });
                    done.sort();
                    let (w, e) = d.internals();
                    obs.push(json!({"op":"Handle","flushed":flushed,"done":done,
                                    "will_progress": d.will_progress(), "waiting": w, "ebw": e}));
                }
                _ => panic!("unknown op {op}"),
            }
        }
        serde_json::to_writer(&mut out, &json!({"id": b["id"], "obs": obs})).unwrap();
        out.write_all(b"\n").unwrap();
    }
    out.flush().unwrap();
}

fn main() {
    let (cmd, a) = util::args();
    match cmd.as_str() {
        "run" => cmd_run(&a),
        "sched" => cmd_sched(&a),
        "wt" => cmd_wt(&a),
        _ => {
            eprintln!("usage: bq run|sched|wt ...");
            std::process::exit(2);
        }
    }
}
