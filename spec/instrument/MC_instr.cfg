\* every history of one Instrumented object: <= 2 pending polls, <= 3 callbacks
CONSTANTS
  MaxYields = 2
  MaxCallbacks = 3
SPECIFICATION Spec
INVARIANT Inv
CHECK_DEADLOCK FALSE
