CONSTANTS
  CKeys = {"c1", "c2"}
  GKeys = {"g1"}
  HKeys = {"h1"}
  GVals = {1, 2}
  MaxInv = 3
  MaxUpd = 3
  Faults = {"ok", "short", "intr", "werr0", "werrP", "ferr"}
  Bug = "none"
SPECIFICATION Spec
INVARIANTS Conservation NoDup NoTear TornIsLast OnlyOnFlush FlushDelivers LossOnlyByError Permanent GaugeLast
CHECK_DEADLOCK FALSE
