------------------------ MODULE WakerTrackerReplay ------------------------
(***************************************************************************)
(* Behaviour generator for WakerTracker: every behaviour of length Depth   *)
(* (exhaustive BFS over the history variable) is printed as one JSON line  *)
(* and stepped through the real WakerTracker by `bq wt`.                   *)
(***************************************************************************)
EXTENDS WakerTracker, Json

CONSTANTS Depth, OwedVals, DrainedOK
VARIABLE hist

RInit == Init /\ hist = <<>>

MinUnsent == CHOOSE f \in Reqs \ sent : \A g \in Reqs \ sent : f <= g

RReq == /\ Reqs \ sent # {}
        /\ \E n \in OwedVals, late \in BOOLEAN :
             /\ Req(MinUnsent, n, late)
             /\ hist' = Append(hist, [op |-> "Req", id |-> MinUnsent, owed |-> n, late |-> late])

RCall(drained, count) ==
    /\ Call(drained, count)
    /\ hist' = Append(hist, [op |-> "Handle", drained |-> drained, count |-> count,
                             done |-> done' \ done, flushed |-> (done' # done),
                             owed |-> [f \in sent |-> owed'[f]],
                             waiting |-> Cardinality(waiting'), ebw |-> ebw'])

\* DrainedOK = FALSE: the queue is never seen empty (producers never stop), every drain ends at
\* the deadline
RNext ==
    \/ RReq
    \/ DrainedOK /\ RCall(TRUE, 0)
    \/ \E c \in Counts : (DrainedOK /\ RCall(TRUE, c)) \/ (c % K = 0 /\ RCall(FALSE, c))

RSpec == RInit /\ [][RNext]_<<wvars, hist>>
Bound == Len(hist) <= Depth
Emit == (Len(hist) = Depth) => PrintT(<<"REPLAY", ToJson([cap |-> Cap, steps |-> hist])>>)
=============================================================================
