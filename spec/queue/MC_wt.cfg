CONSTANTS
  Cap = 3
  K = 2
  Reqs = {1, 2, 3}
  MaxCalls = 9
  Counts = {1, 2, 3, 4, 6}
SPECIFICATION Spec
INVARIANT WInv
CHECK_DEADLOCK FALSE
