CONSTANTS
  CKeys = {"c1", "c2"}
  GKeys = {"g1", "g2"}
  HKeys = {"h1", "h2"}
  GVals = {1, 2, 3}
  MaxInv = 5
  MaxUpd = 4
  Faults = {"ok", "short", "intr"}
  Bug = "none"
SPECIFICATION RSpec
INVARIANT Emit
CHECK_DEADLOCK FALSE
