CONSTANTS
  MaxOps = 4
SPECIFICATION Spec
INVARIANT TInv
CHECK_DEADLOCK FALSE
