---------------------------- MODULE VPUnitPairs ----------------------------
(***************************************************************************)
(* C19: the unit algebra, decided by TLC for every ordered triple of the    *)
(* 26 units (every state is one triple), and for every convertible pair     *)
(* the expectation handed to the harness: emitted unit name and the         *)
(* exponent pair by which every observation must be scaled.                 *)
(* Shapes the harness runs for a pair (from,to), all through the real       *)
(* WithUnit: u64 / f64 / Option / Distribution / Mean declared `from` then  *)
(* converted to `to`, Duration where from is a time unit, and the round     *)
(* trip from -> to -> from where the inverse conversion exists.             *)
(***************************************************************************)
EXTENDS ValuePipeline, Json

VARIABLES a, b, c
vars == <<a, b, c>>

Init == a \in Units /\ b \in Units /\ c \in Units
Next == UNCHANGED vars
Spec == Init /\ [][Next]_vars

AlgebraInv == TableOK /\ Algebra(a, b, c)

\* value-level statement for the pair (a,b): declare a on a unitless number, convert to b
PairVal(base, x, y) ==
    LET v0 == BaseVal(base)
        v1 == IF v0.prom = x.id THEN v0 ELSE ApplyV([VW("Unit") EXCEPT !.from = v0.prom, !.to = x.id], v0)
    IN  ApplyV([VW("Unit") EXCEPT !.from = x.id, !.to = y.id], v1)

PairInv ==
    Convertible(a, b) =>
        \A base \in {"u64", "f64", "mean", "distu"} :
            LET r == PairVal(base, a, b).call
            IN  /\ r.kind = "metric" /\ r.unit = b.id /\ PhysicalOK(r)
                /\ \A i \in DOMAIN r.obs : r.obs[i].e2 = Ratio(a, b).p2 /\ r.obs[i].e10 = Ratio(a, b).p10
                /\ \A i \in DOMAIN r.obs : r.obs[i].occ = BaseVal(base).call.obs[i].occ
DurInv ==
    (a.id = "Millisecond" /\ b.fam = "time") =>
        LET r == PairVal("dur", a, b).call
        IN  r.kind = "metric" /\ r.unit = b.id /\ PhysicalOK(r) /\ r.orig = "Second"
StringInv == Convertible(a, b) => ApplyV([VW("Unit") EXCEPT !.from = a.id, !.to = b.id],
                                        [BaseVal("str") EXCEPT !.prom = a.id]).call.kind = "error"
MismatchInv == (Convertible(a, b) /\ a.id # "Byte") =>
                    ApplyV([VW("Unit") EXCEPT !.from = a.id, !.to = b.id], [BaseVal("bad") EXCEPT !.prom = a.id]).call.kind = "error"

First == CHOOSE u \in Units : u.id = "None"
\* collectors (Distribution / Mean): an element type that promises a and writes b.  Every ordered pair
\* of the 26 units, "None" included on either side: a # b is a validation error, never a number.
Wrote(u, slot) == Metric(<<Ob("U", slot, 0, 0)>>, u.id, u.id, <<>>, {})
WroteR(u, slot, n) == Metric(<<Ob("R", slot, 0, n)>>, u.id, u.id, <<>>, {})   \* a Repeated with n occurrences
CollectInv ==
    LET d == CollectDist(a.id, <<Wrote(b, 1), Wrote(b, 2)>>)
        m == CollectMean(a.id, <<Wrote(b, 1), Wrote(b, 2)>>)
    IN  IF a = b THEN /\ d.kind = "metric" /\ d.unit = a.id /\ Len(d.obs) = 2 /\ PhysicalOK(d)
                      /\ m.kind = "metric" /\ m.unit = a.id /\ m.obs[1].occ = 2 /\ PhysicalOK(m)
        ELSE d.kind = "error" /\ m.kind = "error"
\* a mean over Repeated inputs: totals are summed, occurrences are summed (2 + 3), whatever the unit;
\* a distribution whose members are ALL rejected is a validation error, never silence
CollectRepInv ==
    LET m == CollectMean(a.id, <<WroteR(b, 1, 3), WroteR(b, 2, 2)>>)
        d1 == CollectDist(a.id, <<Wrote(b, 1)>>)
    IN  IF a = b THEN m.kind = "metric" /\ m.obs[1].occ = 5 /\ m.obs[1].slots = <<1, 2>> /\ PhysicalOK(m) /\ d1.kind = "metric"
        ELSE m.kind = "error" /\ d1.kind = "error"
\* ... and with a unit conversion between the inputs and the mean: WithUnit<Tri<a>, b> and WithUnit<Mean<a>, b>
\* recorded into Mean<b>: 1 + 1 + 3 + 2 occurrences, the four magnitudes summed and scaled by Ratio(a, b)
MeanConv(x, y) == CollectMean(y.id, <<PairVal("tri", x, y).call, Reslot(PairVal("mean", x, y).call, 3)>>)
MeanConvInv ==
    Convertible(a, b) =>
        LET m == MeanConv(a, b)
        IN  /\ m.kind = "metric" /\ m.unit = b.id /\ m.obs[1].occ = 7 /\ m.obs[1].slots = <<1, 2, 3, 4>>
            /\ m.obs[1].e2 = Ratio(a, b).p2 /\ m.obs[1].e10 = Ratio(a, b).p10 /\ PhysicalOK(m)
EmitCollect == (c = First) =>
    PrintT(<<"COLLECT", ToJson([prom |-> a.id, wrote |-> b.id,
                                 dist |-> CollectDist(a.id, <<Wrote(b, 1), Wrote(b, 2)>>),
                                 mean |-> CollectMean(a.id, <<Wrote(b, 1), Wrote(b, 2)>>),
                                 \* a bare unitless number (u64) recorded into Mean<a>
                                 mean_u64 |-> CollectMean(a.id, <<BaseVal("u64").call>>),
                                 \* an element that makes no call / a string element
                                 dist_empty_elem |-> CollectDist(a.id, <<NoCall, Wrote(a, 1)>>),
                                 dist_string |-> CollectDist(a.id, <<StringCall>>),
                                 \* one member only; Repeated members (3 and 2 occurrences)
                                 dist1 |-> CollectDist(a.id, <<Wrote(b, 1)>>),
                                 dist_rep |-> CollectDist(a.id, <<WroteR(b, 1, 3), WroteR(b, 2, 2)>>),
                                 mean_rep |-> CollectMean(a.id, <<WroteR(b, 1, 3), WroteR(b, 2, 2)>>)])>>)

Emit == (c = First /\ Convertible(a, b)) =>
            PrintT(<<"REPLAY", ToJson([from |-> a.id, to |-> b.id, from_name |-> a.name, to_name |-> b.name,
                                        e2 |-> Ratio(a, b).p2, e10 |-> Ratio(a, b).p10,
                                        inverse |-> Convertible(b, a),
                                        rt_e2 |-> RAdd(Ratio(a, b), Ratio(b, a)).p2,
                                        rt_e10 |-> RAdd(Ratio(a, b), Ratio(b, a)).p10,
                                        time |-> (a.fam = "time"),
                                        \* a Duration of m seconds declared/converted a, then b: m * 10^dur_e10
                                        dur_e10 |-> IF a.fam = "time" THEN PairVal("dur", a, b).call.obs[1].e10 ELSE 0,
                                        \* Mean<b> over WithUnit<Tri<a>, b> and WithUnit<Mean<a>, b>
                                        mean_conv |-> MeanConv(a, b),
                                        \* the mean of two Durations declared a and converted to b
                                        mean_dur |-> IF a.fam = "time"
                                                     THEN CollectMean(b.id, <<PairVal("dur", a, b).call, Reslot(PairVal("dur", a, b).call, 1)>>)
                                                     ELSE NoCall])>>)

(* the #[metrics(unit = ...)] attribute: fields of statically declared structs in the driver.   *)
(* The attribute is documented to behave as WithUnit<field type, unit>; a Duration without the  *)
(* attribute is reported in Milliseconds.                                                       *)
AttrCase(f, bs, opt, to) == [field |-> f, base |-> bs, opt |-> opt, to |-> to]
AttrCases ==
    { AttrCase("dur_us", "dur", "plain", "Microsecond"), AttrCase("dur_s", "dur", "plain", "Second"),
      AttrCase("dur_plain", "dur", "plain", ""),         AttrCase("dur_ms", "dur", "plain", "Millisecond"),
      AttrCase("n_kb", "u64", "plain", "Kilobyte"),      AttrCase("x_pct", "f64", "plain", "Percent"),
      AttrCase("opt_some_s", "dur", "some", "Second"),   AttrCase("opt_none_s", "dur", "none", "Second"),
      AttrCase("opt_n_count", "u64", "some", "Count"),
      AttrCase("dist_dur_us", "distdur", "plain", "Microsecond"), AttrCase("dist_n_mbit", "distu", "plain", "Megabit"),
      AttrCase("dist_empty", "empty", "plain", "Second") }
AttrExpect(k) ==
    LET v0 == BaseVal(k.base)
        v1 == CASE k.opt = "none" -> ApplyV(VW("None"), v0) [] k.opt = "some" -> ApplyV(VW("Some"), v0) [] OTHER -> v0
    IN  IF k.to = "" THEN v1.call ELSE ApplyV([VW("Unit") EXCEPT !.from = v0.prom, !.to = k.to], v1).call
AttrInv == \A k \in AttrCases : PhysicalOK(AttrExpect(k)) /\ (k.to = "" /\ k.base = "dur" => AttrExpect(k).unit = "Millisecond")
EmitAttr == (a = First /\ b = First /\ c = First) =>
                /\ PrintT(<<"UNITS", ToJson([u \in UnitIds |-> U(u).name])>>)
                /\ PrintT(<<"ATTR", ToJson({[field |-> k.field, base |-> k.base, opt |-> k.opt, to |-> k.to,
                                          expect |-> AttrExpect(k)] : k \in AttrCases})>>)
=============================================================================
