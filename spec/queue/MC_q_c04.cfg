\* quick, C04 focus: one flush request, overflow (Cap 1), deadline may pass, drop only
CONSTANTS
  Producers = {1}
  MaxApp = 2
  Cap = 1
  Flushers = {1}
  K = 1
  Results = {"ok"}
  AllowForget = FALSE
  AllowTick = TRUE
SPECIFICATION Spec
INVARIANTS TypeOK AbsInv ProducerOrder OnlyAppended NoLossAtEnd BoundedBatch EbwExact NoParkWithWaiters JoinedMeansClosed
PROPERTY Refines
CHECK_DEADLOCK FALSE
