----------------------------- MODULE TimeSource -----------------------------
(***************************************************************************)
(* X05: time-source resolution and override scoping (crate                  *)
(* metrique-timesource, src/lib.rs).                                        *)
(*                                                                         *)
(* The crate keeps two kinds of override:                                   *)
(*   - a thread-local cell THREAD_LOCAL_TIME_SOURCE : Option<TimeSource>.   *)
(*     set_time_source(ts) REPLACES the cell and stores the previous        *)
(*     content in the returned ThreadLocalTimeSourceGuard; dropping a guard *)
(*     writes ITS `previous` back - whatever the cell holds at that moment. *)
(*     Guards are !Send: a guard is dropped by the thread that made it.     *)
(*     with_time_source(ts, f) = { let _g = set_time_source(ts); f() }.     *)
(*   - a process-wide map runtime id -> TimeSource.                         *)
(*     set_time_source_for_runtime(handle, ts), from any thread: inserts    *)
(*     if vacant, otherwise panics and leaves the map as it was;            *)
(*     set_time_source_for_current_runtime(ts) does the same for            *)
(*     Handle::current() (panics outside a runtime).  Dropping the          *)
(*     RuntimeTimeSourceGuard (any thread) removes the entry.               *)
(* get_time_source(explicit) resolves                                       *)
(*     explicit > thread-local cell of the caller > entry of the runtime    *)
(*     the caller is currently inside (Handle::try_current()) > System.     *)
(* Instant / SystemTime values remember the source they were taken from:    *)
(* elapsed() asks THAT source, whatever the resolution is by then.          *)
(*                                                                         *)
(* Threads = Users \cup Workers.  A user thread enters / leaves runtimes    *)
(* (Handle::enter(), nested, left in LIFO order as tokio demands).  A       *)
(* worker thread is named by its runtime (Workers \subseteq Runtimes): it   *)
(* runs that runtime's tasks and is inside it for ever.                     *)
(* Every action is one complete call: the model is sequentially consistent. *)
(*                                                                         *)
(* Ghost state (lifo, base, wsaved) exists only to state the theorems about *)
(* disciplined use: LIFO drops restore the cell, with_time_source restores. *)
(* CONSTANT Bug selects a deliberately broken variant (non-vacuity).        *)
(***************************************************************************)
EXTENDS Integers, Sequences, FiniteSets, TLC

CONSTANTS Users, Workers, Runtimes,
          Sources,     \* fake, manually advanced clocks (ids)
          Static,      \* \subseteq Sources: clocks that never advance (StaticTimeSource)
          TLVals,      \* what set_time_source / with_time_source may install (\subseteq Sources \cup {"sys"})
          RtVals,      \* what set_time_source_for_runtime may install
          XVals,       \* explicit sources handed to get_time_source(Some(..))
          MaxGuards,   \* live thread-local guards per thread (incl. with_time_source scopes)
          MaxEnter,    \* nesting depth of Handle::enter()
          MaxClock, MaxInst,
          Deltas,      \* amounts by which a clock is advanced
          Actors,      \* threads that act (the others are only observed)
          Ops,         \* enabled action classes
          Bug

None == "none"
Sys  == "sys"
Threads == Users \cup Workers
Vals == Sources \cup {Sys}

ASSUME /\ Workers \subseteq Runtimes /\ Users \cap Runtimes = {}
       /\ Static \subseteq Sources /\ TLVals \subseteq Vals /\ RtVals \subseteq Vals /\ XVals \subseteq Vals
       /\ Actors \subseteq Threads
       /\ Bug \in {"none", "dropClears", "rtFirst", "rtDropAll", "installReplaces", "elapsedCurrent"}

VARIABLES
  cell,     \* [Threads -> Vals \cup {None}]   the thread-local override
  guards,   \* [Threads -> Seq([prev, val, with])] live guards, oldest first; with = made by with_time_source
  inside,   \* [Threads -> Seq(Runtimes)]      stack of entered runtimes (top = Handle::try_current())
  rt,       \* [Runtimes -> Vals \cup {None}]  the runtime map
  rgc,      \* [Runtimes -> Nat]               live RuntimeTimeSourceGuards
  clock,    \* [Sources -> Nat]
  inst,     \* Seq([src, at])                  instants / system times taken so far
  pan,      \* the last call panicked
  lifo,     \* ghost [Threads -> BOOLEAN]: every drop since the guard list was last empty was of the newest guard
  base,     \* ghost [Threads -> Vals \cup {None}]: the cell when the guard list was last empty
  wsaved    \* ghost [Threads -> Seq(Vals \cup {None})]: the cell at entry of each open with_time_source

vars == <<cell, guards, inside, rt, rgc, clock, inst, pan, lifo, base, wsaved>>
impl == <<cell, guards, inside, rt, rgc, clock, inst>>

Last(s) == s[Len(s)]
Without(s, k) == [i \in 1..(Len(s) - 1) |-> IF i < k THEN s[i] ELSE s[i + 1]]

(* the runtime thread t is inside (Handle::try_current()), given the stacks of entered runtimes *)
CurIn(ins, t) == IF ins[t] = <<>> THEN None ELSE Last(ins[t])
Cur(t) == CurIn(inside, t)

(* get_time_source(None) on thread t, as a function of the cells c, the entered runtimes ins and the runtime map m *)
ResolveIn(c, ins, m, t) ==
  LET tl == c[t]
      rv == IF CurIn(ins, t) = None THEN None ELSE m[CurIn(ins, t)]
  IN IF Bug = "rtFirst"
     THEN IF rv # None THEN rv ELSE IF tl # None THEN tl ELSE Sys
     ELSE IF tl # None THEN tl ELSE IF rv # None THEN rv ELSE Sys
Resolve(t) == ResolveIn(cell, inside, rt, t)

(* get_time_source(x) *)
ResolveX(t, x) == IF x # None THEN x ELSE Resolve(t)

(* instant `in` = [src, at] read by thread t: elapsed() / SystemTime::elapsed(); System instants are "about 0" *)
ElapsedIn(c, ins, m, clk, in, t) ==
  LET s == IF Bug = "elapsedCurrent" THEN ResolveIn(c, ins, m, t) ELSE in.src
  IN IF s = Sys THEN 0 ELSE clk[s] - in.at
Elapsed(i, t) == ElapsedIn(cell, inside, rt, clock, inst[i], t)

Init ==
  /\ cell = [t \in Threads |-> None]
  /\ guards = [t \in Threads |-> <<>>]
  /\ inside = [t \in Threads |-> IF t \in Workers THEN <<t>> ELSE <<>>]
  /\ rt = [r \in Runtimes |-> None]
  /\ rgc = [r \in Runtimes |-> 0]
  /\ clock = [s \in Sources |-> 0]
  /\ inst = <<>>
  /\ pan = FALSE
  /\ lifo = [t \in Threads |-> TRUE]
  /\ base = [t \in Threads |-> None]
  /\ wsaved = [t \in Threads |-> <<>>]

(* ---- thread-local override ------------------------------------------------------------- *)
Install(t, v, w) ==
  /\ Len(guards[t]) < MaxGuards
  /\ cell' = [cell EXCEPT ![t] = v]
  /\ guards' = [guards EXCEPT ![t] = Append(@, [prev |-> cell[t], val |-> v, with |-> w])]
  /\ IF guards[t] = <<>>
     THEN lifo' = [lifo EXCEPT ![t] = TRUE] /\ base' = [base EXCEPT ![t] = cell[t]]
     ELSE UNCHANGED <<lifo, base>>
  /\ pan' = FALSE
  /\ UNCHANGED <<inside, rt, rgc, clock, inst>>

Set(t, v) == "Set" \in Ops /\ Install(t, v, FALSE) /\ UNCHANGED wsaved
WithBegin(t, v) == "With" \in Ops /\ Install(t, v, TRUE) /\ wsaved' = [wsaved EXCEPT ![t] = Append(@, cell[t])]

DropAt(t, k) ==
  /\ cell' = [cell EXCEPT ![t] = IF Bug = "dropClears" THEN None ELSE guards[t][k].prev]
  /\ guards' = [guards EXCEPT ![t] = Without(@, k)]
  /\ lifo' = [lifo EXCEPT ![t] = @ /\ k = Len(guards[t])]
  /\ pan' = FALSE
  /\ UNCHANGED <<inside, rt, rgc, clock, inst, base>>

(* any live guard that is not the `_guard` of a with_time_source frame, in any order *)
Drop(t, k) == "Drop" \in Ops /\ k \in 1..Len(guards[t]) /\ ~guards[t][k].with /\ DropAt(t, k) /\ UNCHANGED wsaved

(* the closure of the innermost with_time_source returns *)
WithEnd(t) ==
  /\ "With" \in Ops
  /\ \E k \in 1..Len(guards[t]) :
       /\ guards[t][k].with
       /\ \A j \in (k + 1)..Len(guards[t]) : ~guards[t][j].with
       /\ DropAt(t, k)
  /\ wsaved' = [wsaved EXCEPT ![t] = SubSeq(@, 1, Len(@) - 1)]

(* ---- runtime context of a user thread --------------------------------------------------- *)
Enter(t, r) ==
  /\ "Enter" \in Ops /\ t \in Users /\ Len(inside[t]) < MaxEnter
  /\ inside' = [inside EXCEPT ![t] = Append(@, r)]
  /\ pan' = FALSE
  /\ UNCHANGED <<cell, guards, rt, rgc, clock, inst, lifo, base, wsaved>>

Leave(t) ==
  /\ "Enter" \in Ops /\ t \in Users /\ inside[t] # <<>>
  /\ inside' = [inside EXCEPT ![t] = SubSeq(@, 1, Len(@) - 1)]
  /\ pan' = FALSE
  /\ UNCHANGED <<cell, guards, rt, rgc, clock, inst, lifo, base, wsaved>>

(* ---- runtime-wide override --------------------------------------------------------------- *)
RtInstallBody(r, v) ==
  IF rt[r] = None
  THEN /\ rt' = [rt EXCEPT ![r] = v] /\ rgc' = [rgc EXCEPT ![r] = @ + 1] /\ pan' = FALSE
  ELSE /\ rt' = IF Bug = "installReplaces" THEN [rt EXCEPT ![r] = v] ELSE rt
       /\ rgc' = rgc /\ pan' = TRUE

(* set_time_source_for_runtime(handle of r, v) by thread t, wherever t is *)
RtInstall(t, r, v) ==
  /\ "RtInstall" \in Ops
  /\ RtInstallBody(r, v)
  /\ UNCHANGED <<cell, guards, inside, clock, inst, lifo, base, wsaved>>

(* set_time_source_for_current_runtime(v) *)
RtInstallCur(t, v) ==
  /\ "RtInstallCur" \in Ops
  /\ IF Cur(t) = None THEN pan' = TRUE /\ UNCHANGED <<rt, rgc>> ELSE RtInstallBody(Cur(t), v)
  /\ UNCHANGED <<cell, guards, inside, clock, inst, lifo, base, wsaved>>

(* a RuntimeTimeSourceGuard of r is dropped by thread t *)
RtDrop(t, r) ==
  /\ "RtDrop" \in Ops /\ rgc[r] > 0
  /\ rt' = IF Bug = "rtDropAll" THEN [q \in Runtimes |-> None] ELSE [rt EXCEPT ![r] = None]
  /\ rgc' = [rgc EXCEPT ![r] = @ - 1]
  /\ pan' = FALSE
  /\ UNCHANGED <<cell, guards, inside, clock, inst, lifo, base, wsaved>>

(* ---- values that carry their source ------------------------------------------------------- *)
(* Instant::now(&get_time_source(x)), .system_time(), SystemTime::new(std, &ts) *)
Take(t, x) ==
  /\ "Take" \in Ops /\ Len(inst) < MaxInst
  /\ LET s == ResolveX(t, x)
     IN inst' = Append(inst, [src |-> s, at |-> IF s = Sys THEN 0 ELSE clock[s]])
  /\ pan' = FALSE
  /\ UNCHANGED <<cell, guards, inside, rt, rgc, clock, lifo, base, wsaved>>

Advance(s, d) ==
  /\ "Advance" \in Ops /\ s \in Sources \ Static /\ clock[s] + d <= MaxClock
  /\ clock' = [clock EXCEPT ![s] = @ + d]
  /\ pan' = FALSE
  /\ UNCHANGED <<cell, guards, inside, rt, rgc, inst, lifo, base, wsaved>>

ThreadStep(t) ==
  \/ \E v \in TLVals : Set(t, v) \/ WithBegin(t, v)
  \/ \E k \in 1..MaxGuards : Drop(t, k)
  \/ WithEnd(t)
  \/ \E r \in Runtimes : Enter(t, r)
  \/ Leave(t)
  \/ \E r \in Runtimes, v \in RtVals : RtInstall(t, r, v)
  \/ \E v \in RtVals : RtInstallCur(t, v)
  \/ \E r \in Runtimes : RtDrop(t, r)
  \/ \E x \in XVals \cup {None} : Take(t, x)

Next == (\E t \in Actors : ThreadStep(t)) \/ (\E s \in Sources, d \in Deltas : Advance(s, d))
Spec == Init /\ [][Next]_vars

(* ======================================================================================== *)
(* Properties                                                                               *)
(* ======================================================================================== *)
OptVal == Vals \cup {None}
TypeOK ==
  /\ cell \in [Threads -> OptVal]
  /\ \A t \in Threads : /\ Len(guards[t]) <= MaxGuards
                        /\ \A k \in 1..Len(guards[t]) : guards[t][k] \in [prev : OptVal, val : Vals, with : BOOLEAN]
                        /\ Len(inside[t]) <= MaxEnter /\ \A k \in 1..Len(inside[t]) : inside[t][k] \in Runtimes
                        /\ (t \in Workers => inside[t] = <<t>>)
  /\ rt \in [Runtimes -> OptVal] /\ rgc \in [Runtimes -> 0..2]
  /\ clock \in [Sources -> 0..MaxClock]
  /\ Len(inst) <= MaxInst /\ \A i \in 1..Len(inst) : inst[i].src \in Vals /\ inst[i].at \in 0..MaxClock
  /\ pan \in BOOLEAN

(* explicit > thread-local > runtime the caller is inside > System *)
Priority ==
  \A t \in Threads :
    /\ \A x \in Vals : ResolveX(t, x) = x
    /\ cell[t] # None => Resolve(t) = cell[t]
    /\ cell[t] = None /\ Cur(t) # None /\ rt[Cur(t)] # None => Resolve(t) = rt[Cur(t)]
    /\ cell[t] = None /\ (Cur(t) = None \/ rt[Cur(t)] = None) => Resolve(t) = Sys

(* at most one override per runtime, owned by exactly one live guard *)
OneOverride == \A r \in Runtimes : rgc[r] = IF rt[r] = None THEN 0 ELSE 1

(* LIFO discipline: the guards form a chain, and once they are all gone the cell is what it was *)
LifoChain ==
  \A t \in Threads : lifo[t] /\ guards[t] # <<>> =>
    /\ cell[t] = Last(guards[t]).val
    /\ guards[t][1].prev = base[t]
    /\ \A k \in 1..(Len(guards[t]) - 1) : guards[t][k + 1].prev = guards[t][k].val
LifoRestores == \A t \in Threads : lifo[t] /\ guards[t] = <<>> => cell[t] = base[t]
(* Out-of-order drops can leave an override behind with no guard alive (NoLeak is NOT an invariant: TLC
   must refute it), and such a leak is permanent: every later guard saves a non-None `previous`, so no
   sequence of calls ever empties the cell again. *)
NoLeak == \A t \in Threads : guards[t] = <<>> => cell[t] = None
Leaked(t) == cell[t] # None /\ \A k \in 1..Len(guards[t]) : guards[t][k].prev # None
LeakIsPermanent == [][\A t \in Threads : Leaked(t) => Leaked(t)']_vars
(* ... and a thread that always dropped in LIFO order never leaks *)
NoLeakUnderLifo == \A t \in Threads : (lifo[t] /\ base[t] = None /\ guards[t] = <<>>) => cell[t] = None

InstantsOwnSource ==
  \A i \in 1..Len(inst), t \in Threads :
    Elapsed(i, t) = IF inst[i].src = Sys THEN 0 ELSE clock[inst[i].src] - inst[i].at

(* with_time_source always restores the cell it found *)
WithRestores ==
  [][\A t \in Threads : Len(wsaved'[t]) < Len(wsaved[t]) => cell'[t] = Last(wsaved[t])]_vars

(* what changes thread t's cell or guards changes nothing another thread resolves *)
ThreadLocal ==
  [][\A t \in Threads : (cell'[t] # cell[t] \/ guards'[t] # guards[t]) =>
        /\ \A u \in Threads \ {t} : Resolve(u)' = Resolve(u) /\ cell'[u] = cell[u]
        /\ rt' = rt]_vars

(* what changes the entry of runtime r changes no other entry, no cell, and nothing that a thread
   outside r resolves *)
RuntimeScoped ==
  [][\A r \in Runtimes : rt'[r] # rt[r] =>
        /\ \A q \in Runtimes \ {r} : rt'[q] = rt[q]
        /\ cell' = cell
        /\ \A u \in Threads : Cur(u) # r => Resolve(u)' = Resolve(u)]_vars

(* a call that panics (second install, install for the current runtime outside any) changes nothing *)
PanicChangesNothing == [][pan' => UNCHANGED impl]_vars

(* later override changes do not move an instant: only advancing its own source does *)
InstantsStable ==
  [][\A i \in 1..Len(inst), t \in Threads :
        /\ (inst[i].src = Sys \/ clock'[inst[i].src] = clock[inst[i].src]) => Elapsed(i, t)' = Elapsed(i, t)
        /\ inst'[i] = inst[i]]_vars

(* entering / leaving a runtime changes only what the entering thread resolves *)
EnterIsLocal ==
  [][\A t \in Threads : inside'[t] # inside[t] => \A u \in Threads \ {t} : Resolve(u)' = Resolve(u)]_vars
=============================================================================
