\* liveness under weak fairness: the worker terminates once every handle is dropped; a flush completes
CONSTANTS
  Producers = {1, 2}
  NSend = 1
  NK = 2
  Flushing = {1}
  BreakOnDisconnect = TRUE
SPECIFICATION FairSpec
PROPERTIES Terminates FlushLive
CHECK_DEADLOCK FALSE
