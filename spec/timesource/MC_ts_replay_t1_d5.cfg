CONSTANTS
  Users = {"t1", "t2"}
  Workers = {"r1"}
  Runtimes = {"r1", "r2"}
  Sources = {"m1", "m2", "tk"}
  Static = {}
  TLVals = {"m1", "m2"}
  RtVals = {"tk"}
  XVals = {}
  MaxGuards = 3
  MaxEnter = 1
  MaxClock = 1000
  MaxInst = 0
  Deltas = {1}
  Actors = {"t1"}
  Ops = {"Set", "With", "Drop", "Enter", "RtInstall", "RtInstallCur", "RtDrop"}
  Depth = 5
  Bug = "none"
SPECIFICATION RSpec
INVARIANTS Emit
CHECK_DEADLOCK FALSE
