CONSTANTS
  Users = {"t1", "t2"}
  Workers = {}
  Runtimes = {"r1", "r2"}
  Sources = {"m1", "m2"}
  Static = {}
  TLVals = {"m1", "m2", "sys"}
  RtVals = {}
  XVals = {}
  MaxGuards = 3
  MaxEnter = 0
  MaxClock = 0
  MaxInst = 0
  Deltas = {1, 2}
  Actors = {"t1"}
  Ops = {"Set", "With", "Drop"}
  Bug = "none"
SPECIFICATION Spec
INVARIANTS TypeOK Priority OneOverride LifoChain LifoRestores NoLeakUnderLifo InstantsOwnSource
PROPERTIES WithRestores ThreadLocal RuntimeScoped PanicChangesNothing InstantsStable EnterIsLocal LeakIsPermanent
CHECK_DEADLOCK FALSE
