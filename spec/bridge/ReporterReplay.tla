--------------------------- MODULE ReporterReplay ---------------------------
(***************************************************************************)
(* Behaviour generator for Reporter.tla: every history of updates / publish *)
(* ticks of length Depth whose last step is Shutdown (exhaustive BFS over    *)
(* the history variable).  `mb rep` steps each history through a real        *)
(* MetricReporter (builder -> metrics_sink to a recording sink) and the       *)
(* runner compares, after every Tick and after Shutdown, the projection of    *)
(* everything the sink received so far with `expect`:                         *)
(*   cumC / cumH  counter deltas / histogram samples summed over all entries  *)
(*   lastG        last published value of every gauge published so far         *)
(*   listed       keys that every entry appended in this step must list        *)
(*   npub         number of entries the model appends up to here (the real     *)
(*                reporter may append more: an interval may elapse twice)      *)
(***************************************************************************)
EXTENDS Reporter, Json

CONSTANTS Depth
VARIABLE hist

RInit == Init /\ hist = <<>>

Expect == [cumC |-> cumC', cumH |-> cumH', lastG |-> lastG', npub |-> npub',
           listed |-> {k \in reg : k \in CKeys => EmitZero}]
More == Len(hist) < Depth - 1

RNext ==
    \/ More /\ \E k \in CKeys : Inc(k) /\ hist' = Append(hist, <<"Inc", k, IncOf[k]>>)
    \/ More /\ \E k \in GKeys : SetG(k, nupd + nticks + 1) /\ hist' = Append(hist, <<"Set", k, nupd + nticks + 1>>)
    \/ More /\ \E k \in HKeys : Rec(k) /\ hist' = Append(hist, <<"Rec", k, 1>>)
    \/ More /\ Tick /\ hist' = Append(hist, <<"Tick", Expect>>)
    \/ Shutdown /\ hist' = Append(hist, <<"Shutdown", Expect>>)

RSpec == RInit /\ [][RNext]_<<rvars, hist>>
Bound == Len(hist) <= Depth
Done == phase = "stopped"
Emit == Done => PrintT(<<"REPLAY", ToJson([emit_zero |-> EmitZero, steps |-> hist])>>)
=============================================================================
