//! Conformance harness for the TLA+ specifications under /verif/spec.
//!
//! * `trace`  — global, totally ordered event log (ndjson) for trace validation with TLC
//! * `sched`  — cooperative controller: real threads block at verification points until granted,
//!              so that a TLC behaviour (a sequence of (actor, action)) can be replayed
//! * `stream` — recording / scripted / gateable `EntryIoStream`
//! * `emf`    — scripted EMF entries, concretisation tables, formatter construction, output projection
//! * `json`   — strict RFC 8259 parser that reports duplicate members (judge for EMF output)
//! * `util`   — seeded RNG helpers, argument parsing
//! * `emfkinds` — catalogue of EMF entry kinds / formatter configurations of spec/emf/EmfHistory.tla,
//!              scripted RNG, failing writer, canonical comparison of formatter output (C14, C16)

pub mod emfkinds;
pub mod emf;
pub mod json;
pub mod sched;
pub mod stream;
pub mod trace;
pub mod util;
