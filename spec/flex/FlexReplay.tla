------------------------------ MODULE FlexReplay ------------------------------
(***************************************************************************)
(* Behaviour generator for Flex.tla: every history New, ops.., Close with    *)
(* the observation after each step (key(), value() of the live object; the   *)
(* written items and the close calls after Close).  The concrete API call    *)
(* used for a step (with_value / with_optional_value(Some) / set_value ...)   *)
(* is chosen by the driver from the step's position.                         *)
(***************************************************************************)
EXTENDS Flex, Json

VARIABLE hist
rvars == <<cfg, phase, val, next, nops, replaced, closedIds, items, hist>>

Obs == [key |-> cfg.key, val |-> val, items |-> items, closed |-> closedIds, phase |-> phase]
Step(a, args) == hist' = Append(hist, [a |-> a, args |-> args, obs |-> Obs'])

RInit == Init /\ hist = <<>>
RNext == \/ \E w \in Wraps, t \in Types, k \in Keys : New(w, t, k) /\ Step("New", [wrap |-> w, t |-> t, key |-> k])
         \/ With /\ Step("With", [id |-> next])
         \/ WithNone /\ Step("WithNone", [x |-> 0])
         \/ WithDefault /\ Step("WithDefault", [x |-> 0])
         \/ Close /\ Step("Close", [x |-> 0])
RSpec == RInit /\ [][RNext]_rvars
Emit_ == /\ Inv
         /\ (phase = "closed") => PrintT(<<"REPLAY", ToJson(hist)>>)
=============================================================================
