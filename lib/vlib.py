"""Common machinery for the checks: running TLC (model checking, behaviour generation, trace
validation), building/running the Rust harness, evidence and findings files, verdict printing.

Exit codes of a check: 0 property held on everything explored, 1 VIOLATION (with replay file),
2 tool error (TLC crash, build failure, timeout) - never reported as a violation.
"""
import json, os, re, subprocess, sys, time, shutil, random, hashlib

VERIF = os.path.dirname(os.path.dirname(os.path.abspath(__file__)))
SPEC = os.path.join(VERIF, "spec")
HARNESS = os.environ.get("VERIF_HARNESS", os.path.join(VERIF, "harness"))
RUNS = os.path.join(VERIF, "runs")
EVID = os.path.join(VERIF, "evidence") if not os.environ.get("VERIF_RUNS_SUFFIX") else os.path.join(RUNS, "evidence" + os.environ["VERIF_RUNS_SUFFIX"])
SKIP_MC = bool(os.environ.get("VERIF_SKIP_MC"))  # self-test only: skip code-independent exhaustive model checking
TLC_WORKERS = int(os.environ.get("VERIF_TLC_WORKERS", "8"))


class ToolError(Exception):
    pass


def log(*a):
    print(*a, flush=True)


def _prune_stale_meta(max_age_s=6 * 3600):
    """TLC metadirs of runs that were killed are left behind; remove old ones (never recent ones:
    other checks may be running)."""
    base = os.path.join(RUNS, "_tlcmeta")
    try:
        now = time.time()
        for n in os.listdir(base):
            p = os.path.join(base, n)
            if now - os.path.getmtime(p) > max_age_s:
                shutil.rmtree(p, ignore_errors=True)
    except OSError:
        pass


def rundir(prop):
    _prune_stale_meta()
    d = os.path.join(RUNS, prop + os.environ.get("VERIF_RUNS_SUFFIX", ""))
    shutil.rmtree(d, ignore_errors=True)
    os.makedirs(d, exist_ok=True)
    return d


# --------------------------------------------------------------------------------------------
# cargo
# --------------------------------------------------------------------------------------------
_built = set()


def cargo_build(bins=None, release=False):
    """Build the harness (and with it whatever changed under /repo, hooks on)."""
    key = (tuple(sorted(bins or [])), release)
    if key in _built:
        return
    cmd = ["cargo", "build", "--offline", "--quiet"]
    if release:
        cmd.append("--release")
    for b in bins or []:
        cmd += ["--bin", b]
    env = dict(os.environ, CARGO_NET_OFFLINE="true")
    t = time.time()
    p = subprocess.run(cmd, cwd=HARNESS, env=env, stdout=subprocess.PIPE, stderr=subprocess.STDOUT, text=True)
    if p.returncode != 0:
        sys.stdout.write(p.stdout[-6000:])
        raise ToolError("cargo build failed")
    log(f"[build] harness {'release' if release else 'dev'} {bins or 'all'} in {time.time()-t:.1f}s")
    _built.add(key)


def bin_path(name, release=False):
    return os.path.join(HARNESS, "target", "release" if release else "debug", name)


def run_bin(name, args, timeout=600, release=False, env=None, check=True):
    cmd = [bin_path(name, release)] + [str(a) for a in args]
    e = dict(os.environ)
    e.setdefault("RUST_BACKTRACE", "0")
    if env:
        e.update(env)
    try:
        p = subprocess.run(cmd, stdout=subprocess.PIPE, stderr=subprocess.PIPE, text=True, timeout=timeout, env=e)
    except subprocess.TimeoutExpired:
        raise ToolError(f"{name} timed out after {timeout}s: {' '.join(cmd)}")
    if check and p.returncode != 0:
        sys.stdout.write(p.stdout[-3000:])
        sys.stdout.write(p.stderr[-3000:])
        raise ToolError(f"{name} exited {p.returncode}")
    return p


# --------------------------------------------------------------------------------------------
# TLC
# --------------------------------------------------------------------------------------------
import itertools
_meta_counter = itertools.count()
TLC_JAR = "/opt/veriftools/tla/tla2tools.jar"


def _tlc_cmd():
    return ["tlc"]


class TlcResult:
    def __init__(self, out, rc, wall):
        self.out = out
        self.rc = rc
        self.wall = wall
        self.generated = 0
        self.distinct = 0
        self.depth = 0
        m = re.findall(r"(\d+) states generated, (\d+) distinct states found", out)
        if m:
            self.generated, self.distinct = int(m[-1][0]), int(m[-1][1])
        m = re.findall(r"depth of the complete state graph search is (\d+)", out)
        if m:
            self.depth = int(m[-1])
        self.invariant_violated = re.findall(r"Error: Invariant (\S+) is violated", out)
        self.property_violated = re.findall(r"Error: (?:Action|Temporal) propert(?:y|ies) (?:\S+ )?(?:was|were) violated", out) or \
            re.findall(r"Temporal properties were violated", out)
        self.postcondition_false = "Postcondition" in out and "is false" in out
        self.deadlock = "Deadlock reached" in out
        self.no_error = "Model checking completed. No error has been found." in out or \
            "No error has been found" in out
        self.errors = [l for l in out.splitlines() if l.startswith("Error:")]
        # coverage: "<Action line ..>: distinct:total"
        self.coverage = {}
        for m in re.finditer(r"^<(\w+) line \d+, col \d+ to line \d+, col \d+ of module (\w+)(?: \([\d ]+\))?>: (\d+):(\d+)", out, re.M):
            self.coverage[m.group(1)] = self.coverage.get(m.group(1), 0) + int(m.group(4))

    def printed(self, tag):
        """Tuples printed with PrintT(<<"tag", ...>>): returns the raw lines."""
        pre = '<<"%s"' % tag
        return [l for l in self.out.splitlines() if l.startswith(pre)]


def tlc(spec_dir, module, cfg, workers=None, extra=None, env=None, timeout=900, simulate=None,
        depth=None, coverage=False, metadir=None, heap="8g", seed=None, deadlock=False):
    """Run TLC; returns TlcResult. Raises ToolError on timeout / crash (parse error, etc.)."""
    workers = workers or TLC_WORKERS
    metadir = metadir or os.path.join(RUNS, "_tlcmeta", f"{module}-{os.getpid()}-{next(_meta_counter)}")
    os.makedirs(metadir, exist_ok=True)
    cmd = _tlc_cmd() + ["-workers", str(workers), "-metadir", metadir, "-cleanup", "-noGenerateSpecTE",
                        "-config", cfg]
    if coverage:
        cmd += ["-coverage", "1"]
    if simulate:
        cmd += ["-simulate", f"num={simulate}"]
    if depth:
        cmd += ["-depth", str(depth)]
    if seed is not None:
        cmd += ["-seed", str(seed)]
    if deadlock:
        cmd += ["-deadlock"]
    cmd += (extra or [])
    cmd += [module + ".tla"]
    e = dict(os.environ)
    jopts = f"-Xss1g -Xmx{heap}"
    if env and "JAVA_TOOL_OPTIONS" in env:
        jopts += " " + env["JAVA_TOOL_OPTIONS"]
    if env:
        e.update(env)
    e["JAVA_TOOL_OPTIONS"] = jopts
    t = time.time()
    try:
        p = subprocess.run(cmd, cwd=spec_dir, env=e, stdout=subprocess.PIPE, stderr=subprocess.STDOUT, text=True,
                           timeout=timeout)
    except subprocess.TimeoutExpired as ex:
        shutil.rmtree(metadir, ignore_errors=True)
        raise ToolError(f"TLC timed out after {timeout}s on {module}/{cfg}")
    shutil.rmtree(metadir, ignore_errors=True)
    r = TlcResult(p.stdout, p.returncode, time.time() - t)
    bad = [l for l in p.stdout.splitlines() if ("*** Errors:" in l or "Parsing or semantic analysis failed" in l
                                                  or "java.lang." in l and "Error" in l or "TLC threw an unexpected exception" in l
                                                  or "Error: TLC cannot" in l or "was not able to" in l)]
    if bad or (p.returncode not in (0, 10, 11, 12, 13, 14) and not r.errors):
        sys.stdout.write(p.stdout[-5000:])
        raise ToolError(f"TLC failed on {module}/{cfg}: rc={p.returncode} {bad[:2]}")
    return r


def model_check(spec_dir, module, cfg, expect_ok=True, **kw):
    """Exhaustive (or simulated) model checking of a spec; a property failure of the *model* is a
    tool error of this framework (the design/spec is wrong), not a violation of the code."""
    r = tlc(spec_dir, module, cfg, coverage=True, **kw)
    if expect_ok and (r.invariant_violated or r.property_violated or r.postcondition_false or r.deadlock or r.errors):
        sys.stdout.write(r.out[-6000:])
        raise ToolError(f"model {module}/{cfg} does not satisfy its own properties: {r.errors[:3]}")
    zero = [a for a, n in r.coverage.items() if n == 0]
    log(f"[tlc] {module}/{cfg}: {r.distinct} distinct states, {r.generated} generated, depth {r.depth}, {r.wall:.1f}s"
        + (f", never-taken actions: {zero}" if zero else ""))
    return r


def parse_tla_value(s):
    """Parse a TLC-printed value (tuples <<>>, sets {}, strings, ints, records [a |-> 1], functions
    (a :> 1 @@ b :> 2), TRUE/FALSE) into Python."""
    pos = 0
    n = len(s)

    def ws():
        nonlocal pos
        while pos < n and s[pos] in " \n\t\r":
            pos += 1

    def val():
        nonlocal pos
        ws()
        if s.startswith("<<", pos):
            pos += 2
            items = []
            ws()
            if s.startswith(">>", pos):
                pos += 2
                return items
            while True:
                items.append(val())
                ws()
                if s.startswith(">>", pos):
                    pos += 2
                    return items
                assert s[pos] == ",", (s[pos:pos + 20])
                pos += 1
        if s[pos] == "{":
            pos += 1
            items = []
            ws()
            if s[pos] == "}":
                pos += 1
                return {"__set__": items}
            while True:
                items.append(val())
                ws()
                if s[pos] == "}":
                    pos += 1
                    return {"__set__": items}
                assert s[pos] == ","
                pos += 1
        if s[pos] == "[":
            pos += 1
            rec = {}
            while True:
                ws()
                m = re.match(r"(\w+)\s*\|->", s[pos:])
                assert m, s[pos:pos + 30]
                pos += m.end()
                rec[m.group(1)] = val()
                ws()
                if s[pos] == "]":
                    pos += 1
                    return rec
                assert s[pos] == ","
                pos += 1
        if s[pos] == "(":
            pos += 1
            fn = []
            while True:
                k = val()
                ws()
                assert s.startswith(":>", pos)
                pos += 2
                v = val()
                fn.append((k, v))
                ws()
                if s.startswith("@@", pos):
                    pos += 2
                    continue
                assert s[pos] == ")"
                pos += 1
                return {"__fn__": fn}
        if s[pos] == '"':
            pos += 1
            out = []
            while s[pos] != '"':
                if s[pos] == "\\":
                    pos += 1
                    c = s[pos]
                    out.append({"n": "\n", "t": "\t", '"': '"', "\\": "\\"}.get(c, c))
                else:
                    out.append(s[pos])
                pos += 1
            pos += 1
            return "".join(out)
        m = re.match(r"-?\d+", s[pos:])
        if m:
            pos += m.end()
            return int(m.group(0))
        m = re.match(r"TRUE|FALSE", s[pos:])
        if m:
            pos += m.end()
            return m.group(0) == "TRUE"
        m = re.match(r"\w+", s[pos:])
        if m:
            pos += m.end()
            return m.group(0)
        raise ValueError("cannot parse TLA value at: " + s[pos:pos + 40])

    return val()


def replay_lines(tlc_result, tag="REPLAY"):
    """Lines printed as PrintT(<<"REPLAY", ToJson(x)>>) -> list of python objects."""
    out = []
    for l in tlc_result.printed(tag):
        v = parse_tla_value(l)
        out.append(json.loads(v[1]) if isinstance(v[1], str) else v[1])
    return out


# --------------------------------------------------------------------------------------------
# trace validation
# --------------------------------------------------------------------------------------------
class TraceVerdict:
    def __init__(self, accepted, line=None, event=None, state=None, invariant=None, tlc=None):
        self.accepted = accepted
        self.line = line
        self.event = event
        self.state = state
        self.invariant = invariant
        self.tlc = tlc


def validate_trace(spec_dir, module, cfg, trace_path, timeout=600, extra_env=None):
    env = {"TRACE": trace_path, "JAVA_TOOL_OPTIONS": "-Dtlc2.tool.queue.IStateQueue=StateDeque"}
    if extra_env:
        env.update(extra_env)
    r = tlc(spec_dir, module, cfg, workers=1, env=env, timeout=timeout, heap="4g")
    if r.printed("ACCEPTED") and not r.invariant_violated:
        return TraceVerdict(True, tlc=r)
    if r.invariant_violated:
        # the state trace TLC prints ends in the violating state; extract l
        ls = re.findall(r"/\\ l = (\d+)", r.out)
        line = int(ls[-1]) - 1 if ls else None
        return TraceVerdict(False, line=line, invariant=r.invariant_violated[0], tlc=r)
    rej = r.printed("REJECTED")
    if rej:
        v = parse_tla_value(rej[0])
        ev = v[2]
        try:
            ev = json.loads(ev)
        except Exception:
            pass
        return TraceVerdict(False, line=v[1], event=ev, state=v[3] if len(v) > 3 else None, tlc=r)
    sys.stdout.write(r.out[-4000:])
    raise ToolError(f"trace validation of {trace_path} produced neither ACCEPTED nor REJECTED")


def read_ndjson(path):
    with open(path) as f:
        return [json.loads(l) for l in f if l.strip()]


def write_ndjson(path, rows):
    with open(path, "w") as f:
        for r in rows:
            f.write(json.dumps(r) + "\n")


def _validate_part(args):
    spec_dir, module, cfg, path, timeout = args
    try:
        v = validate_trace(spec_dir, module, cfg, path, timeout=timeout)
        return ("ok" if v.accepted else "rej", v)
    except ToolError as e:
        if "timed out" in str(e):
            return ("timeout", None)
        raise


def validate_scenarios(spec_dir, module, cfg, trace_path, meta_path, on_reject, chunk=20, jobs=8,
                       chunk_timeout=90, one_timeout=150, stats=None):
    """Validate a concatenated multi-scenario trace. Chunks of scenarios are validated by parallel
    TLC runs (acceptance is found depth-first and is fast). A chunk that is rejected or does not
    finish is split into its scenarios, each validated alone, so that one rejection neither hides
    the other scenarios nor makes TLC enumerate the alternatives of all earlier scenarios.
    A scenario whose own search does not finish within one_timeout is *inconclusive* (counted,
    never reported as a violation). Returns the number of accepted scenarios."""
    from concurrent.futures import ThreadPoolExecutor
    metas = read_ndjson(meta_path)
    with open(trace_path) as f:
        lines = f.readlines()
    parts = []
    for i in range(0, len(metas), chunk):
        ms = metas[i:i + chunk]
        path = f"{trace_path}.part{i}"
        with open(path, "w") as f:
            for m in ms:
                f.writelines(lines_for(lines, m))
        parts.append((ms, path))
    accepted = 0
    inconclusive = 0
    with ThreadPoolExecutor(max_workers=jobs) as ex:
        res = list(ex.map(_validate_part, [(spec_dir, module, cfg, p, chunk_timeout) for _, p in parts]))
        singles = []
        for (ms, path), (st, v) in zip(parts, res):
            if st == "ok":
                accepted += len(ms)
            elif len(ms) == 1:
                singles.append((ms[0], path, (st, v)))
            else:
                for m in ms:
                    sp = f"{trace_path}.s{m['id']}"
                    with open(sp, "w") as f:
                        f.writelines(lines_for(lines, m))
                    singles.append((m, sp, None))
        todo = [(i, x) for i, x in enumerate(singles) if x[2] is None]
        res2 = list(ex.map(_validate_part, [(spec_dir, module, cfg, x[1], one_timeout) for _, x in todo]))
        for (i, x), r in zip(todo, res2):
            singles[i] = (x[0], x[1], r)
        for m, sp, (st, v) in singles:
            if st == "ok":
                accepted += 1
            elif st == "timeout":
                inconclusive += 1
                log(f"[trace] scenario {m['id']}: validation inconclusive (search did not finish)")
            else:
                v.rel_line = v.line
                on_reject(m, v, lines_for(lines, m))
    if stats is not None:
        stats["inconclusive"] = stats.get("inconclusive", 0) + inconclusive
    return accepted


def lines_for(lines, meta):
    return lines[meta["first_line"] - 1: meta["last_line"]]


# --------------------------------------------------------------------------------------------
# findings, evidence, verdicts
# --------------------------------------------------------------------------------------------
def load_findings(prop):
    p = os.path.join(VERIF, "known_findings.json")
    if not os.path.exists(p):
        return []
    with open(p) as f:
        data = json.load(f)
    return [x for x in data.get("findings", []) if x.get("property") == prop and x.get("status") == "known"]


CURRENT = None   # the Check being run (bin/vcheck: a tool error after an established violation still exits 1)


class Check:
    """Collects coverage and violations of one check run and writes evidence / prints verdict."""

    def __init__(self, prop, tier, level="model_checking"):
        global CURRENT
        CURRENT = self
        self.prop = prop
        self.tier = tier
        self.level = level
        self.seed = int(os.environ.get("VERIF_SEED", "1"))
        self.t0 = time.time()
        self.dir = rundir(prop)
        self.states = 0
        self.transitions = 0
        self.traces = 0
        self.evaluations = 0
        self.nontrivial = set()
        self.samples = []
        self.violations = []
        self.known_hits = []
        self.drift = []
        self.models = []
        self.assumptions = []
        self.extra = {}
        self.rule = ""
        self.findings = load_findings(prop)
        self.rng = random.Random(self.seed)

    def add_model(self, name, r):
        self.states += r.distinct
        self.transitions += r.generated
        self.models.append({"model": name, "distinct_states": r.distinct, "states_generated": r.generated,
                            "depth": r.depth, "wall_s": round(r.wall, 2),
                            "action_coverage": r.coverage})

    def sample(self, s, limit=6):
        if len(self.samples) < limit:
            self.samples.append(s)

    def violation(self, what, replay_obj, key=None):
        """Report a violation unless it matches a known finding (by key substring match)."""
        for f in self.findings:
            if key is not None and f.get("key") and f["key"] == key:
                if f["key"] not in [k["key"] for k in self.known_hits]:
                    self.known_hits.append(f)
                return False
        n = len(self.violations) + 1
        path = os.path.join(self.dir, f"violation-{n}.json")
        with open(path, "w") as f:
            json.dump({"property": self.prop, "what": what, "key": key, "replay": replay_obj}, f, indent=1)
        self.violations.append({"what": what, "replay": path, "key": key})
        if n <= 10:
            log(f"VIOLATION property={self.prop} replay={path}")
            log(f"  what: {what}")
        return True

    def finish(self):
        wall = time.time() - self.t0
        cov = {
            "states": self.states,
            "transitions": self.transitions,
            "traces_validated_against_impl": self.traces,
            "samples": self.samples or ["(none)"],
            "evaluations": self.evaluations,
            "distinct_nontrivial": len(self.nontrivial),
            "rule": self.rule,
            "models": self.models,
            "model_drift": self.drift[:20],
            "known_findings_hit": [f.get("key") for f in self.known_hits],
        }
        cov.update(self.extra)
        ev = {
            "property_id": self.prop,
            "tier": self.tier,
            "seed": self.seed,
            "level": self.level,
            "coverage": cov,
            "assumptions": self.assumptions,
            "wall_s": round(wall, 2),
            "violations": len(self.violations),
        }
        os.makedirs(EVID, exist_ok=True)
        with open(os.path.join(EVID, f"{self.prop}.json"), "w") as f:
            json.dump(ev, f, indent=1)
        for f in self.known_hits:
            log(f"KNOWN-FINDING: property={self.prop} {f.get('what')}")
        for d in self.drift[:5]:
            log(f"MODEL-DRIFT property={self.prop} {json.dumps(d)[:300]}")
        log(f"[{self.prop}] tier={self.tier} states={self.states} traces={self.traces} evaluations={self.evaluations} "
            f"violations={len(self.violations)} wall={wall:.1f}s")
        return 1 if self.violations else 0
