CONSTANTS
  Depth = 3
  Bases = {"S3i", "S5i", "S5x"}
SPECIFICATION Spec
INVARIANT Transparent
INVARIANT OnlyAdditions
INVARIANT Emit
INVARIANT EmitUnits
CONSTRAINT Bound
CHECK_DEADLOCK FALSE
