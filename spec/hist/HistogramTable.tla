--------------------------- MODULE HistogramTable ---------------------------
(***************************************************************************)
(* Walks over all 976 buckets: TLC checks RowOK(b) for every bucket and     *)
(* prints one REPLAY line per bucket - the table (bucket -> lower, upper,   *)
(* mid, representatives with their form) that `hist` replays into the real  *)
(* histograms and that chk_hist.py uses as the oracle for every value.      *)
(* Numbers are printed in exponent form <<c, e, d>> = c * 2^e + d.          *)
(***************************************************************************)
EXTENDS HistLayout, Json

VARIABLE b

TInit == b = 0
TNext == b < LastB /\ b' = b + 1
TSpec == TInit /\ [][TNext]_b

T(x) == <<x.c, x.e, x.d>>
Row(i) == [b |-> i, lo |-> T(Lower(i)), up |-> T(Upper(i)), mid |-> T(Mid(i)), halfw |-> T(HalfW(i)),
           reps |-> {[x |-> T(x), form |-> Classify(x)] : x \in Reps(i)}]

Layout == RowOK(b)
Emit == PrintT(<<"REPLAY", ToJson(Row(b))>>)
=============================================================================
