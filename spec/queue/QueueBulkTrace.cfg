SPECIFICATION BSpec
CONSTRAINT Track
POSTCONDITION Accepted
CHECK_DEADLOCK FALSE
