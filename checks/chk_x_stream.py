"""X06 (extension of the specification): the EntryIoStream combinators (metrique-writer/src/stream.rs).

spec/stream/StreamComb.tla        a topology (tree of Tee / MergeGlobals / MergeGlobalDimensions-without-dimensions / Null over three
                                  scripted leaves L1..L3, nine shapes incl. nested tees both ways), root calls next(e) / flush, each
                                  with the answer every leaf gives if it is called (ok | val | io, ok | err; errors carry the leaf).
                                  Tee::next = s1.next(e).and(s2.next(e)) with the argument evaluated eagerly, Tee::flush = r1.and(r2)
                                  after both flushes, MergeGlobals = globals' fields first.  Invariants over the history:
                                  OfferedToAll, LeafOrder, ErrorPrecedence, FlushAll, GlobalsOnlyBelow, NullSilent, LogConsistent.
                                  CONSTANT Bug: shortcircuit, lastError, flushShort, globalsAfter must each be rejected.
spec/stream/StreamCombReplay.tla  R: every behaviour of exactly MaxOps root calls with at most MaxFaults scripted failures, with the
                                  expected root result per step, the leaf calls it causes (leaf, entry, fields seen, answer), and at the
                                  end every leaf's log, flush count and the global call order.
harness/src/bin/sc.rs             builds the topology from the real tee / merge_globals / merge_global_dimensions / NullEntryIoStream
                                  over scripted recording leaves and reports the same observations.
"""
import json, os, time
import vlib
from vlib import log

SPEC = os.path.join(vlib.SPEC, "stream")
INVS = ["OfferedToAll", "LeafOrder", "ErrorPrecedence", "FlushAll", "GlobalsOnlyBelow", "NullSilent", "LogConsistent"]
BUGS = [("shortcircuit", ["OfferedToAll"]), ("lastError", ["ErrorPrecedence"]), ("flushShort", ["FlushAll"]),
        ("globalsAfter", ["GlobalsOnlyBelow"])]
OK = {"k": "ok", "by": "-"}


def models(chk, tier):
    cfg = "MC_sc.cfg" if tier == "quick" else "MC_sc_thorough.cfg"
    r = vlib.model_check(SPEC, "StreamComb", cfg, workers=4, timeout=1800)
    chk.add_model("StreamComb/" + cfg, r)
    for a in ("RootNext", "RootFlush"):
        if a in r.coverage and r.coverage[a] == 0:
            raise vlib.ToolError(f"StreamComb: action {a} never taken")
    with open(os.path.join(SPEC, "MC_sc.cfg")) as f:
        base = f.read()
    caught = {}
    for bug, expect in BUGS:
        if 'Bug = "none"' not in base:
            raise vlib.ToolError("MC_sc.cfg: cannot derive the Bug variants")
        path = os.path.join(chk.dir, f"MC_sc_{bug}.cfg")
        with open(path, "w") as f:
            f.write(base.replace('Bug = "none"', f'Bug = "{bug}"'))
        r = vlib.tlc(SPEC, "StreamComb", path, workers=2, timeout=600)
        got = set(r.invariant_violated)
        if not (got & set(expect)):
            raise vlib.ToolError(f"StreamComb with Bug={bug}: expected {expect} to fail, TLC reported {sorted(got) or 'no error'}")
        caught[bug] = sorted(got & set(expect))[0]
    chk.extra["model_variants_rejected"] = caught


def behaviours(chk, tier):
    cfg = "MC_sc_replay.cfg" if tier == "quick" else "MC_sc_replay_thorough.cfg"
    r = vlib.tlc(SPEC, "StreamCombReplay", cfg, workers=4, timeout=3000)
    if r.errors or r.invariant_violated:
        raise vlib.ToolError(f"StreamCombReplay/{cfg}: {r.errors[:2]}")
    pre, beh = '<<"REPLAY", ', []
    for l in r.out.splitlines():
        if l.startswith(pre) and l.endswith(">>"):
            beh.append(json.loads(json.loads(l[len(pre):-2])))
    if not beh:
        raise vlib.ToolError(f"StreamCombReplay/{cfg}: no behaviours generated")
    chk.add_model("StreamCombReplay/" + cfg, r)
    beh.sort(key=lambda b: json.dumps([b["topo"], [[s["op"], s["e"], s["sc"]] for s in b["steps"]]], sort_keys=True))   # workers print in any order
    counts = {}
    for i, b in enumerate(beh):
        b["id"] = i + 1
        counts[b["topo"]] = counts.get(b["topo"], 0) + 1
    chk.extra["behaviours"] = counts
    return beh


def judge(b, o):
    """-> (property, text) of the first difference, or None; second value: drift notes"""
    drift = []
    if "error" in o:
        raise vlib.ToolError(f"sc replay: behaviour {b['id']}: {o['error']}")
    logs = {l: [] for l in b["log"]}
    nfl = {l: 0 for l in b["nflush"]}
    order = []
    for i, (s, g) in enumerate(zip(b["steps"], o["steps"])):
        call = f"next({s['e']})" if s["op"] == "next" else "flush"
        sc = {l: a for l, a in s["sc"].items() if a != "ok"}
        where = f"step {i + 1} {call} on {b['topo']} with scripted failures {json.dumps(sc)}"
        want = [c["leaf"] for c in s["calls"]]
        got = [c["leaf"] for c in g["calls"]]
        if any(c["op"] != s["op"] for c in g["calls"]):
            return "LeafOrder", f"{where}: a leaf saw a call of the other kind: {json.dumps(g['calls'])}", drift
        if sorted(got) != sorted(want):
            prop = "OfferedToAll" if s["op"] == "next" else "FlushAll"
            return prop, f"{where}: the leaves called are {got}, the model expects every leaf exactly once: {want}", drift
        if got != want:
            return "LeafOrder", f"{where}: leaves were called in the order {got}, expected left to right {want}", drift
        if s["op"] == "next":
            for c, w in zip(g["calls"], s["calls"]):
                if c.get("extra"):
                    drift.append({"behaviour": b["id"], "leaf": c["leaf"], "unmodelled_writer_calls": c["extra"]})
                if c["e"] != s["e"]:
                    return "OfferedToAll", f"{where}: leaf {c['leaf']} was offered an entry with id {c['e']}", drift
                if c["fields"] != w["fields"] or (("g" in c["fields"]) and c["g"] != "G"):
                    return "GlobalsOnlyBelow", (f"{where}: leaf {c['leaf']} saw the fields {c['fields']} (g={c['g']!r}), "
                                                f"the model expects {w['fields']}"), drift
                logs[c["leaf"]].append({"e": c["e"], "fields": c["fields"], "res": w["res"]})
        else:
            for c in g["calls"]:
                nfl[c["leaf"]] += 1
        order += [{"e": s["e"], "leaf": c["leaf"], "op": c["op"]} for c in g["calls"]]
        if g["res"] != s["res"]:
            prop = "ErrorPrecedence" if s["op"] == "next" else "FlushAll"
            if b["topo"] in ("T1_N", "TN_1") and s["res"] == OK:
                prop = "NullSilent"
            return prop, f"{where}: the root returned {json.dumps(g['res'])}, the model expects {json.dumps(s['res'])} (the leftmost failing leaf)", drift
    if len(o["steps"]) != len(b["steps"]):
        raise vlib.ToolError(f"sc replay: behaviour {b['id']}: {len(o['steps'])} steps executed of {len(b['steps'])}")
    if logs != b["log"] or nfl != b["nflush"] or order != b["order"]:
        return "LogConsistent", f"{b['topo']}: the leaves' logs / flush counts / global call order at the end differ from the model's", drift
    return None, None, drift


def run_replay(chk, beh, tag="sc"):
    bp, op = (os.path.join(chk.dir, f"{tag}-{x}.ndjson") for x in ("beh", "out"))
    vlib.write_ndjson(bp, [{"id": b["id"], "topo": b["topo"], "steps": [{"op": s["op"], "e": s["e"], "sc": s["sc"]} for s in b["steps"]]} for b in beh])
    t0 = time.time()
    vlib.run_bin("sc", ["replay", "--behaviours", bp, "--out", op], timeout=3600)
    outs = {o["id"]: o for o in vlib.read_ndjson(op)}
    st = chk.extra.setdefault("replay", {"behaviours": 0, "root_calls": 0, "leaf_calls_compared": 0, "with_failing_left_sibling": 0,
                                         "with_two_failures_in_one_call": 0, "with_flush_error": 0, "under_merge_globals": 0, "with_null": 0})
    st["driver_s"] = round(time.time() - t0, 1)
    bad = 0
    for b in beh:
        o = outs.get(b["id"])
        if o is None:
            raise vlib.ToolError(f"sc replay: no result for behaviour {b['id']}")
        prop, viol, drift = judge(b, o)
        chk.evaluations += 1
        st["behaviours"] += 1
        st["root_calls"] += len(b["steps"])
        st["leaf_calls_compared"] += sum(len(s["calls"]) for s in b["steps"])
        st["with_failing_left_sibling"] += any(s["op"] == "next" and len(b["leaves"]) > 1 and s["sc"][b["leaves"][0]] != "ok" for s in b["steps"])
        st["with_two_failures_in_one_call"] += any(sum(a != "ok" for a in s["sc"].values()) > 1 for s in b["steps"])
        st["with_flush_error"] += any(s["op"] == "flush" and s["res"] != OK for s in b["steps"])
        st["under_merge_globals"] += any("g" in c["fields"] for s in b["steps"] for c in s["calls"])
        st["with_null"] += b["topo"] in ("T1_N", "TN_1")
        chk.nontrivial.add(json.dumps([b["topo"], [[s["op"], s["e"], s["sc"]] for s in b["steps"]]], sort_keys=True))
        for d in drift:
            if len(chk.drift) < 20:
                chk.drift.append(d)
        if viol:
            bad += 1
            if bad > 25:
                st["further_violations_not_written"] = st.get("further_violations_not_written", 0) + 1
                continue
            chk.violation(f"stream combinators, behaviour {b['id']} [{prop}]: {viol}", {"kind": "sc", "behaviour": b, "observed": o}, key="X06:" + prop)
    chk.traces += len(beh) - bad
    return bad


def run(prop, tier):
    chk = vlib.Check(prop, tier)
    chk.rule = ("evaluations = TLC behaviours of StreamCombReplay replayed into the real tee / merge_globals / merge_global_dimensions / "
                "NullEntryIoStream over scripted leaves (every step: root result with the leaf whose error it is, the leaf calls in order "
                "with the entry id and the fields seen; at the end the leaves' logs, flush counts and the global call order); "
                "distinct_nontrivial = distinct (topology, call sequence with scripts)")
    chk.assumptions = [
        "a leaf's answer is scripted per root call and does not depend on what it was offered; leaves do not panic",
        "an error is identified by the leaf name it carries (message of the ValidationError / io::Error)",
        "MergeGlobalDimensions is modelled only with no dimensions (pass-through); entries have one field, the globals one",
        "single-threaded: a stream is &mut, there is nothing concurrent to model",
    ]
    vlib.cargo_build(["sc"])
    if not vlib.SKIP_MC:
        t0 = time.time()
        models(chk, tier)
        log(f"[{prop}] models: {time.time() - t0:.1f}s")
    t0 = time.time()
    beh = behaviours(chk, tier)
    log(f"[{prop}] behaviours generated: {len(beh)} in {time.time() - t0:.1f}s")
    t0 = time.time()
    run_replay(chk, beh)
    log(f"[{prop}] replay: {time.time() - t0:.1f}s")
    mid = beh[len(beh) // 3]
    chk.sample({"topo": mid["topo"], "behaviour": [[s["op"], s["e"], {l: a for l, a in s["sc"].items() if a != "ok"}, s["res"]] for s in mid["steps"]]})
    st = chk.extra["replay"]
    for k in ("with_failing_left_sibling", "with_two_failures_in_one_call", "with_flush_error", "under_merge_globals", "with_null"):
        if st[k] == 0 and not chk.violations:
            raise vlib.ToolError(f"X06: no replayed behaviour reaches the case {k}")
    return chk.finish()


def replay(prop, path):
    with open(path) as f:
        v = json.load(f)
    vlib.cargo_build(["sc"])
    chk = vlib.Check(prop + "-replay", "quick")
    run_replay(chk, [dict(v["replay"]["behaviour"], id=1)], tag="replay")
    log("replay:", "violation reproduced" if chk.violations else "no violation")
    return 1 if chk.violations else 0
