CONSTANTS
  Configs <- ConfigsA
  InitEntries <- InitA2
  NextCalls <- NextA2
  MaxCalls = 2
SPECIFICATION Spec
INVARIANT TypeOK
INVARIANT WellFormed
INVARIANT Sound
INVARIANT Transparent
INVARIANT RejectIff
INVARIANT UnroutableReport
INVARIANT Faithful
INVARIANT Emit
CHECK_DEADLOCK FALSE
