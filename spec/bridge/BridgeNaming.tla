---------------------------- MODULE BridgeNaming ----------------------------
(***************************************************************************)
(* C20, sequential part: every readout writes every metric under its        *)
(* registered name, with its labels as dimensions and its described unit -   *)
(* whatever the order of describe / register (first use) / readout.          *)
(*                                                                         *)
(* Keys = name + label set (two counter keys share a name and differ in      *)
(* labels).  Describe(name, unit) may come before or after the first use of   *)
(* a key of that name and may be repeated (the last description counts).      *)
(* Touch(k) uses the key through the metrics macros: counter += amount,       *)
(* gauge := amount, histogram records one sample of value 100.                *)
(* Readout: counters that were incremented since the previous readout with    *)
(* their delta (all registered counters when EmitZero), every registered      *)
(* gauge with its last value, every registered histogram with the samples     *)
(* since the previous readout.                                                *)
(*                                                                         *)
(* Behaviour generator (exhaustive BFS over the history, last step is always  *)
(* a Readout); `mb seq` steps each behaviour through a fresh MetricRecorder   *)
(* and the runner compares the items of every readout entry with `items`.     *)
(***************************************************************************)
EXTENDS Integers, Sequences, FiniteSets, TLC, Json

CONSTANTS Depth, EmitZero, DescUnits

Keys == <<[kind |-> "c", name |-> "reqs", labels |-> <<>>],
          [kind |-> "c", name |-> "reqs", labels |-> <<<<"op", "get">>>>],
          [kind |-> "g", name |-> "temp", labels |-> <<<<"az", "1">>>>],
          [kind |-> "h", name |-> "lat", labels |-> <<<<"op", "get">>, <<"az", "1">>>>]>>
KI == DOMAIN Keys
Names == {Keys[i].name : i \in KI}

\* metrics.rs unit -> the unit name metrique reports (same table as MetricsBridgeTrace)
UnitName == [None |-> "None", Count |-> "Count", Percent |-> "Percent", Seconds |-> "Seconds",
             Milliseconds |-> "Milliseconds", Microseconds |-> "Microseconds", Nanoseconds |-> "Nanoseconds",
             Tebibytes |-> "Tebibytes", Gibibytes |-> "Gibibytes", Mebibytes |-> "Mebibytes",
             Kibibytes |-> "Kibibytes", Bytes |-> "Bytes", TerabitsPerSecond |-> "Terabits/Second",
             GigabitsPerSecond |-> "Gigabits/Second", MegabitsPerSecond |-> "Megabits/Second",
             KilobitsPerSecond |-> "Kilobits/Second", BitsPerSecond |-> "Bits/Second",
             CountPerSecond |-> "Count/Second"]

VARIABLES unit,     \* name -> described metrics.rs unit ("None" = never described)
          reg,      \* registered keys
          val,      \* counter: delta since the last readout; gauge: last value; histogram: samples since the last readout
          hist
vars == <<unit, reg, val, hist>>

Init == unit = [n \in Names |-> "None"] /\ reg = {} /\ val = [i \in KI |-> 0] /\ hist = <<>>

Describe(n, u) ==
    /\ unit' = [unit EXCEPT ![n] = u]
    /\ hist' = Append(hist, <<"Describe", n, u>>)
    /\ UNCHANGED <<reg, val>>

Touch(i) ==
    LET amount == Len(hist) + 1 IN
    /\ reg' = reg \cup {i}
    /\ val' = [val EXCEPT ![i] = CASE Keys[i].kind = "c" -> @ + amount
                                   [] Keys[i].kind = "g" -> amount
                                   [] Keys[i].kind = "h" -> @ + 1]
    /\ hist' = Append(hist, <<"Touch", i, amount>>)
    /\ UNCHANGED unit

Item(i) == [kind |-> Keys[i].kind, name |-> Keys[i].name, dims |-> Keys[i].labels,
            unit |-> UnitName[unit[Keys[i].name]], v |-> val[i]]
Shown == {i \in reg : Keys[i].kind = "c" => (EmitZero \/ val[i] # 0)}

Readout ==
    /\ val' = [i \in KI |-> IF Keys[i].kind = "g" THEN val[i] ELSE 0]
    /\ hist' = Append(hist, <<"Readout", {Item(i) : i \in Shown}>>)
    /\ UNCHANGED <<unit, reg>>

Next ==
    \/ Len(hist) < Depth - 1 /\ \E n \in Names, u \in DescUnits : Describe(n, u)
    \/ Len(hist) < Depth - 1 /\ \E i \in KI : Touch(i)
    \/ Readout

Spec == Init /\ [][Next]_vars
Bound == Len(hist) <= Depth
Emit == (Len(hist) = Depth) => PrintT(<<"REPLAY", ToJson([emit_zero |-> EmitZero, keys |-> Keys, steps |-> hist])>>)
\* sanity of the model itself: a reported unit is always the last one described for the name
UnitInv == \A i \in reg : Item(i).unit = UnitName[unit[Keys[i].name]]
=============================================================================
