\* thorough: 3 producer handles x 2 inputs, 2 keys, producers 1 and 2 await a flush
CONSTANTS
  Producers = {1, 2, 3}
  NSend = 2
  NK = 2
  Flushing = {1, 2}
  BreakOnDisconnect = TRUE
SPECIFICATION Spec
INVARIANTS AbsInv Conserved DoneMeansAll
PROPERTY Refines
CHECK_DEADLOCK FALSE
