------------------------- MODULE GlobalSinkReplay -------------------------
(***************************************************************************)
(* Behaviour generators for GlobalSink (R direction).                      *)
(*                                                                         *)
(* RSpecA  exhaustive: every sequence of routing operations up to Depth    *)
(*         (BFS over the history variable, bounded by CONSTRAINT BoundA).  *)
(*         Appends do not change the routing state, so instead of choosing *)
(*         one append per step the driver *probes* after every step: every *)
(*         caller (thread x context, plus the runtimes' own worker         *)
(*         threads) appends with append / try_append / sink(), and the     *)
(*         expected destination is the Dest matrix printed here.           *)
(*         Reductions that lose no real behaviour: threads and runtimes    *)
(*         are interchangeable, so a history may mention thread/runtime 2  *)
(*         only after it mentioned 1 (the driver maps model ids to real    *)
(*         threads/runtimes by a seeded permutation); whether the attached *)
(*         sink is a background queue, and whether a runtime sink is       *)
(*         installed through ..._for_tokio_runtime or ..._on_current_...,  *)
(*         does not change routing and is chosen by the driver.            *)
(* RSpecB  -simulate: long walks with explicit Append / TryAppend / Sink   *)
(*         operations between the routing operations, no probing; every    *)
(*         step carries its expected outcome and destination, the walk     *)
(*         ends with the expected contents of every sink.                  *)
(***************************************************************************)
EXTENDS GlobalSink, Json

CONSTANTS Depth
VARIABLE hist

NCtx == Cardinality(Runtimes) + 1
\* dest[t][c+1] for harness threads; wdest[r] for a task running on runtime r's own worker thread
\* (a thread that never has a thread-local test sink)
DestMatrix == [t \in Threads |-> [i \in 1..NCtx |-> DestP(t, i - 1)]]
WDest == [r \in Runtimes |-> FirstOf(<<rt'[r], att'>>)]

H == hist' = Append(hist, [op |-> last'.op, out |-> last'.out, t |-> last'.t, c |-> last'.c,
                           e |-> last'.e, s |-> last'.s, dest |-> DestMatrix, wdest |-> WDest])

Mentioned(op, f, x) == \E i \in 1..Len(hist) : hist[i].op \in op /\ hist[i][f] = x
CanonT(t) == t = 1 \/ Mentioned({"SetTL"}, "t", t - 1)
CanonR(r) == r = 1 \/ Mentioned({"SetRTFor"}, "c", r - 1)

RouteOpA ==
    \/ Attach(FALSE) \/ DropHandle \/ Forget
    \/ \E t \in Threads : (CanonT(t) /\ SetTL(t)) \/ DropTL(t)
    \/ \E r \in Runtimes : (CanonR(r) /\ SetRTFor(r)) \/ DropRT(r)
    \/ SetRTCur(0)

RInit == Init /\ hist = <<>>
RNextA == RouteOpA /\ H
RouteOpB ==
    \/ Attach(FALSE) \/ DropHandle \/ Forget
    \/ \E t \in Threads : SetTL(t) \/ DropTL(t)
    \/ \E r \in Runtimes : SetRTFor(r) \/ DropRT(r)
    \/ \E c \in Ctx : SetRTCur(c)
RNextB == (RouteOpB \/ AppendAny) /\ H
RSpecA == RInit /\ [][RNextA]_<<vars, hist>>
RSpecB == RInit /\ [][RNextB]_<<vars, hist>>

BoundA == Len(hist) <= Depth
EmitA == (Len(hist) = Depth) =>
           PrintT(<<"REPLAY", ToJson([mode |-> "probe", steps |-> hist])>>)

BoundB == Len(hist) <= Depth
EmitB == (Len(hist) = Depth) =>
           PrintT(<<"REPLAY", ToJson([mode |-> "walk", steps |-> hist,
                                      got |-> [s \in Sinks |-> Got(s)],
                                      back |-> back, gone |-> gone])>>)
=============================================================================
