--------------------------- MODULE ServiceReplay ---------------------------
(***************************************************************************)
(* Behaviour generator for X01 (R direction): sequences of OPERATIONS of   *)
(* the service-shaped program, each executed to completion before the next *)
(* one begins -                                                            *)
(*   Attach | Detach | Flush(f) | Try(e) | Open(e, mode) | ODrop(e) |      *)
(*   GDrop(e)                                                              *)
(* (Open = ReqStart, try_sink, create the entry and its guard, mutate;     *)
(* ODrop = drop the entry; GDrop = the sub-task mutates and drops its      *)
(* guard).  An operation is a fixed list of steps of Service.tla (`prog`); *)
(* the writer runs lazily, only as far as a flush request or the handle    *)
(* drop forces it.  Because operations do not overlap, the result of every *)
(* call and the output after every completed Flush / Detach are determined *)
(* - they are recorded in `hist` and are the oracle of the replay: the     *)
(* driver (svc seq) executes the operations on the real program and        *)
(* compares.  TLC enumerates every sequence of Depth operations (BFS over  *)
(* hist, CONSTRAINT Bound) or samples longer ones with -simulate.          *)
(* SvcInv is checked along the way.                                        *)
(***************************************************************************)
EXTENDS Service, Json

CONSTANTS Depth,    \* operations per behaviour
          MaxReq,   \* requests per behaviour
          RModes    \* modes of Open
VARIABLES hist,     \* completed operations with their results
          prog,     \* remaining steps of the operation in progress
          cur_op    \* the operation in progress (record) or <<>>

rvars == <<vars, hist, prog, cur_op>>

NextReq == Cardinality(DOMAIN rq) + 1
NextF == Cardinality(DOMAIN before) + 1
OpOf(e) == IF e % 2 = 1 THEN "GetItem" ELSE "PutItem"
ByOf(e) == 1 + (e % 2)
S(a, e) == [a |-> a, e |-> e]

\* ---- the operations as step lists ---------------------------------------------------------------
If(c) == {x \in {1} : c}      \* {1} if c holds, else {}
Ops ==
    {[op |-> "Attach", e |-> 0, mode |-> "",
      steps |-> <<S("AttachStart", 0), S("AttachLin", 0), S("AttachEnd", 0)>>] : x \in If(astate[S1] = "new")}
    \cup {[op |-> "Detach", e |-> 0, mode |-> "",
           steps |-> <<S("DetachStart", 0), S("DetachLin", 0), S("Drain", 0), S("WFlush", 0), S("WClose", 0), S("DetachEnd", 0)>>]
            : x \in If(astate[S1] = "held")}
    \cup {[op |-> "Flush", e |-> NextF, mode |-> "",
           steps |-> <<S("FlushReq", NextF), S("Drain", 0), S("WFlush", 0), S("FlushDone", NextF)>>]
            : x \in If(NextF <= 2)}
    \cup {[op |-> "Try", e |-> NextReq, mode |-> "try",
           steps |-> <<S("ReqStart", NextReq), S("Work", NextReq), S("TryStart", NextReq), S("TryLin", NextReq),
                       S("QLin", NextReq), S("TryEnd", NextReq)>>]
            : x \in If(NextReq <= MaxReq /\ "try" \in RModes)}
    \cup {[op |-> "Open", e |-> NextReq, mode |-> m,
           steps |-> <<S("ReqStart", NextReq), S("SinkStart", NextReq), S("SinkLin", NextReq), S("SinkEnd", NextReq),
                       S("Work", NextReq)>>]
            : m \in {y \in RModes \ {"try"} : NextReq <= MaxReq}}
    \cup {[op |-> "ODrop", e |-> e, mode |-> rq[e].mode,
           steps |-> <<S("ODropStart", e), S("QLin", e), S("ODropEnd", e)>>]
            : e \in {y \in DOMAIN rq : rq[y].mode \in GuardModes /\ rq[y].ost = "live"}}
    \cup {[op |-> "GDrop", e |-> e, mode |-> rq[e].mode,
           steps |-> <<S("SubWork", e), S("GDropStart", e), S("QLin", e), S("GDropEnd", e)>>]
            : e \in {y \in DOMAIN rq : rq[y].gst = "live"}}

SubBy(e) == IF HasSlot(rq[e].mode) THEN 2 ELSE 0
SubD(e) == IF Enabling(rq[e].mode) THEN 1 ELSE 0
Skip == UNCHANGED vars

\* one step; steps that do not apply in the current state are skipped
Do(s) ==
    LET e == s.e IN
    CASE s.a = "AttachStart" -> AttachStart
      [] s.a = "AttachLin" -> AttachLin
      [] s.a = "AttachEnd" -> AttachEnd
      [] s.a = "DetachStart" -> DetachStart
      [] s.a = "DetachLin" -> DetachLin
      [] s.a = "DetachEnd" -> DetachEnd
      [] s.a = "WFlush" -> IF unflushed > 0 /\ ~closed THEN WFlush ELSE Skip
      [] s.a = "WClose" -> WClose
      [] s.a = "FlushReq" -> FlushReq(e)
      [] s.a = "FlushDone" -> FlushDone(e)
      [] s.a = "ReqStart" -> ReqStart(1, e, cur_op.mode, OpOf(e), e)
      [] s.a = "SinkStart" -> SinkStart(e)
      [] s.a = "SinkLin" -> SinkLin(e)
      [] s.a = "SinkEnd" -> \E ok \in BOOLEAN : SinkEnd(e, ok)
      [] s.a = "Work" -> IF rq[e].ost = "live" THEN Work(e, ByOf(e), 1) ELSE Skip
      [] s.a = "SubWork" -> IF SubBy(e) + SubD(e) > 0 THEN SubWork(e, SubBy(e), SubD(e)) ELSE Skip
      [] s.a = "ODropStart" -> ODropStart(e)
      [] s.a = "ODropEnd" -> ODropEnd(e)
      [] s.a = "GDropStart" -> GDropStart(e)
      [] s.a = "GDropEnd" -> GDropEnd(e)
      [] s.a = "TryStart" -> TryStart(e)
      [] s.a = "TryLin" -> TryLin(e)
      [] s.a = "TryEnd" -> \E ok \in BOOLEAN : TryEnd(e, ok)
      [] s.a = "QLin" -> IF <<rq[e].p, e>> \in pending THEN QLin(e) ELSE Skip
      \* the writer: pop and write until the queue is empty
      [] s.a = "Drain" -> IF closed \/ (q = <<>> /\ cur = 0) THEN Skip
                          ELSE IF cur = 0 THEN QPop
                          ELSE \E line \in LinesFor(cur) : Write(cur, line)

DrainGoesOn == Head(prog).a = "Drain" /\ ~(closed \/ (q = <<>> /\ cur = 0))

\* what the driver can observe of a completed operation
Result(o) ==
    [op |-> o.op, e |-> o.e, mode |-> o.mode, f |-> IF o.op = "Flush" THEN o.e ELSE 0,
     ok |-> CASE o.op = "Try" -> o.e \in okd'
              [] o.op = "Open" -> rq'[o.e].sk = "has"
              [] OTHER -> TRUE,
     by |-> CASE o.op \in {"Try", "Open"} -> ByOf(o.e) [] o.op = "GDrop" -> SubBy(o.e) [] OTHER -> 0,
     d |-> CASE o.op \in {"Try", "Open"} -> 1 [] o.op = "GDrop" -> SubD(o.e) [] OTHER -> 0,
     out |-> IF o.op \in {"Flush", "Detach"} THEN out' ELSE <<>>,
     has_out |-> o.op \in {"Flush", "Detach"}]

RInit == SInit(MaxReq + 1) /\ hist = <<>> /\ prog = <<>> /\ cur_op = <<>>

Choose ==
    /\ prog = <<>> /\ Len(hist) < Depth
    /\ \E o \in Ops : cur_op' = o /\ prog' = o.steps
    /\ UNCHANGED <<vars, hist>>

Step ==
    /\ prog # <<>>
    /\ Do(Head(prog))
    /\ IF DrainGoesOn THEN UNCHANGED <<prog, hist, cur_op>>
       ELSE /\ prog' = Tail(prog)
            /\ IF Len(prog) = 1 THEN hist' = Append(hist, Result(cur_op)) /\ cur_op' = <<>>
                                ELSE UNCHANGED <<hist, cur_op>>

RNext == Choose \/ Step
RSpec == RInit /\ [][RNext]_rvars

Bound == Len(hist) <= Depth
Emit == (Len(hist) = Depth /\ prog = <<>>) =>
          PrintT(<<"REPLAY", ToJson([steps |-> hist])>>)
=============================================================================
