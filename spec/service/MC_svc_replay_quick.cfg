\* every sequence of 4 operations (at most 2 requests)
CONSTANTS
  Depth = 4
  MaxReq = 2
  RModes = {"try", "guard", "fg", "wait", "disc"}
SPECIFICATION RSpec
INVARIANTS Emit SvcInv
CONSTRAINT Bound
CHECK_DEADLOCK FALSE
