//! Driver for the EMF formatter (C02 C03 C08; building blocks in `vharness::emf`).
//!
//!   emf replay --behaviours b.ndjson --out results.ndjson [--reuse 1] [--ways a,b,..]
//!
//! Every input line is a TLC behaviour of spec/emf/EmfReplay.tla plus bookkeeping:
//!   {"id": n, "v": variant, "cfg": {...}, "calls": [...]}
//! The driver concretises the abstract symbols (variant `v`), builds a scripted `Entry` issuing
//! exactly those writer calls and formats it with the REAL `Emf` / `SampledEmf`, once per way of
//! choosing the validation mode.  Ways that produced the same status, error and bytes are
//! reported as one group together with the strict projection of the bytes.
//!
//! With `--reuse 1` one formatter instance per (configuration, way, variant) is kept and reused
//! for all behaviours that share it (default: a fresh formatter per behaviour and way).

use serde_json::{Value, json};
use std::collections::HashMap;
use std::io::Write;
use std::time::SystemTime;
use vharness::emf::{CfgSpec, Conc, Formatter, RunOut, Script, Way, project, run_once};
use vharness::util;

fn now_ms() -> u128 {
    SystemTime::now().duration_since(SystemTime::UNIX_EPOCH).unwrap().as_millis()
}

/// Bytes with the digits after every `"Timestamp":` removed: entries that write no timestamp get
/// `SystemTime::now()`, which differs between two format calls (an unescaped `"Timestamp":` cannot
/// occur inside a JSON string).
fn mask_now(bytes: &[u8]) -> Vec<u8> {
    const PAT: &[u8] = b"\"Timestamp\":";
    let mut out = Vec::with_capacity(bytes.len());
    let mut i = 0;
    while i < bytes.len() {
        if bytes[i..].starts_with(PAT) {
            out.extend_from_slice(PAT);
            i += PAT.len();
            while i < bytes.len() && bytes[i].is_ascii_digit() {
                i += 1;
            }
        } else {
            out.push(bytes[i]);
            i += 1;
        }
    }
    out
}

fn main() {
    let (cmd, args) = util::args();
    match cmd.as_str() {
        "replay" => replay(&args),
        _ => {
            eprintln!("usage: emf replay --behaviours b.ndjson --out results.ndjson [--reuse 1] [--ways w1,w2]");
            std::process::exit(2);
        }
    }
}

fn replay(args: &HashMap<String, String>) {
    // a panic of the code under test is reported as data; keep stderr quiet
    std::panic::set_hook(Box::new(|_| {}));
    let behaviours = util::read_ndjson(util::arg_str(args, "behaviours", ""));
    let reuse = util::arg_u64(args, "reuse", 0) == 1;
    let ways: Vec<Way> = match args.get("ways") {
        Some(s) => s.split(',').map(|w| Way::from_name(w).unwrap_or_else(|| panic!("unknown way {w}"))).collect(),
        None => Way::ALL.to_vec(),
    };
    let mut out = std::io::BufWriter::new(std::fs::File::create(util::arg_str(args, "out", "")).expect("create out"));
    let mut cache: HashMap<String, Formatter> = HashMap::new();
    let profile = if cfg!(debug_assertions) { "debug" } else { "release" };

    for b in &behaviours {
        let conc = Conc { v: b["v"].as_u64().unwrap_or(0) };
        let cfg = CfgSpec::from_json(&b["cfg"]);
        let calls = b["calls"].as_array().cloned().unwrap_or_default();
        let (script, desc) = Script::from_abstract(&calls, &conc);
        let before = now_ms();
        let has_ts = script.calls.iter().any(|c| matches!(c, vharness::emf::Call::Ts(_)));
        // equality of two runs: status, error text and bytes - as a multiset of lines, because the
        // order of split records is the iteration order of a per-instance randomly seeded hash map
        let norm = |r: &RunOut| -> Vec<Vec<u8>> {
            let b = if has_ts { r.bytes.clone() } else { mask_now(&r.bytes) };
            let mut lines: Vec<Vec<u8>> = b.split_inclusive(|c| *c == b'\n').map(|l| l.to_vec()).collect();
            lines.sort();
            lines
        };
        let same = |a: &RunOut, b: &RunOut| a.status == b.status && a.err == b.err && norm(a) == norm(b);
        let mut groups: Vec<(RunOut, Vec<&'static str>)> = Vec::new();
        for &way in &ways {
            let r = if reuse {
                let key = format!("{}|{}|{}", b["cfg"], way.name(), conc.v);
                if !cache.contains_key(&key) {
                    match Formatter::build(&cfg, way, &conc) {
                        Some(f) => {
                            cache.insert(key.clone(), f);
                        }
                        None => continue,
                    }
                }
                run_once(cache.get_mut(&key).unwrap(), &script)
            } else {
                match Formatter::build(&cfg, way, &conc) {
                    Some(mut f) => run_once(&mut f, &script),
                    None => continue,
                }
            };
            match groups.iter_mut().find(|(g, _)| same(g, &r)) {
                Some((_, ws)) => ws.push(way.name()),
                None => groups.push((r, vec![way.name()])),
            }
        }
        let after = now_ms();
        let runs: Vec<Value> = groups
            .iter()
            .map(|(r, ws)| {
                let raw = if r.bytes.len() <= 3000 { Value::String(String::from_utf8_lossy(&r.bytes).into_owned()) } else { Value::Null };
                json!({
                    "ways": ws,
                    "status": r.status,
                    "err": r.err,
                    "len": r.bytes.len(),
                    "raw": raw,
                    "parse": if r.bytes.is_empty() { Value::Null } else { project(&r.bytes) },
                })
            })
            .collect();
        let namespaces: Vec<String> = (1..=cfg.ns).map(|i| conc.namespace(i)).collect();
        let names: serde_json::Map<String, Value> = ["a", "b", "s", "d1", "d2", "k1", "k2", "", "_aws"]
            .iter()
            .map(|n| (n.to_string(), Value::String(conc.name(n))))
            .collect();
        let line = json!({
            "id": b["id"],
            "v": conc.v,
            "profile": profile,
            "now": [before.to_string(), after.to_string()],
            "conc": {
                "names": names,
                "ns": namespaces,
                "lg": if cfg.lg { Value::String(conc.log_group()) } else { Value::Null },
                "dimv": {"v1": conc.dim_value("v1"), "v2": conc.dim_value("v2")},
                "extra": {"ns": vharness::emf::EXTRA_NS, "dims": [[vharness::emf::EXTRA_DIM]],
                          "metrics": [{"name": vharness::emf::EXTRA_METRIC, "unit": "Count", "res": null}]},
                "calls": desc,
            },
            "runs": runs,
        });
        writeln!(out, "{line}").unwrap();
    }
    out.flush().unwrap();
}
