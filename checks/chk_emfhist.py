"""C14: formatting one entry never depends on the entries formatted before it.

spec/emf/EmfHistory.tla        the formatter's reused state (six prefixed buffers, dimension-set map,
                               capacity/shrink, per-call flags and validation map), a catalogue of 24 entry kinds and, orthogonal
                               to the kind, the writer fault of a call (none | first byte | mid record | inside
                               the last line); TLC checks Stateless / NoResidue / PrefixKept on every reachable
                               formatter state for 11 configuration classes, and that each of eight deliberately
                               missing resets (CONSTANT Bug) is caught by Stateless (sensitivity of the model)
spec/emf/EmfHistoryReplay.tla  history variable: every pair (kind x fault) -> kind, triples
                               kind -> (kind x fault) -> kind, long -simulate walks; one REPLAY line each
harness/src/bin/emfh.rs        R: one long-lived real formatter formats the sequence; every position is
                               compared with a freshly built formatter (same entry, writer, RNG draws)
"""
import json, os
import vlib
from vlib import log

SPECD = os.path.join(vlib.SPEC, "emf")
BUGS = ["declNotCleared", "dimsCached", "edimsMemo", "countsDirty", "mapNotCleared", "splitHoisted", "shrinkCuts", "dimsNotCleared"]

def model_runs(chk, tier):
    if getattr(vlib, "SKIP_MC", False):   # VERIF_SKIP_MC: self-test only (the model does not depend on the code)
        return
    r = vlib.model_check(SPECD, "EmfHistory", "MC_hist.cfg", timeout=900)
    chk.add_model("EmfHistory/MC_hist.cfg", r)
    if r.coverage.get("Format", 1) == 0:
        raise vlib.ToolError("EmfHistory: action Format never taken")
    # sensitivity: each modelled missing reset must violate Stateless
    with open(os.path.join(SPECD, "MC_hist.cfg")) as f:
        base = f.read()
    caught = []
    bugs = BUGS if tier == "thorough" else BUGS[:3]
    for b in bugs:
        cfg = os.path.join(chk.dir, f"MC_hist_bug_{b}.cfg")
        with open(cfg, "w") as f:
            f.write(base.replace('Bug = "none"', f'Bug = "{b}"').replace("INVARIANTS Stateless NoResidue PrefixKept", "INVARIANT Stateless"))
        rb = vlib.tlc(SPECD, "EmfHistory", cfg, workers=2, timeout=300)
        if "Stateless" not in rb.invariant_violated:
            raise vlib.ToolError(f"EmfHistory with Bug={b} does not violate Stateless: the model cannot see a missing reset")
        caught.append(b)
    chk.extra["model_bugs_caught_by_Stateless"] = caught


def dedup(behs, drop_last=0):
    """TLC's simulator evaluates Emit on every candidate last step of a walk: keep one per walk."""
    seen, out = set(), []
    for b in behs:
        n = len(b["kinds"]) - drop_last
        k = json.dumps([b["cfg"], b["kinds"][:n], b["faults"][:n]])
        if k not in seen:
            seen.add(k)
            out.append(b)
    return out


def gen_behaviours(chk, tier):
    beh = []
    for cfg in ("MC_hist_pairs.cfg", "MC_hist_triples_quick.cfg" if tier == "quick" else "MC_hist_triples.cfg"):
        r = vlib.tlc(SPECD, "EmfHistoryReplay", cfg, timeout=3600)
        if r.errors or not r.no_error:
            raise vlib.ToolError(f"EmfHistoryReplay/{cfg} failed: {r.errors[:2]}")
        chk.add_model("EmfHistoryReplay/" + cfg, r)
        part = dedup(vlib.replay_lines(r))
        if not part:
            raise vlib.ToolError(f"EmfHistoryReplay/{cfg}: no behaviours generated")
        chk.extra["behaviours_" + cfg[8:-4]] = len(part)
        beh += part
    # long walks: the writer may fail at every third call
    nwalk = 24 if tier == "quick" else 400
    rw = vlib.tlc(SPECD, "EmfHistoryReplay", "MC_hist_walk.cfg", workers=1, simulate=nwalk, depth=210,
                  seed=chk.seed, timeout=1800)
    if rw.errors:
        raise vlib.ToolError(f"EmfHistoryReplay walks failed: {rw.errors[:2]}")
    walks = dedup(vlib.replay_lines(rw), drop_last=1)
    chk.extra["walks"] = len(walks)
    chk.extra["walk_length"] = 200
    if not walks:
        raise vlib.ToolError("no walks generated")
    beh += walks
    for i, b in enumerate(beh):
        b["id"] = i + 1
    return beh


def run_behaviours(chk, prop, beh, tag="beh"):
    for b in beh:
        b.setdefault("faults", ["none"] * len(b["kinds"]))
    bp = os.path.join(chk.dir, f"{tag}.ndjson")
    op = os.path.join(chk.dir, f"{tag}-out.ndjson")
    vlib.write_ndjson(bp, beh)
    vlib.run_bin("emfh", ["replay", "--behaviours", bp, "--out", op, "--seed", chk.seed], timeout=3600)
    outs = {o["id"]: o for o in vlib.read_ndjson(op)}
    pairs = set()
    after = {"rejected": 0, "huge": 0, "split": 0, "sampled": 0, "io_failed": {}}
    ndrift = 0
    for b in beh:
        o = outs.get(b["id"])
        if o is None:
            raise vlib.ToolError(f"emfh produced no result for behaviour {b['id']}")
        if o["nondeterministic"]:
            raise vlib.ToolError(f"a freshly built formatter is not deterministic for {o['nondeterministic']} ({b['cfg']})")
        chk.evaluations += o["n"]
        # vacuity of the address-reuse binding: consecutive EntryDimensions configs with different
        # values, and how many of them really sat at the same address (counter, not a verdict)
        after["edims_value_changes"] = after.get("edims_value_changes", 0) + o.get("edims_pairs", 0)
        after["edims_value_changes_at_same_address"] = after.get("edims_value_changes_at_same_address", 0) + o.get("edims_pairs_same_addr", 0)
        ks, fs = b["kinds"], b["faults"]
        for i in range(1, len(ks)):
            pairs.add((b["cfg"], ks[i - 1], fs[i - 1] if o["classes"][i - 1] == "io" else "none", ks[i]))
            if o["classes"][i - 1] == "reject":
                after["rejected"] += 1
            if o["classes"][i - 1] == "io":
                # an ACCEPTED entry of this kind met a failing writer just before position i
                key = f"{ks[i - 1]}/{fs[i - 1]}"
                after["io_failed"][key] = after["io_failed"].get(key, 0) + 1
            if ks[i - 1] == "huge":
                after["huge"] += 1
            if ks[i - 1] in ("split1", "split2"):
                after["split"] += 1
            if ks[i - 1] == "sampled":
                after["sampled"] += 1
        if o["mismatches"]:
            m = o["mismatches"][0]
            prev = ks[m["pos"] - 1] if m["pos"] > 0 else None
            hist3 = [k if w == "none" else f"{k}+writer fails ({w})" for k, w in zip(ks[:m["pos"]], fs[:m["pos"]])][-3:]
            what = (f"configuration {b['cfg']}: entry #{m['pos']} ({m['kind']}{'' if m.get('fault', 'none') == 'none' else ', writer fails: ' + m['fault']}) formatted after {hist3} differs from a freshly "
                    f"built formatter: {m['what']}; first difference {json.dumps(m['first_difference'])[:400]}")
            small = {"cfg": b["cfg"], "kinds": ks[:m["pos"] + 1], "faults": fs[:m["pos"] + 1], "pred": b.get("pred", [])[:m["pos"] + 1]}
            chk.violation(what, {"kind": "emfhist", "behaviour": small, "mismatch": m}, key=f"{prop}:{b['cfg']}:{prev}:{m['kind']}")
        else:
            chk.traces += 1
        for d in o["drift"]:
            ndrift += 1
            if len(chk.drift) < 20:
                chk.drift.append({"cfg": b["cfg"], **d})
    for p in pairs:
        chk.nontrivial.add(json.dumps(p))
    chk.extra["positions_after"] = after
    chk.extra["drift_count"] = ndrift
    return outs


def run(prop, tier):
    chk = vlib.Check(prop, tier)
    chk.rule = ("evaluations = positions of TLC-generated kind sequences at which the long-lived real formatter was compared with a "
                "freshly built one; distinct_nontrivial = distinct (configuration, predecessor kind, kind) pairs compared; "
                "traces = sequences without any difference")
    chk.assumptions = [
        "the catalogue of 24 entry kinds x 4 writer behaviours (never fails, fails on the first byte, mid record, inside the last line) and 11 configurations represents the inputs named in the property; member values vary with the position only",
        "a writer fault is placed with the complete output of the entry (byte budget); a faulted call of a multi-line entry is compared by decision, size and membership of every delivered byte in the entry's records (split lines come out in hash order)",
        "every entry of a history is built into the same storage after its predecessor was dropped, so configs that live inside the entry (EntryDimensions) of consecutive entries share an address (counted in positions_after.edims_value_changes_at_same_address)",
        "a freshly built formatter is the reference (its own determinism is checked once per configuration x kind)",
        "split records are compared as a multiset of lines, members of an object order-insensitively; the Timestamp of entries without one is masked",
        "TLC results are exhaustive over the abstract buffer/flag state of EmfHistory.tla, not over byte contents",
    ]
    vlib.cargo_build(["emfh"])
    model_runs(chk, tier)
    beh = gen_behaviours(chk, tier)
    outs = run_behaviours(chk, prop, beh)
    b0 = beh[len(beh) // 3]
    chk.sample({"behaviour": {"cfg": b0["cfg"], "kinds": b0["kinds"][:6], "faults": b0["faults"][:6], "pred": b0["pred"][:6]},
                "fresh_classes": outs[b0["id"]]["classes"][:6], "lines": outs[b0["id"]]["lines"][:6]})
    return chk.finish()


def replay(prop, path):
    with open(path) as f:
        v = json.load(f)
    vlib.cargo_build(["emfh"])
    chk = vlib.Check(prop + "-replay", "quick")
    b = dict(v["replay"]["behaviour"], id=1)
    outs = run_behaviours(chk, prop, [b], tag="replay")
    log("replayed:", json.dumps(outs[1]["mismatches"])[:1500] if outs[1]["mismatches"] else "no difference")
    return 1 if chk.violations else 0
