CONSTANTS
  CKeys = {"c1", "c2"}
  GKeys = {"g1"}
  HKeys = {"h1"}
  GVals = {1, 2}
  MaxInv = 3
  MaxUpd = 1
  Faults = {"ok", "short", "werr0", "werrP", "ferr"}
  Bug = "none"
SPECIFICATION RSpec
INVARIANT Emit
CHECK_DEADLOCK FALSE
