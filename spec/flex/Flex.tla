--------------------------------- MODULE Flex ---------------------------------
(***************************************************************************)
(* X03(b): metrique::flex::Flex<T> (metrique/src/flex.rs, tests/flex.rs,     *)
(* examples/flex-dynamic-fields.rs): a field whose NAME is chosen at run     *)
(* time.  One Flex object inside one surrounding definition:                 *)
(*                                                                         *)
(*   New(wrap, t, key)    Flex::new(key) as a #[metrics(flatten)] field of a *)
(*                        struct of shape `wrap` (or closed on its own)      *)
(*   With(v) / WithOptional(v|none) / WithDefault     builder calls          *)
(*   Set(v) / Clear                                   after creation         *)
(*   Close                the surrounding entry is closed and written        *)
(*                                                                         *)
(* Documented result: "If the value is None, the field will not be included  *)
(* in the output"; otherwise exactly one item whose name is the key AS GIVEN *)
(* (FlexEntry ignores the NameStyle it is written under: neither rename_all  *)
(* nor a struct prefix of the surrounding #[metrics] struct applies - the    *)
(* example declares rename_all = "PascalCase" and keys like                  *)
(* "records_processed") and whose value is the value present at close time,  *)
(* closed exactly once (test_flex_close_value_called); values that were      *)
(* replaced or cleared before are dropped unclosed.  The static fields       *)
(* around the Flex keep their own names and the declaration order.           *)
(* Implementation-shaped (the check reports a difference as MODEL-DRIFT):    *)
(* a `prefix` on the flatten field itself / on a flatten field above it is   *)
(* ignored as well.                                                        *)
(***************************************************************************)
EXTENDS Naturals, Sequences, FiniteSets, TLC

CONSTANTS MaxOps,     \* builder / mutator calls between New and Close
          Wraps, Keys, Types

VARIABLES cfg, phase, val, next, nops, replaced, closedIds, items
vars == <<cfg, phase, val, next, nops, replaced, closedIds, items>>

AllWraps == {"bare", "plain", "pascal", "kebab", "prefix", "pascalprefix", "fprefix", "nested"}
AllTypes == {"u64", "probe"}       \* probe: a type whose CloseValue impl counts its calls
NoCfg == [wrap |-> "none", t |-> "none", key |-> ""]

\* the static fields around the Flex, in declaration order, with the names the surrounding definition gives them
\* (#[metrics] naming rules: spec/naming/Naming.tla)
Before(w) == CASE w = "bare" -> <<>>
               [] w \in {"plain", "fprefix"} -> <<"before_it">>
               [] w \in {"pascal", "nested"} -> <<"BeforeIt">>
               [] w = "kebab" -> <<"before-it">>
               [] w = "prefix" -> <<"pre_before_it">>
               [] w = "pascalprefix" -> <<"PreBeforeIt">>
After(w) == CASE w = "bare" -> <<>>
              [] w \in {"plain", "fprefix"} -> <<"after_it">>
              [] w = "pascal" -> <<"AfterIt">>
              [] w = "nested" -> <<"SubInnerIt", "AfterIt">>
              [] w = "kebab" -> <<"after-it">>
              [] w = "prefix" -> <<"pre_after_it">>
              [] w = "pascalprefix" -> <<"PreAfterIt">>
Static(names) == [i \in 1..Len(names) |-> [n |-> names[i], dyn |-> FALSE, v |-> 0]]

Init == cfg = NoCfg /\ phase = "none" /\ val = 0 /\ next = 1 /\ nops = 0 /\ replaced = {} /\ closedIds = <<>> /\ items = <<>>

New(w, t, key) ==
    /\ phase = "none"
    /\ cfg' = [wrap |-> w, t |-> t, key |-> key]
    /\ phase' = "open"
    /\ UNCHANGED <<val, next, nops, replaced, closedIds, items>>

\* a value is identified by a fresh id (0 = no value; with_default_value's T::default() is id 100)
Put(newval, fresh) ==
    /\ phase = "open" /\ nops < MaxOps
    /\ replaced' = IF val # 0 THEN replaced \cup {val} ELSE replaced
    /\ val' = newval
    /\ next' = IF fresh THEN next + 1 ELSE next
    /\ nops' = nops + 1
    /\ UNCHANGED <<cfg, phase, closedIds, items>>
With == Put(next, TRUE)                   \* with_value / with_optional_value(Some) / set_value
WithNone == Put(0, FALSE)                 \* with_optional_value(None) / clear_value
WithDefault == Put(100, FALSE)

Close ==
    /\ phase = "open"
    /\ phase' = "closed"
    /\ closedIds' = IF val # 0 THEN <<val>> ELSE <<>>
    /\ items' = Static(Before(cfg.wrap))
                \o (IF val # 0 THEN <<[n |-> cfg.key, dyn |-> TRUE, v |-> val]>> ELSE <<>>)
                \o Static(After(cfg.wrap))
    /\ UNCHANGED <<cfg, val, next, nops, replaced>>

NewAny == \E w \in Wraps, t \in Types, k \in Keys : New(w, t, k)
Next == NewAny \/ With \/ WithNone \/ WithDefault \/ Close
Spec == Init /\ [][Next]_vars

-----------------------------------------------------------------------------
(* property layer *)
Dyn == SelectSeq(items, LAMBDA it : it.dyn)
\* exactly the documented item, or none
ExactlyTheItem == phase = "closed" =>
                     IF val = 0 THEN Dyn = <<>> ELSE Dyn = <<[n |-> cfg.key, dyn |-> TRUE, v |-> val]>>
\* the value present at close time is closed exactly once, nothing else is ever closed
CloseOnce == /\ Len(closedIds) <= 1
             /\ (phase = "closed" /\ val # 0 => closedIds = <<val>>)
             /\ (\A i \in 1..Len(closedIds) : closedIds[i] \notin replaced \/ closedIds[i] = val)
             /\ (phase # "closed" => closedIds = <<>>)
\* the static fields are all there, in order, whatever happens to the Flex
StaticsKept == phase = "closed" =>
                  SelectSeq(items, LAMBDA it : ~it.dyn) = Static(Before(cfg.wrap)) \o Static(After(cfg.wrap))
Inv == ExactlyTheItem /\ CloseOnce /\ StaticsKept
=============================================================================
