-------------------------- MODULE EntryDeriveReplay --------------------------
(***************************************************************************)
(* Behaviour generator for EntryDerive.tla: every finished type tree is      *)
(* printed as one JSON line  {toks, items, sg}:  the definition + value as a *)
(* depth-first token list (tools/gen_entryderive.py rebuilds the Rust types  *)
(* from it) and the observation the documented expansion produces.           *)
(* Used exhaustively (BFS; `toks` is a history variable, so every behaviour  *)
(* is a distinct state) and with -simulate for trees beyond the exhaustive   *)
(* bounds.                                                                 *)
(***************************************************************************)
EXTENDS EntryDerive

Line == [toks |-> toks, items |-> items, sg |-> sg]
Emit == (phase = "done") => PrintT(<<"REPLAY", ToJson(Line)>>)
=============================================================================
