CONSTANTS
  Depth = 6
  EmitZero = FALSE
  DescUnits = {"Count", "Nanoseconds"}
SPECIFICATION Spec
INVARIANT Emit
INVARIANT UnitInv
CONSTRAINT Bound
CHECK_DEADLOCK FALSE
