CONSTANTS
  Slots = {1, 2}
  Ds = {1}
  MaxClock = 1000
  W0 = 5
  W0B = 9000000
  Ambients = {"A"}
  Threads = {"main"}
  Resolution = "captured"
  UnwindDrops = FALSE
  Depth = 8
SPECIFICATION RSpec
INVARIANT Emit
INVARIANT SwInv
CONSTRAINT Bound
CHECK_DEADLOCK FALSE
