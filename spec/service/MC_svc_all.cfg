\* thorough: 2 handlers x 1 request, every mode for both
CONSTANTS
  Plan <- Plan11
  ModesOf <- AnyMode
  NFlush = 1
  EarlyClose = FALSE
SPECIFICATION Spec
INVARIANTS SvcInv AtEnd
PROPERTY SilentAfterDetach
CHECK_DEADLOCK FALSE
