--------------------------- MODULE TestSinksReplay ---------------------------
(* every operation sequence of length MaxOps on VecEntrySink + test_entry_sink, with what each
   operation must return; the catalogue of scripted entries is printed once (CATALOGUE) *)
EXTENDS TestSinks, Json

VARIABLE hist
RInit == Init /\ hist = <<>>

RAppend(e) == Append1(e) /\ hist' = Append(hist, [op |-> "Append", e |-> e, i |-> 0, image |-> Image(Catalogue[e]),
                                                 inspector |-> <<>>, drained |-> <<>>, contains |-> FALSE])
REntries == Read /\ hist' = Append(hist, [op |-> "Entries", e |-> 0, i |-> 0, image |-> Image(<<>>), inspector |-> ins,
                                          drained |-> <<>>, contains |-> FALSE])
RGet(i) == Read /\ i \in 1..Len(ins)
           /\ hist' = Append(hist, [op |-> "Get", e |-> 0, i |-> i, image |-> ins[i], inspector |-> <<>>, drained |-> <<>>, contains |-> FALSE])
RDrain == Drain /\ hist' = Append(hist, [op |-> "Drain", e |-> 0, i |-> 0, image |-> Image(<<>>), inspector |-> <<>>,
                                         drained |-> vec, contains |-> FALSE])
RContains(e) == Read /\ hist' = Append(hist, [op |-> "Contains", e |-> e, i |-> 0, image |-> Image(<<>>), inspector |-> <<>>, drained |-> <<>>,
                                              contains |-> (\E j \in 1..Len(vec) : Catalogue[vec[j]] = Catalogue[e])])
RAsync == Read /\ hist' = Append(hist, [op |-> "FlushAsync", e |-> 0, i |-> 0, image |-> Image(<<>>), inspector |-> <<>>, drained |-> <<>>,
                                        contains |-> FALSE])

RNext == \/ \E e \in 1..K : RAppend(e)
         \/ REntries \/ RDrain \/ RAsync
         \/ \E i \in {1, Len(ins)} : RGet(i)
         \/ \E e \in {1, K} : RContains(e)
RSpec == RInit /\ [][RNext]_<<tvars, hist>>

EmitCatalogue == (nops = 0) => PrintT(<<"CATALOGUE", ToJson(Catalogue)>>)
Emit == (nops = MaxOps) => PrintT(<<"REPLAY", ToJson([steps |-> hist])>>)
=============================================================================
