CONSTANTS
  Threads = {1, 2}
  PerThread = 2
  NextRes = {"ok", "val", "io", "panic"}
  FlushRes = {"ok", "err", "panic"}
  AsyncOK = TRUE
  Bug = "none"
SPECIFICATION Spec
INVARIANTS Atomic ExactlyOnce FlushedOnReturn HolderOK FlushEach
PROPERTIES Terminates PoisonIsClean
