\* rejected definitions: a root container with <= 2 well-formed fields, then one defect
CONSTANTS
  MaxDepth = 1
  MaxFields = 3
  MaxTotal = 3
  Styles = {"none", "PascalCase"}
  VStyles = {"inherit", "kebab-case"}
  Kinds = {"u64", "u64@", "sg", "ts", "ignore"}
  Forms = {"s_named", "s_tuple", "e3_named", "e1_tuple"}
  Edges = {}
  ScriptKinds = {}
  ScriptRot = 0
  ScriptRev = FALSE
SPECIFICATION NSpec
INVARIANT NegEmit
CHECK_DEADLOCK FALSE
