--------------------------- MODULE VPEntryStacks ---------------------------
(***************************************************************************)
(* C15, entry level: every composition of entry wrappers of depth <= Depth  *)
(* over the entry under test.  One action per wrapper layer (ApplyE);       *)
(* TLC checks on every composition that the result is the plain entry's     *)
(* item sequence plus exactly the documented additions (DenoteE), that      *)
(* sample groups travel the same way, and prints the expectation.           *)
(***************************************************************************)
EXTENDS ValuePipeline, Json

CONSTANTS Depth, Bases
VARIABLES base, stack, ent
vars == <<base, stack, ent>>

DenyList == {"f64", "rich", "gm"}
Wrappers ==
    {EW(w) : w \in IdentityEntryWrappers \cup {"NoneE"} \cup MergeFirst \cup MergeLast}
    \cup {[EW("GDims") EXCEPT !.ds = <<"x", "y">>, !.deny = DenyList], [EW("GDims") EXCEPT !.ds = <<"x">>],
          [EW("GDimsStream") EXCEPT !.ds = <<"z">>, !.deny = DenyList], EW("GDimsStream"),
          [EW("GDimsFormat") EXCEPT !.ds = <<"z", "x">>, !.deny = DenyList],
          [EW("EDims") EXCEPT !.ds = <<"p">>], [EW("RootDims") EXCEPT !.ds = <<"q">>],
          [EW("EFlag") EXCEPT !.f = "A"], [EW("RootFlag") EXCEPT !.f = "B"], [EW("FlagStream") EXCEPT !.f = "A"],
          \* constructors that contribute no flags: must leave the flags of every value as they are
          [EW("EFlag") EXCEPT !.f = "0"], [EW("FlagStream") EXCEPT !.f = "0"]}

Init == base \in Bases /\ stack = <<>> /\ ent = BaseEntry(base)
Wrap(w) == stack' = Append(stack, w) /\ ent' = ApplyE(w, ent) /\ UNCHANGED base
Next == \E w \in Wrappers : Wrap(w)
Spec == Init /\ [][Next]_vars
Bound == Len(stack) <= Depth

Transparent == ent = DenoteE(base, stack)

\* consequences spelled out
Plain == BaseEntry(base)
IsSubSeq(small, big) == \* small occurs as a contiguous block of big
    \E off \in 0..(Len(big) - Len(small)) : \A i \in DOMAIN small : big[off + i] = small[i]
Skeleton(items) == [i \in DOMAIN items |-> [t |-> items[i].t, id |-> items[i].id, name |-> items[i].name,
                                             kind |-> items[i].call.kind, obs |-> items[i].call.obs,
                                             unit |-> items[i].call.unit]]
OnlyAdditions ==
    LET alive == \A i \in DOMAIN stack : stack[i].w # "NoneE"
    IN  /\ (\A i \in DOMAIN stack : stack[i].w \in IdentityEntryWrappers) => ent = Plain
        \* order, names, kinds, observations and units of the plain entry survive every composition
        /\ alive => IsSubSeq(Skeleton(Plain.items), Skeleton(ent.items)) /\ IsSubSeq(Plain.sg, ent.sg)
        \* globals first
        /\ (stack # <<>> /\ stack[Len(stack)].w \in MergeFirst) => SubSeq(ent.items, 1, Len(EntryG.items)) = EntryG.items
        \* deny-listed names never get the global dimensions of that layer
        /\ (Len(stack) = 1 /\ stack[1].w \in DimDeny) =>
              \A i \in DOMAIN ent.items :
                  ent.items[i].call = IF ent.items[i].name \in stack[1].deny \/ Plain.items[i].call.kind # "metric"
                                      THEN Plain.items[i].call
                                      ELSE [Plain.items[i].call EXCEPT !.dims = @ \o stack[1].ds]
        \* dimensions are only ever appended, flags only ever added, strings/errors/empties untouched
        /\ (alive /\ \A i \in DOMAIN stack : stack[i].w \notin MergeFirst \cup MergeLast) =>
              \A i \in DOMAIN ent.items :
                  LET p == Plain.items[i].call
                      c == ent.items[i].call
                  IN  /\ p.kind # "metric" => c = p
                      /\ SubSeq(c.dims, 1, Len(p.dims)) = p.dims /\ p.flags \subseteq c.flags

Compact(it) == IF it.t = "val" THEN [t |-> "val", name |-> it.name, call |-> it.call] ELSE [t |-> it.t, id |-> it.id]
Emit == Len(stack) <= Depth =>
            PrintT(<<"REPLAY", ToJson([base |-> base, stack |-> stack,
                                        items |-> [i \in DOMAIN ent.items |-> Compact(ent.items[i])],
                                        sg |-> ent.sg])>>)
EmitUnits == stack = <<>> => PrintT(<<"UNITS", ToJson([u \in UnitIds |-> U(u).name])>>)
=============================================================================
