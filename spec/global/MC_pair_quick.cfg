\* two globals sharing 1 thread and 1 runtime: 1 sink and 1 entry each (MC_pair.cfg: 2 sinks)
CONSTANTS
  Threads = {1}
  Runtimes = {1}
  MaxSinks = 1
  MaxEntries = 1
SPECIFICATION Spec
INVARIANT Inv
PROPERTY Independent
PROPERTY DestStable
PROPERTY Routed1
PROPERTY Routed2
CHECK_DEADLOCK FALSE
