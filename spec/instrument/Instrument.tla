------------------------------ MODULE Instrument ------------------------------
(***************************************************************************)
(* X03(c): metrique::instrument::Instrumented<T, U> (metrique/src/            *)
(* instrument.rs, tests/instrument.rs).  A value T (here a Result) travels   *)
(* with a metrics object U that the instrumented closure and the callbacks   *)
(* mutate.  U is either a plain #[metrics] struct (never emitted by this     *)
(* API, handed to the caller by into_parts / split_metrics_to) or the        *)
(* AppendAndCloseOnDrop guard returned by append_on_drop(sink): then the     *)
(* entry is emitted when the guard is dropped - by emit(), by dropping the   *)
(* parts / the split target / the Instrumented itself, or by dropping        *)
(* (cancelling) the future of instrument_async, which owns the metrics from  *)
(* the moment it is created.                                                *)
(*                                                                         *)
(* One object history: Start (instrument: the closure runs to the end;        *)
(* instrument_async: only the future is created), Poll (the async closure    *)
(* runs one segment, each segment bumps `steps`; after `yields` pending      *)
(* polls it completes), DropFuture, the callbacks OnError / OnSuccess /      *)
(* Finalize, and the ways out: Emit, IntoParts (+ Touch, DropParts),         *)
(* SplitTo (+ DropTarget), Discard, DropInst.                               *)
(*                                                                         *)
(* Property layer (invariants): an entry is emitted AT MOST ONCE; it is      *)
(* emitted exactly when a guard has been dropped (never while the future is  *)
(* pending, never for a plain struct); it carries every mutation made before *)
(* the drop, in particular on_error's on an Err and not on an Ok.            *)
(***************************************************************************)
EXTENDS Naturals, Sequences, TLC

CONSTANTS MaxYields,    \* pending polls of the async closure
          MaxCallbacks  \* callbacks applied to one Instrumented

VARIABLES cfg,      \* [mode, u, out, y, pre] chosen at Start (pre: the split target already holds another metrics object)
          loc,      \* where the metrics object lives: "none" | "future" | "inst" | "parts" | "target" | "gone"
          m,        \* its content [steps, err, succ, fin]
          seg,      \* segments of the async closure that have run
          ncb,      \* callbacks applied
          val,      \* the value handed to the caller: "none" | "ok" | "err"
          via,      \* the way the metrics left the Instrumented: "none" | "cancel" | "emit" | "parts" | "split" | "discard" | "dropinst"
          emitted   \* entries appended to the sink, in order
vars == <<cfg, loc, m, seg, ncb, val, via, emitted>>

M0 == [steps |-> 0, err |-> FALSE, succ |-> FALSE, fin |-> 0]
NoCfg == [mode |-> "none", u |-> "none", out |-> "none", y |-> 0, pre |-> FALSE]
\* the object a pre-filled split target holds before (same kind as the instrumented one)
Old == [steps |-> 100, err |-> FALSE, succ |-> FALSE, fin |-> 0]

Init == cfg = NoCfg /\ loc = "none" /\ m = M0 /\ seg = 0 /\ ncb = 0 /\ val = "none" /\ via = "none" /\ emitted = <<>>

\* dropping the metrics object: a guard closes the entry and appends it, a plain struct just goes away
Dropped == IF cfg.u = "guard" THEN Append(emitted, m) ELSE emitted

Start(mode, u, out, y, pre) ==
    /\ loc = "none"
    /\ (mode = "sync" => y = 0)
    /\ cfg' = [mode |-> mode, u |-> u, out |-> out, y |-> y, pre |-> pre]
    /\ IF mode = "sync"
       THEN loc' = "inst" /\ m' = [m EXCEPT !.steps = 1]        \* instrument(): f(&mut metrics) has run
       ELSE loc' = "future" /\ m' = m                           \* instrument_async(): nothing has run yet
    /\ UNCHANGED <<seg, ncb, val, via, emitted>>

\* one poll = one segment of the closure; the last segment returns the result
Poll ==
    /\ loc = "future"
    /\ m' = [m EXCEPT !.steps = @ + 1]
    /\ seg' = seg + 1
    /\ loc' = IF seg = cfg.y THEN "inst" ELSE "future"
    /\ UNCHANGED <<cfg, ncb, val, via, emitted>>

\* cancellation: the future owns the metrics
DropFuture ==
    /\ loc = "future"
    /\ emitted' = Dropped
    /\ loc' = "gone" /\ via' = "cancel"
    /\ UNCHANGED <<cfg, m, seg, ncb, val>>

Callback(which) ==
    /\ loc = "inst"
    /\ ncb < MaxCallbacks
    /\ ncb' = ncb + 1
    /\ m' = CASE which = "on_error"   -> IF cfg.out = "err" THEN [m EXCEPT !.err = TRUE] ELSE m
              [] which = "on_success" -> IF cfg.out = "ok" THEN [m EXCEPT !.succ = TRUE] ELSE m
              [] which = "finalize"   -> [m EXCEPT !.fin = @ + 1]
    /\ UNCHANGED <<cfg, loc, seg, val, via, emitted>>

\* emit(): only exists for a guard; "emit the metrics and return the value"
Emit ==
    /\ loc = "inst" /\ cfg.u = "guard"
    /\ emitted' = Dropped /\ loc' = "gone" /\ val' = cfg.out /\ via' = "emit"
    /\ UNCHANGED <<cfg, m, seg, ncb>>

IntoParts ==
    /\ loc = "inst"
    /\ loc' = "parts" /\ val' = cfg.out /\ via' = "parts"
    /\ UNCHANGED <<cfg, m, seg, ncb, emitted>>
\* the caller owns the metrics now and may keep mutating them
Touch ==
    /\ loc = "parts" /\ m.fin < MaxCallbacks
    /\ m' = [m EXCEPT !.fin = @ + 1]
    /\ UNCHANGED <<cfg, loc, seg, ncb, val, via, emitted>>
DropParts ==
    /\ loc = "parts"
    /\ emitted' = Dropped /\ loc' = "gone"
    /\ UNCHANGED <<cfg, m, seg, ncb, val, via>>

\* split_metrics_to(&mut target): "write the metrics ... into a parent metric and return the value"
\* `*target = Some(metrics)`: what the target held before is dropped there and then
SplitTo ==
    /\ loc = "inst"
    /\ loc' = "target" /\ val' = cfg.out /\ via' = "split"
    /\ emitted' = IF cfg.pre /\ cfg.u = "guard" THEN Append(emitted, Old) ELSE emitted
    /\ UNCHANGED <<cfg, m, seg, ncb>>
DropTarget ==
    /\ loc = "target"
    /\ emitted' = Dropped /\ loc' = "gone"
    /\ UNCHANGED <<cfg, m, seg, ncb, val, via>>

\* discard_metrics(): the metrics object is dropped inside; for a guard that is an emission (implementation-shaped:
\* the docs only say "discard")
Discard ==
    /\ loc = "inst"
    /\ emitted' = Dropped /\ loc' = "gone" /\ val' = cfg.out /\ via' = "discard"
    /\ UNCHANGED <<cfg, m, seg, ncb>>
\* the whole Instrumented is dropped unused
DropInst ==
    /\ loc = "inst"
    /\ emitted' = Dropped /\ loc' = "gone" /\ via' = "dropinst"
    /\ UNCHANGED <<cfg, m, seg, ncb, val>>

StartAny == \E mode \in {"sync", "async"}, u \in {"plain", "guard"}, out \in {"ok", "err"}, y \in 0..MaxYields, pre \in BOOLEAN :
               Start(mode, u, out, y, pre)
CallbackAny == \E w \in {"on_error", "on_success", "finalize"} : Callback(w)
Next == StartAny \/ Poll \/ DropFuture \/ CallbackAny \/ Emit \/ IntoParts \/ Touch \/ DropParts \/ SplitTo \/ DropTarget
        \/ Discard \/ DropInst
Spec == Init /\ [][Next]_vars

-----------------------------------------------------------------------------
(* property layer *)
Mine == SelectSeq(emitted, LAMBDA e : e.steps < 100)
Olds == SelectSeq(emitted, LAMBDA e : e.steps >= 100)
AtMostOnce == Len(Mine) <= 1 /\ Len(Olds) <= 1
\* exactly when a guard has been dropped: not earlier (pending future, live Instrumented, parts or target still held)
ExactlyWhenDropped == /\ (Len(Mine) = 1) <=> (cfg.u = "guard" /\ loc = "gone")
                      /\ (Len(Olds) = 1) <=> (cfg.u = "guard" /\ cfg.pre /\ via = "split")
PlainNeverEmitted == cfg.u = "plain" => emitted = <<>>
\* the entry carries the state of the metrics at the drop: nothing is lost, nothing is applied afterwards
CarriesMutations == /\ (Mine # <<>> => Mine[1] = m)
                    /\ (Olds # <<>> => Olds[1] = Old /\ emitted[1] = Old)
\* the closure ran as many segments as were polled; a completed closure ran all of them
Segments == /\ (cfg.mode = "async" => m.steps = seg)
            /\ (loc \in {"inst", "parts", "target"} => m.steps = cfg.y + 1)
\* on_error / on_success act on their own branch only
Branches == /\ (m.err => cfg.out = "err") /\ (m.succ => cfg.out = "ok")
\* the value reaches the caller only through a way out, and is the closure's result
ValueIsResult == val # "none" => val = cfg.out /\ loc \in {"parts", "target", "gone"}
TypeOK == /\ loc \in {"none", "future", "inst", "parts", "target", "gone"}
          /\ seg <= MaxYields + 1 /\ ncb <= MaxCallbacks

Inv == AtMostOnce /\ ExactlyWhenDropped /\ PlainNeverEmitted /\ CarriesMutations /\ Segments /\ Branches /\ ValueIsResult /\ TypeOK
=============================================================================
