------------------------------ MODULE MutexAbs ------------------------------
(***************************************************************************)
(* C10, mutex-shared sink - property layer for merges into a               *)
(* MutexSink<Aggregate<T>> racing with closes of the parent entry          *)
(* (sink/mutex.rs: RootSink::merge, CloseValue::close = take).             *)
(*                                                                         *)
(* What the property demands ("each merged entry is in exactly one         *)
(* aggregate", mutex-shared sink, for all interleavings):                  *)
(*  - a merge takes effect at one instant between its call and its return  *)
(*    (LinMerge): from then on the input is held by the shared aggregate;  *)
(*  - a close takes effect at one instant between its call and its return  *)
(*    (LinClose) and emits exactly what the aggregate held at that instant *)
(*    (sums and distributions decode to the same set of inputs), leaving   *)
(*    it empty;                                                            *)
(* hence every merge that returned before a close began is in that close's *)
(* aggregate (or in an earlier one), a merge overlapping a close is in it  *)
(* or stays for a later close (clones of the sink outlive the close:       *)
(* test_mutex_sink_close_with_outstanding_references), nothing is lost and *)
(* nothing is emitted twice.                                               *)
(***************************************************************************)
EXTENDS Naturals, FiniteSets, TLC

VARIABLES
    mpend,    \* inputs whose merge was called and has not taken effect
    mlin,     \* ... has taken effect and not returned
    mdone,    \* ... has returned
    heldA,    \* inputs held by the shared aggregate
    cstate,   \* close -> "started" | "lin" | "done"
    taken,    \* close -> inputs it took
    emittedA  \* inputs in an emitted aggregate

mvars == <<mpend, mlin, mdone, heldA, cstate, taken, emittedA>>

MInit == /\ mpend = {} /\ mlin = {} /\ mdone = {} /\ heldA = {} /\ cstate = <<>> /\ taken = <<>> /\ emittedA = {}

MergeStart(i) == /\ i \notin mpend \cup mlin \cup mdone
                 /\ mpend' = mpend \cup {i}
                 /\ UNCHANGED <<mlin, mdone, heldA, cstate, taken, emittedA>>
LinMerge(i) == /\ i \in mpend
               /\ mpend' = mpend \ {i} /\ mlin' = mlin \cup {i} /\ heldA' = heldA \cup {i}
               /\ UNCHANGED <<mdone, cstate, taken, emittedA>>
MergeEnd(i) == /\ i \in mlin
               /\ mlin' = mlin \ {i} /\ mdone' = mdone \cup {i}
               /\ UNCHANGED <<mpend, heldA, cstate, taken, emittedA>>

CloseStart(c) == /\ c \notin DOMAIN cstate
                 /\ cstate' = cstate @@ (c :> "started")
                 /\ UNCHANGED <<mpend, mlin, mdone, heldA, taken, emittedA>>
LinClose(c) == /\ c \in DOMAIN cstate /\ cstate[c] = "started"
               /\ cstate' = [cstate EXCEPT ![c] = "lin"]
               /\ taken' = taken @@ (c :> heldA) /\ heldA' = {}
               /\ UNCHANGED <<mpend, mlin, mdone, emittedA>>
\* the emitted aggregate: inputs its summed field / its distribution decode to, its count
CloseEnd(c, sumIds, obsIds, n) ==
    /\ c \in DOMAIN cstate /\ cstate[c] = "lin"
    /\ sumIds = taken[c] /\ obsIds = taken[c] /\ n = Cardinality(taken[c])
    /\ cstate' = [cstate EXCEPT ![c] = "done"]
    /\ emittedA' = emittedA \cup taken[c]
    /\ UNCHANGED <<mpend, mlin, mdone, heldA, taken>>

\* every call has returned and a close was made afterwards: everything merged has been emitted
MQuiesced == /\ mpend = {} /\ mlin = {} /\ heldA = {}
             /\ \A c \in DOMAIN cstate : cstate[c] = "done"
             /\ emittedA = mdone

MOnce == /\ emittedA \cap heldA = {}
         /\ \A c1, c2 \in DOMAIN taken : c1 # c2 => taken[c1] \cap taken[c2] = {}
         /\ \A c \in DOMAIN taken : taken[c] \cap heldA = {}
MAbsInv == MOnce
=============================================================================
