---------------------------- MODULE VectoredTrace ----------------------------
(***************************************************************************)
(* Trace validation for C16 (writer part): is the call log of a scripted   *)
(* io::Write (harness/src/bin/vw.rs) a behaviour of VectoredWrite?          *)
(*                                                                         *)
(*   Entry            a format call (or one scripted write_all_vectored)   *)
(*                    begins                                               *)
(*   Start(lens)      a line begins: the buffers handed to the write loop  *)
(*                    (for real EMF records: the first offer)              *)
(*   Call(off,ans,k)  one write_vectored call: offered slice lengths, the  *)
(*                    writer's answer (acc k | zero | intr | hard)         *)
(*   LineDone         everything of the line was accepted                  *)
(*   Ret(res)         the call returned ok | io | val                      *)
(*                                                                         *)
(* Strict = TRUE: the offered lengths must equal the model's `slices` at   *)
(* every call (implementation-shaped).  Strict = FALSE: property layer     *)
(* only - something is offered, it is no more than the undelivered rest,   *)
(* the answers have their effect (Ok(0) and hard errors end the line with  *)
(* an error, Interrupted changes nothing, ok means everything delivered).  *)
(* Whether the offered *bytes* are the undelivered bytes is compared by    *)
(* the harness against the output of an all-accepting writer.              *)
(***************************************************************************)
EXTENDS VectoredWrite, Json, IOUtils

CONSTANT Strict

Rec == ndJsonDeserialize(IOEnv.TRACE)
N == Len(Rec)

VARIABLES l, phase
tvars == <<vars, l, phase>>

Ev(name) == l <= N /\ Rec[l].ev = name
Adv == l' = l + 1
AsSeq(x) == [i \in 1..Len(x) |-> x[i]]
Sum(x) == LET RECURSIVE S(_) S(i) == IF i = 0 THEN 0 ELSE x[i] + S(i - 1) IN S(Len(x))

TInit == /\ l = 1 /\ phase = "idle"
         /\ bufs = <<>> /\ slices = <<>> /\ delivered = <<>> /\ pc = "init" /\ last = "none" /\ intr = 0
         /\ TLCSet(1, 1)

TEntry == /\ Ev("Entry") /\ Adv /\ phase = "idle"
          /\ phase' = "entry" /\ pc' = "init" /\ last' = "none" /\ intr' = 0
          /\ bufs' = <<>> /\ slices' = <<>> /\ delivered' = <<>>

\* a line begins only when the previous one is complete
TStart == /\ Ev("Start") /\ Adv /\ phase = "entry" /\ pc \in {"init", "ok"}
          /\ LET b == Build(AsSeq(Rec[l].lens), 1) IN
               /\ bufs' = b
               /\ slices' = IF Strict THEN Advance(b, 0) ELSE Advance(<<Flatten(b)>>, 0)
          /\ delivered' = <<>> /\ pc' = "loop" /\ last' = "none"
          /\ UNCHANGED <<intr, phase>>

OfferOK == IF Strict THEN AsSeq(Rec[l].off) = Lens(slices)
           ELSE Sum(AsSeq(Rec[l].off)) >= 1 /\ Sum(AsSeq(Rec[l].off)) <= Total(slices)

TCall == /\ Ev("Call") /\ Adv /\ phase = "entry" /\ pc = "loop" /\ slices # <<>>
         /\ OfferOK
         /\ \/ Rec[l].ans = "acc" /\ Rec[l].k <= Sum(AsSeq(Rec[l].off)) /\ Accept(Rec[l].k)
            \/ Rec[l].ans = "zero" /\ Zero
            \/ Rec[l].ans = "intr" /\ Interrupted
            \/ Rec[l].ans = "hard" /\ Hard
         /\ UNCHANGED phase

TLineDone == Ev("LineDone") /\ Adv /\ phase = "entry" /\ Finish /\ UNCHANGED phase

TRet == /\ Ev("Ret") /\ Adv /\ phase = "entry"
        /\ \/ Rec[l].res = "ok" /\ pc \in {"init", "ok"}
           \/ Rec[l].res = "io" /\ pc = "err"
           \/ Rec[l].res = "val" /\ pc = "init"
        /\ phase' = "idle"
        /\ UNCHANGED vars

TNext == TEntry \/ TStart \/ TCall \/ TLineDone \/ TRet
TSpec == TInit /\ [][TNext]_tvars

Track == /\ IF l > TLCGet(1) THEN TLCSet(1, l) /\ TLCSet(2, <<phase, pc, last, Lens(slices), Len(delivered)>>) ELSE TRUE
         /\ IF l = N + 1 THEN TLCSet("exit", TRUE) ELSE TRUE

Accepted == IF TLCGet(1) = N + 1 THEN PrintT(<<"ACCEPTED", N>>)
            ELSE /\ PrintT(<<"REJECTED", TLCGet(1), ToJson(Rec[TLCGet(1)]), TLCGet(2)>>)
                 /\ FALSE
=============================================================================
