\* every routing history of length 6 (2 threads, 2 runtimes; one fresh sink per install)
CONSTANTS
  Threads = {1, 2}
  Runtimes = {1, 2}
  MaxSinks = 6
  MaxEntries = 0
  Depth = 6
SPECIFICATION RSpecA
INVARIANT EmitA
CONSTRAINT BoundA
CHECK_DEADLOCK FALSE
