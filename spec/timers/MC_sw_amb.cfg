CONSTANTS
  Slots = {1, 2}
  Ds = {1}
  MaxClock = 2
  W0 = 5
  W0B = 9000000
  Ambients = {"A", "B", "none"}
  Threads = {"main", "other"}
  Resolution = "captured"
  UnwindDrops = TRUE
SPECIFICATION SwSpec
INVARIANT SwTypeOK
INVARIANT SwInv
CHECK_DEADLOCK FALSE
