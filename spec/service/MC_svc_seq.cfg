\* one handler, two requests one after the other (per-thread order), every mode
CONSTANTS
  Plan <- Plan2
  ModesOf <- AnyMode
  NFlush = 1
  EarlyClose = FALSE
SPECIFICATION Spec
INVARIANTS SvcInv AtEnd
PROPERTY SilentAfterDetach
CHECK_DEADLOCK FALSE
