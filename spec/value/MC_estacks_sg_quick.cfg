CONSTANTS
  Depth = 2
  Bases = {"S0x", "S0i", "S1x", "S1i", "S2x", "S2i", "S3x", "S3i", "S5x", "S5i", "T0", "T2e", "T2d", "T3"}
SPECIFICATION Spec
INVARIANT Transparent
INVARIANT OnlyAdditions
INVARIANT Emit
INVARIANT EmitUnits
CONSTRAINT Bound
CHECK_DEADLOCK FALSE
