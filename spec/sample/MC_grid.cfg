CONSTANTS
  QMax = 128
  KMax = 149
  Groups = {1}
  Vols = {0}
  MaxIntervals = 0
  Targets = {1}
  Ttl = 8
SPECIFICATION GSpec
INVARIANT GridOK
INVARIANT Pow2OK
INVARIANT Emit
CHECK_DEADLOCK FALSE
