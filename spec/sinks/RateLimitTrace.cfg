CONSTANTS
  Threads = {1}
  TicksPerSec = 1000
  IntervalTicks = 1000
  MaxTime = 0
  MaxAttempts = 0
  Bug = "none"
SPECIFICATION TSpec
CONSTRAINT Track
POSTCONDITION Accepted
CHECK_DEADLOCK FALSE
