CONSTANTS
  Depth = 5
  EmitZero = FALSE
  DescUnits = {"Percent"}
  HistVals = {"v100"}
  HistCounts = {1}
  GaugeOps = {"set", "set0", "setneg0", "inc", "dec0"}
  RecHows = {"loop"}
SPECIFICATION Spec
INVARIANT Emit
INVARIANT UnitInv
CONSTRAINT Bound
CHECK_DEADLOCK FALSE
