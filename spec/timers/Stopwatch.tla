----------------------------- MODULE Stopwatch -----------------------------
(***************************************************************************)
(* C18: timers and stopwatches report exactly the spans they were asked to *)
(* measure (metrique/src/timers.rs over metrique-timesource).              *)
(*                                                                         *)
(* Three machines over one manually advanced clock:                        *)
(*                                                                         *)
(*  Stopwatch   implementation-shaped layer: the accumulated duration is   *)
(*              MaybeGuardedDuration = Exclusive(Option<Duration>) until   *)
(*              the first start_owned moves it into a shared               *)
(*              Arc<Mutex<Option<Duration>>> cell; guards capture their    *)
(*              span once (stop_ref is idempotent) and add it when they    *)
(*              are dropped; overwrite = take, then the drop adds;         *)
(*              discard forgets start and span; clear takes.  Rust's       *)
(*              borrow rule is part of the model: Stopwatch::start takes   *)
(*              &mut self, so while a borrowed guard lives the stopwatch   *)
(*              itself cannot be started, cleared or closed - only guards  *)
(*              (which own an Arc of the cell, or are the borrow) may act. *)
(*              Property layer: kept = the total of the completed,         *)
(*              non-discarded spans since the last clear/overwrite, None   *)
(*              if there is none.  SwInv: close() = kept in every state.   *)
(*                                                                         *)
(*  Timer       creation -> first stop, else -> close; repeated stops      *)
(*              change nothing.                                            *)
(*                                                                         *)
(*  Timestamp / TimestampOnClose                                           *)
(*              wall clock at creation / at close, in epoch seconds,       *)
(*              milliseconds, microseconds (value formatters EpochSeconds, *)
(*              EpochMillis, EpochMicros; the plain Value impl = millis).  *)
(*                                                                         *)
(* Time sources.  Every one of these types CAPTURES its time source when it *)
(* is created - resolution order at creation: explicit argument, else the   *)
(* thread-local override, (else the tokio runtime's, else the system clock: *)
(* not modelled) - and from then on reads only the captured source: the     *)
(* stopwatch keeps `time_source`, instants keep the source they came from,   *)
(* TimestampOnClose keeps `time_source`.  The model has two injected         *)
(* sources, A (clock, W0) and B (clockB, W0B), and an environment that       *)
(* changes the AMBIENT override under which the next operations run (amb:    *)
(* A, B or none) and the thread that runs them (thr: the creating thread or  *)
(* another thread with its own override).  The stopwatch is created from A.  *)
(* Whatever the ambient override, every report is in terms of the captured   *)
(* source.  Resolution = "ambient_first" is a deliberately wrong variant      *)
(* (close-timestamps prefer the ambient override) used as negative model.    *)
(*                                                                         *)
(* None is -1.  Durations and wall-clock times are in ticks; the harness   *)
(* chooses the length of a tick.                                           *)
(***************************************************************************)
EXTENDS Integers, FiniteSets, Sequences, TLC

CONSTANTS Slots,      \* guard slots (number of simultaneously live guards)
          Ds,         \* clock advances
          MaxClock,   \* bound on the clock (finite state space)
          W0,         \* wall clock of source A (ticks since the epoch) at clock = 0
          W0B,        \* wall clock of source B at clockB = 0
          Ambients,   \* ambient overrides the environment may install: subset of {"A", "B", "none"}
          Threads,    \* subset of {"main", "other"}
          Resolution, \* "captured" (the code) | "ambient_first" (negative model)
          UnwindDrops \* BOOLEAN: guards are also dropped by panics unwinding through their scope

None == -1

VARIABLES
    clock,
    \* ---- stopwatch, implementation layer
    repr,       \* "excl" | "shared"
    exclF,      \* contents of Exclusive(..)        (None after the switch: duration.take())
    cellF,      \* contents of the shared cell       (unused before the switch)
    guards,     \* [Slots -> [st: "free"|"live", kind: "b"|"o", start]]
    \* ---- stopwatch, property layer
    pAny, pSum,
    \* ---- timer: implementation (start, duration) and property layer (created, firstStop)
    tmSt, tmStart, tmDur, tmFirstStop,
    \* ---- timestamps
    tsAt,       \* Timestamp: wall clock captured at creation, None = no timestamp yet
    tocSt,      \* TimestampOnClose: "absent" | "live"
    \* ---- environment and captured sources
    clockB,     \* clock of source B
    amb, thr,   \* ambient override / thread under which the next operations run
    tmSrc, tocSrc   \* source captured by the timer / the close-timestamp

swvars == <<repr, exclF, cellF, guards, pAny, pSum>>
tmvars == <<tmSt, tmStart, tmDur, tmFirstStop, tsAt, tocSt, tmSrc, tocSrc>>
envvars == <<clockB, amb, thr>>
vars == <<clock, swvars, tmvars, envvars>>

Free == [st |-> "free", kind |-> "b", start |-> 0]

Init ==
    /\ clock = 0
    /\ repr = "excl" /\ exclF = None /\ cellF = None
    /\ guards = [s \in Slots |-> Free]
    /\ pAny = FALSE /\ pSum = 0
    /\ tmSt = "absent" /\ tmStart = 0 /\ tmDur = None /\ tmFirstStop = None
    /\ tsAt = None /\ tocSt = "absent"
    /\ clockB = 0 /\ amb = "A" /\ thr = "main" /\ tmSrc = "A" /\ tocSrc = "A"

Live(s) == guards[s].st = "live"
Borrowed == \E s \in Slots : Live(s) /\ guards[s].kind = "b"
FreeSlots == {s \in Slots : ~Live(s)}
NextSlot == CHOOSE s \in FreeSlots : \A t \in FreeSlots : s <= t
NLive == Cardinality(Slots \ FreeSlots)

Advance(d) ==
    /\ clock + d <= MaxClock
    /\ clock' = clock + d
    /\ UNCHANGED <<swvars, tmvars, envvars>>

\* source B's clock moves independently
AdvanceB(d) ==
    /\ "B" \in Ambients /\ d > 0 /\ clockB + d <= MaxClock
    /\ clockB' = clockB + d
    /\ UNCHANGED <<clock, swvars, tmvars, amb, thr>>

\* the environment: the following operations run under another thread-local override / on another thread
SetAmbient(a, t) ==
    /\ a \in Ambients /\ t \in Threads /\ <<a, t>> # <<amb, thr>>
    /\ amb' = a /\ thr' = t
    /\ UNCHANGED <<clock, clockB, swvars, tmvars>>

ClockOf(s) == IF s = "A" THEN clock ELSE clockB
WallOf(s) == IF s = "A" THEN W0 + clock ELSE W0B + clockB
\* source captured by an object created now: the explicit argument (always A here) wins over the
\* thread-local override; without either the object would fall back to tokio / the system clock
CanCreate(how) == how = "explicit" \/ amb # "none"
SrcAtCreation(how) == IF how = "explicit" THEN "A" ELSE amb

(***************************************************************************)
(* Stopwatch - implementation-shaped                                        *)
(***************************************************************************)
\* MaybeGuardedDuration as seen through `&mut self.duration` (borrowed guard, clear) or through
\* the guard's own Shared(..) clone (owned guard): both resolve to the cell once it exists.
Cur == IF repr = "shared" THEN cellF ELSE exclF
SetCur(v) == IF repr = "shared" THEN cellF' = v /\ UNCHANGED exclF
             ELSE exclF' = v /\ UNCHANGED cellF
\* AddAssign: Some(x.unwrap_or_default() + rhs)
Plus(acc, s) == IF acc = None THEN s ELSE acc + s

\* stop_ref: the span is captured once; later calls return the captured value
StopRef(selfTime, start) == IF selfTime # None THEN selfTime
                            ELSE IF start # None THEN clock - start ELSE None
\* Drop: stop_ref, then add if there is a span
AfterDrop(acc, selfTime, start) ==
    LET st == StopRef(selfTime, start) IN IF st # None THEN Plus(acc, st) ELSE acc

Release(s) == guards' = [guards EXCEPT ![s] = Free]

Start ==
    /\ ~Borrowed /\ FreeSlots # {}
    /\ guards' = [guards EXCEPT ![NextSlot] = [st |-> "live", kind |-> "b", start |-> clock]]
    /\ UNCHANGED <<clock, repr, exclF, cellF, pAny, pSum, tmvars, envvars>>

\* shared_cloned(): Exclusive(d) becomes Shared(Arc::new(Mutex::new(d.take())))
StartOwned ==
    /\ ~Borrowed /\ FreeSlots # {}
    /\ IF repr = "excl" THEN repr' = "shared" /\ cellF' = exclF /\ exclF' = None
       ELSE UNCHANGED <<repr, exclF, cellF>>
    /\ guards' = [guards EXCEPT ![NextSlot] = [st |-> "live", kind |-> "o", start |-> clock]]
    /\ UNCHANGED <<clock, pAny, pSum, tmvars, envvars>>

Span(s) == clock - guards[s].start

\* guard.stop(): stop_ref (capture), the value is returned, then Drop runs (stop_ref again: same value)
Stop(s) ==
    /\ Live(s)
    /\ LET captured == StopRef(None, guards[s].start)
       IN SetCur(AfterDrop(Cur, captured, guards[s].start))
    /\ Release(s)
    /\ pAny' = TRUE /\ pSum' = pSum + Span(s)
    /\ UNCHANGED <<clock, repr, tmvars, envvars>>
StopRet(s) == Span(s)

\* drop(guard)
DropGuard(s) ==
    /\ Live(s)
    /\ SetCur(AfterDrop(Cur, None, guards[s].start))
    /\ Release(s)
    /\ pAny' = TRUE /\ pSum' = pSum + Span(s)
    /\ UNCHANGED <<clock, repr, tmvars, envvars>>

\* The guard's scope is left by a panic (caught further up): Drop runs during the unwinding and must do
\* exactly what it does otherwise - the span was completed and was not discarded.
DropUnwind(s) == UnwindDrops /\ DropGuard(s)

\* guard.overwrite(): timer.take(), then Drop adds the guard's own span
Overwrite(s) ==
    /\ Live(s)
    /\ SetCur(AfterDrop(None, None, guards[s].start))
    /\ Release(s)
    /\ pAny' = TRUE /\ pSum' = Span(s)
    /\ UNCHANGED <<clock, repr, tmvars, envvars>>

\* guard.discard(): self_time.take(); start.take(); Drop finds nothing to add
Discard(s) ==
    /\ Live(s)
    /\ SetCur(AfterDrop(Cur, None, None))
    /\ Release(s)
    /\ UNCHANGED <<clock, repr, pAny, pSum, tmvars, envvars>>

\* stopwatch.clear(): duration.take() (live guards keep ticking and add later)
Clear ==
    /\ ~Borrowed
    /\ SetCur(None)
    /\ pAny' = FALSE /\ pSum' = 0
    /\ UNCHANGED <<clock, repr, guards, tmvars, envvars>>

\* CloseValue for &Stopwatch (Stopwatch.start is never set: the third arm yields None)
CloseVal == IF repr = "excl" THEN exclF ELSE cellF
\* property layer
Kept == IF pAny THEN pSum ELSE None
\* the stopwatch can be closed (observed) only while it is not mutably borrowed
Observable == ~Borrowed

\* the stopwatch was created from source A (Stopwatch::new_from_timesource(A), or Stopwatch::new()
\* under the override A): every span above is measured on `clock`, whatever amb / thr are
SwNext ==
    \/ \E d \in Ds : Advance(d) \/ AdvanceB(d)
    \/ \E a \in Ambients, t \in Threads : SetAmbient(a, t)
    \/ Start \/ StartOwned \/ Clear
    \/ \E s \in Slots : Stop(s) \/ DropGuard(s) \/ DropUnwind(s) \/ Overwrite(s) \/ Discard(s)

SwSpec == Init /\ [][SwNext]_vars

SwTypeOK ==
    /\ clock \in 0..MaxClock
    /\ repr \in {"excl", "shared"}
    /\ exclF \in {None} \cup Nat /\ cellF \in {None} \cup Nat
    /\ repr = "shared" => exclF = None
    /\ (\E s \in Slots : Live(s) /\ guards[s].kind = "o") => repr = "shared"
    /\ Cardinality({s \in Slots : Live(s) /\ guards[s].kind = "b"}) <= 1
SwInv == CloseVal = Kept

(***************************************************************************)
(* Timer                                                                    *)
(***************************************************************************)
TimerNew(how) ==
    /\ tmSt = "absent" /\ CanCreate(how)
    /\ tmSt' = "live" /\ tmSrc' = SrcAtCreation(how) /\ tmStart' = ClockOf(SrcAtCreation(how))
    /\ tmDur' = None /\ tmFirstStop' = None
    /\ UNCHANGED <<clock, swvars, tsAt, tocSt, tocSrc, envvars>>

\* timer.stop(): idempotent; returns the stored duration.  The start instant carries the captured
\* source: elapsed() reads that source
TimerElapsed == ClockOf(tmSrc) - tmStart
TimerStop ==
    /\ tmSt = "live"
    /\ tmDur' = IF tmDur # None THEN tmDur ELSE TimerElapsed
    /\ tmFirstStop' = IF tmFirstStop # None THEN tmFirstStop ELSE ClockOf(tmSrc)
    /\ UNCHANGED <<clock, swvars, tmSt, tmStart, tmSrc, tsAt, tocSt, tocSrc, envvars>>
TimerStopRet == IF tmDur # None THEN tmDur ELSE TimerElapsed

\* CloseValue for &Timer
TimerCloseVal == IF tmDur # None THEN tmDur ELSE TimerElapsed
\* property layer: creation -> first stop, else creation -> now, on the captured source's clock
TimerReport == IF tmFirstStop # None THEN tmFirstStop - tmStart ELSE ClockOf(tmSrc) - tmStart
TimerInv == tmSt = "live" => TimerCloseVal = TimerReport

(***************************************************************************)
(* Timestamp, TimestampOnClose                                              *)
(***************************************************************************)
Units == {"Second", "Millisecond", "Microsecond"}
\* how many of the unit make one second: the reported number is (time since epoch) * PerSecond
PerSecond(u) == CASE u = "Second" -> 1 [] u = "Millisecond" -> 1000 [] u = "Microsecond" -> 1000000
\* Second and Millisecond are printed as floating point numbers, Microsecond as a whole number
Integral(u) == u = "Microsecond"

TsNew(how) ==
    /\ tsAt = None /\ CanCreate(how)
    /\ tsAt' = WallOf(SrcAtCreation(how))
    /\ UNCHANGED <<clock, swvars, tmSt, tmStart, tmDur, tmFirstStop, tmSrc, tocSt, tocSrc, envvars>>
TsCloseVal == tsAt                    \* wall clock at creation, whenever and wherever it is closed

\* TimestampOnClose::default() captures the ambient source
TocNew ==
    /\ tocSt = "absent" /\ CanCreate("ambient")
    /\ tocSt' = "live" /\ tocSrc' = SrcAtCreation("ambient")
    /\ UNCHANGED <<clock, swvars, tmSt, tmStart, tmDur, tmFirstStop, tmSrc, tsAt, envvars>>
\* closing consumes the TimestampOnClose and reports the captured source's wall clock at that moment
TocClose ==
    /\ tocSt = "live"
    /\ tocSt' = "absent"
    /\ UNCHANGED <<clock, swvars, tmSt, tmStart, tmDur, tmFirstStop, tmSrc, tsAt, tocSrc, envvars>>
TocCloseVal == IF Resolution = "ambient_first" /\ amb # "none" THEN WallOf(amb) ELSE WallOf(tocSrc)
\* property layer: the injected (captured) source's wall clock at close
TocReport == WallOf(tocSrc)
TocInv == tocSt = "live" => TocCloseVal = TocReport

Hows == {"explicit", "ambient"}
TmNext ==
    \/ \E d \in Ds : Advance(d) \/ AdvanceB(d)
    \/ \E a \in Ambients, t \in Threads : SetAmbient(a, t)
    \/ \E how \in Hows : TimerNew(how) \/ TsNew(how)
    \/ TimerStop \/ TocNew \/ TocClose

TmSpec == Init /\ [][TmNext]_vars
TmTypeOK ==
    /\ tmSt \in {"absent", "live"} /\ tocSt \in {"absent", "live"}
    /\ tmDur \in {None} \cup Nat /\ tsAt \in {None} \cup Nat
    /\ tmDur # None <=> tmFirstStop # None
    /\ amb \in Ambients /\ thr \in Threads /\ tmSrc \in {"A", "B"} /\ tocSrc \in {"A", "B"}
TmInv == TimerInv /\ TocInv
=============================================================================
