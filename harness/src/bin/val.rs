//! Driver for the value / entry wrapper pipeline (C15) and unit conversion (C19).
//!
//!   val values  --behaviours b.ndjson --out o.ndjson
//!       every line {id, base, stack:[{w,ds,f,from,to}], runs:[[magnitude index per slot]]} is a
//!       stack of value wrappers printed by TLC (VPValueStacks.tla).  The stack is built from the
//!       REAL wrapper types, one layer at a time, through a type-erasing adaptor (object-safe
//!       mirror of Value/ValueWriter, the same double dispatch idea as entry/boxed.rs), so that the
//!       real `Value::write` / `ValueWriter` code of every wrapper runs on every layer.  The call
//!       that reaches a recording ValueWriter is written out.
//!   val entries --behaviours b.ndjson --out o.ndjson
//!       the same for compositions of entry wrappers (VPEntryStacks.tla): the item sequence
//!       (timestamp | config | (name, call)) seen by a recording EntryWriter, and sample_group().
//!   val hist    --behaviours b.ndjson --out o.ndjson
//!       every line {id, wrapper, steps:[{res}], runs} is a history printed by TLC (VPStreamHist.tla): the
//!       entries are sent one after the other through ONE long-lived merge_globals / merge_global_dimensions /
//!       ForceFlag wrapper (stream level and format level) whose inner stream / format answers Ok, an I/O
//!       error or a validation error as scripted; what the inner stream is handed is recorded per step.
//!   val pairs   --behaviours b.ndjson --out o.ndjson
//!       every line {id, from, to, time, inverse, mags:[..]} is a convertible unit pair printed by
//!       TLC (VPUnitPairs.tla); the shapes are built statically (macro table over all pairs):
//!       a value with all three observation kinds for every pair, Duration for every time pair, the round
//!       trip inside a family, and u64 / f64 / Option / Distribution / Mean / Box / string / unit mismatch for a
//!       subset of 55 pairs (None -> every unit, all time pairs, Kilobyte against all twenty).
//!   val collect --behaviours b.ndjson --out o.ndjson
//!       every line {id, prom, wrote, mags} is an ordered pair of units (all 26 x 26, VPUnitPairs.tla): elements
//!       that promise `prom` and write `wrote` are collected by Distribution<V>::write, Mean::try_new /
//!       try_extend / record_value and Distribution::try_to_mean.
//!   val attrs   --out o.ndjson [--mags i,j]
//!       statically declared #[metrics] structs with `unit = ...` attributes.
//!
//! The driver only reports what the real code did (plus the concrete magnitudes it plugged in);
//! all comparisons against TLC's expectation are made in checks/chk_valuepipe.py.

use metrique::unit_of_work::metrics;
use metrique::{CloseValue, InflectableEntry, RootEntry};
use metrique_writer::entry::WithGlobalDimensions;
use metrique_writer::unit::{self, UnitTag, WithUnit};
use metrique_writer::format::{Format, FormatExt};
use metrique_writer::value::{
    FormattedValue, ValueFormatter,
    Distribution, FlagConstructor, ForceFlag, Mean, MetricOptions, WithDimension, WithDimensions,
};
use metrique_writer::{
    BoxEntry, Convert, Entry, EntryConfig, EntryIoStream, EntryIoStreamExt, EntryWriter, IoStreamError, MetricFlags,
    MetricValue, Observation, Unit, ValidationError, Value, ValueWriter,
};
use serde_json::{Value as J, json};
use std::any::Any;
use std::borrow::Cow;
use std::collections::{HashMap, HashSet};
use std::io::Write;
use std::marker::PhantomData;
use std::sync::{Arc, Mutex};
use std::time::{Duration, SystemTime};
use vharness::util;

type CowStr = Cow<'static, str>;
type SampleGroupElement = (CowStr, CowStr);

// ---------------------------------------------------------------------------------------------
// flags: a three-bit option set; merging = union
// ---------------------------------------------------------------------------------------------
#[derive(Debug)]
struct TestOpt(u8);
static OPTS: [TestOpt; 8] = [TestOpt(0), TestOpt(1), TestOpt(2), TestOpt(3), TestOpt(4), TestOpt(5), TestOpt(6), TestOpt(7)];
impl MetricOptions for TestOpt {
    fn try_merge(&self, other: &dyn MetricOptions) -> Option<MetricFlags<'static>> {
        (other as &dyn Any).downcast_ref::<TestOpt>().map(|o| MetricFlags::upcast(&OPTS[(self.0 | o.0) as usize]))
    }
}
struct FlagA;
struct FlagB;
impl FlagConstructor for FlagA {
    fn construct() -> MetricFlags<'static> {
        MetricFlags::upcast(&OPTS[1])
    }
}
impl FlagConstructor for FlagB {
    fn construct() -> MetricFlags<'static> {
        MetricFlags::upcast(&OPTS[2])
    }
}
/// a constructor that contributes no flags (e.g. a run-time toggle that is off)
struct FlagNone;
impl FlagConstructor for FlagNone {
    fn construct() -> MetricFlags<'static> {
        MetricFlags::empty()
    }
}
fn flag_c() -> MetricFlags<'static> {
    MetricFlags::upcast(&OPTS[4])
}
fn flags_json(f: MetricFlags<'_>) -> J {
    match f.downcast::<TestOpt>() {
        Some(o) => {
            let mut v = vec![];
            for (bit, name) in [(1, "A"), (2, "B"), (4, "C")] {
                if o.0 & bit != 0 {
                    v.push(name);
                }
            }
            json!(v)
        }
        None => json!([]),
    }
}

// ---------------------------------------------------------------------------------------------
// recording ValueWriter: one JSON object per method invoked (a well-behaved value invokes <= 1)
// ---------------------------------------------------------------------------------------------
fn obs_json(o: Observation) -> J {
    match o {
        Observation::Unsigned(u) => json!({"t":"U","v":u}),
        Observation::Floating(f) => {
            if f.is_finite() {
                json!({"t":"F","v":f})
            } else {
                json!({"t":"F","v":format!("{f}")})
            }
        }
        Observation::Repeated { total, occurrences } => {
            if total.is_finite() {
                json!({"t":"R","v":total,"occ":occurrences})
            } else {
                json!({"t":"R","v":format!("{total}"),"occ":occurrences})
            }
        }
        _ => json!({"t":"?"}),
    }
}

struct RecV<'r>(&'r mut Vec<J>);
impl ValueWriter for RecV<'_> {
    fn string(self, value: &str) {
        self.0.push(json!({"kind":"string","s":value}));
    }
    fn metric<'a>(
        self,
        distribution: impl IntoIterator<Item = Observation>,
        unit: Unit,
        dimensions: impl IntoIterator<Item = (&'a str, &'a str)>,
        flags: MetricFlags<'_>,
    ) {
        let obs: Vec<J> = distribution.into_iter().map(obs_json).collect();
        let dims: Vec<J> = dimensions.into_iter().map(|(k, v)| json!([k, v])).collect();
        self.0.push(json!({"kind":"metric","obs":obs,"unit":unit.name(),"dims":dims,"flags":flags_json(flags)}));
    }
    fn error(self, error: ValidationError) {
        self.0.push(json!({"kind":"error","msg":error.to_string()}));
    }
}
fn record_value(v: &(impl Value + ?Sized)) -> J {
    let mut calls = vec![];
    v.write(RecV(&mut calls));
    J::Array(calls)
}

// ---------------------------------------------------------------------------------------------
// object-safe mirror of Value / ValueWriter (type erasure between the layers of a stack)
// ---------------------------------------------------------------------------------------------
trait DynValue {
    fn write_dyn(&self, w: &mut dyn DynVW);
}
trait DynVW {
    fn string(&mut self, s: &str);
    /// `lower` = the lower size-hint bounds the real iterators (observations, dimensions) reported
    fn metric(&mut self, obs: &[Observation], unit: Unit, dims: &[(&str, &str)], flags: MetricFlags<'_>, lower: (usize, usize));
    fn error(&mut self, e: ValidationError);
}
/// presents a collected slice with the (possibly inexact) lower size-hint bound of the iterator it was
/// collected from, so that the next REAL wrapper sees the hint the real value / wrapper produced -
/// collecting alone would turn every hint into an exact one
struct Hinted<I> {
    inner: I,
    slack: usize,
}
impl<I: ExactSizeIterator> Iterator for Hinted<I> {
    type Item = I::Item;
    fn next(&mut self) -> Option<I::Item> {
        self.inner.next()
    }
    fn size_hint(&self) -> (usize, Option<usize>) {
        let n = self.inner.len();
        (n.saturating_sub(self.slack), Some(n))
    }
}
fn hinted<I: ExactSizeIterator>(inner: I, lower: usize) -> Hinted<I> {
    let slack = inner.len().saturating_sub(lower);
    Hinted { inner, slack }
}
struct FromDynVW<'w>(&'w mut dyn DynVW);
impl ValueWriter for FromDynVW<'_> {
    fn string(self, value: &str) {
        self.0.string(value)
    }
    fn metric<'a>(
        self,
        distribution: impl IntoIterator<Item = Observation>,
        unit: Unit,
        dimensions: impl IntoIterator<Item = (&'a str, &'a str)>,
        flags: MetricFlags<'_>,
    ) {
        // plain loops: `collect` would instantiate Vec's from_iter machinery once per iterator type
        let distribution = distribution.into_iter();
        let dimensions = dimensions.into_iter();
        let lower = (distribution.size_hint().0, dimensions.size_hint().0);
        let mut obs: Vec<Observation> = Vec::new();
        for o in distribution {
            obs.push(o);
        }
        let mut dims: Vec<(&str, &str)> = Vec::new();
        for d in dimensions {
            dims.push(d);
        }
        self.0.metric(&obs, unit, &dims, flags, lower)
    }
    fn error(self, error: ValidationError) {
        self.0.error(error)
    }
}
struct ToDynVW<W>(Option<W>);
impl<W: ValueWriter> DynVW for ToDynVW<W> {
    fn string(&mut self, s: &str) {
        self.0.take().expect("second ValueWriter call").string(s)
    }
    fn metric(&mut self, obs: &[Observation], unit: Unit, dims: &[(&str, &str)], flags: MetricFlags<'_>, lower: (usize, usize)) {
        self.0.take().expect("second ValueWriter call").metric(
            hinted(obs.iter().copied(), lower.0),
            unit,
            hinted(dims.iter().copied(), lower.1),
            flags,
        )
    }
    fn error(&mut self, e: ValidationError) {
        self.0.take().expect("second ValueWriter call").error(e)
    }
}
/// borrowed value -> dyn (used by the entry bridge)
struct ValToDyn<'a, V: ?Sized>(&'a V);
impl<V: Value + ?Sized> DynValue for ValToDyn<'_, V> {
    fn write_dyn(&self, w: &mut dyn DynVW) {
        self.0.write(FromDynVW(w))
    }
}
struct ValFromDyn<'a>(&'a dyn DynValue);
impl Value for ValFromDyn<'_> {
    fn write(&self, writer: impl ValueWriter) {
        self.0.write_dyn(&mut ToDynVW(Some(writer)))
    }
}
/// owned layer: any real value type behind the erased interface
struct LayerV<V>(V);
impl<V: Value> DynValue for LayerV<V> {
    fn write_dyn(&self, w: &mut dyn DynVW) {
        self.0.write(FromDynVW(w))
    }
}
type DynV = Arc<dyn DynValue + Send + Sync>;
/// an erased value that promises unit `U` (MetricValue::Unit)
struct Erased<U = unit::None>(DynV, PhantomData<fn() -> U>);
impl<U> Clone for Erased<U> {
    fn clone(&self) -> Self {
        Erased(self.0.clone(), PhantomData)
    }
}
impl<U> Erased<U> {
    fn new(v: DynV) -> Self {
        Erased(v, PhantomData)
    }
}
impl<U> Value for Erased<U> {
    fn write(&self, writer: impl ValueWriter) {
        self.0.write_dyn(&mut ToDynVW(Some(writer)))
    }
}
impl<U: UnitTag> MetricValue for Erased<U> {
    type Unit = U;
}
fn layer<V: Value + Send + Sync + 'static>(v: V) -> DynV {
    Arc::new(LayerV(v))
}
/// `&T` and `Cow::Borrowed` hold a borrow: built on the fly inside write
struct RefLV(Erased);
impl DynValue for RefLV {
    fn write_dyn(&self, w: &mut dyn DynVW) {
        let r: &Erased = &self.0;
        <&Erased as Value>::write(&r, FromDynVW(w))
    }
}
/// containers reached through a ValueFormatter lifted over them (value/formatter.rs); the formatter
/// itself writes the contained value unchanged
struct Pass;
impl ValueFormatter<Erased> for Pass {
    fn format_value(writer: impl ValueWriter, value: &Erased) {
        value.write(writer)
    }
}
struct FmtLV(&'static str, Erased);
impl DynValue for FmtLV {
    fn write_dyn(&self, w: &mut dyn DynVW) {
        let e = self.1.clone();
        let w = FromDynVW(w);
        match self.0 {
            "FmtSome" => FormattedValue::<Option<Erased>, Pass>::new(&Some(e)).write(w),
            "FmtNone" => FormattedValue::<Option<Erased>, Pass>::new(&Option::None).write(w),
            "FmtBox" => FormattedValue::<Box<Erased>, Pass>::new(&Box::new(e)).write(w),
            "FmtArc" => FormattedValue::<Arc<Erased>, Pass>::new(&Arc::new(e)).write(w),
            "FmtCow" => FormattedValue::<Cow<'_, Erased>, Pass>::new(&Cow::Borrowed(&self.1)).write(w),
            "FmtRef" => FormattedValue::<&Erased, Pass>::new(&&self.1).write(w),
            other => panic!("unknown formatter wrapper {other}"),
        }
    }
}
struct CowBorrowLV(Erased);
impl DynValue for CowBorrowLV {
    fn write_dyn(&self, w: &mut dyn DynVW) {
        let c: Cow<'_, Erased> = Cow::Borrowed(&self.0);
        <Cow<'_, Erased> as Value>::write(&c, FromDynVW(w))
    }
}

// ---------------------------------------------------------------------------------------------
// magnitudes
// ---------------------------------------------------------------------------------------------
const MAG_U: [u64; 6] = [0, 1, 3, 1_000_000_000_000_000, 1 << 63, 12_345_678_901_234_567];
const MAG_F: [f64; 6] = [0.0, 1.0, 3.0, 1e15, 9223372036854775808.0, 1e-9];
fn mag_dur(i: usize) -> Duration {
    match i % 6 {
        0 => Duration::ZERO,
        1 => Duration::from_secs(1),
        2 => Duration::from_secs(3),
        3 => Duration::from_secs(1_000_000_000_000_000),
        4 => Duration::from_secs(1 << 63),
        _ => Duration::from_nanos(1),
    }
}
fn echo_u(i: usize) -> J {
    json!({"t":"U","v":MAG_U[i % 6]})
}
fn echo_f(i: usize) -> J {
    json!({"t":"F","v":MAG_F[i % 6]})
}
fn echo_d(i: usize) -> J {
    let d = mag_dur(i);
    json!({"t":"D","s":d.as_secs(),"n":d.subsec_nanos()})
}

// ---------------------------------------------------------------------------------------------
// hand-written base values
// ---------------------------------------------------------------------------------------------
struct Rich {
    u: u64,
    f: f64,
    r: f64,
}
impl Value for Rich {
    fn write(&self, writer: impl ValueWriter) {
        writer.metric(
            [Observation::Unsigned(self.u), Observation::Floating(self.f), Observation::Repeated { total: self.r, occurrences: 3 }],
            Unit::Byte(unit::PositiveScale::One),
            [("b0_k", "b0_v")],
            flag_c(),
        )
    }
}
/// two own dimensions; observations and dimensions are handed to the writer through filter_map
/// (size hints with lower bound 0)
struct RichInexact {
    u: u64,
    f: f64,
}
impl Value for RichInexact {
    fn write(&self, writer: impl ValueWriter) {
        let obs = [Some(Observation::Unsigned(self.u)), Option::None, Some(Observation::Floating(self.f))];
        let dims = [("b0_k", "b0_v"), ("-", "-"), ("b1_k", "b1_v")];
        writer.metric(obs.into_iter().flatten().filter(|_| true), Unit::None, dims.into_iter().filter_map(|d| (d.0 != "-").then_some(d)), MetricFlags::empty())
    }
}
struct ErrValue;
impl Value for ErrValue {
    fn write(&self, writer: impl ValueWriter) {
        writer.error(ValidationError::invalid("base-error"))
    }
}
/// promises unit `U`, writes a string
struct StrAs<U>(PhantomData<fn() -> U>);
impl<U> Value for StrAs<U> {
    fn write(&self, writer: impl ValueWriter) {
        writer.string("text")
    }
}
impl<U: UnitTag> MetricValue for StrAs<U> {
    type Unit = U;
}
/// promises unit `U` and writes it, with no observations
struct ZeroAs<U>(PhantomData<fn() -> U>);
impl<U: UnitTag> Value for ZeroAs<U> {
    fn write(&self, writer: impl ValueWriter) {
        writer.metric([], U::UNIT, [], MetricFlags::empty())
    }
}
impl<U: UnitTag> MetricValue for ZeroAs<U> {
    type Unit = U;
}
/// promises unit `U`, writes another unit
struct BadAs<U>(u64, PhantomData<fn() -> U>);
impl<U: UnitTag> Value for BadAs<U> {
    fn write(&self, writer: impl ValueWriter) {
        let other = if U::UNIT == Unit::Byte(unit::PositiveScale::One) { Unit::Bit(unit::PositiveScale::One) } else { Unit::Byte(unit::PositiveScale::One) };
        writer.metric([Observation::Unsigned(self.0)], other, [], MetricFlags::empty())
    }
}
impl<U: UnitTag> MetricValue for BadAs<U> {
    type Unit = U;
}
/// a metric call with NO observations (legal, and still reported to the format): with unit Seconds,
/// an own dimension and a flag (`true`), or bare (`false`)
struct ZeroObs(bool);
impl Value for ZeroObs {
    fn write(&self, writer: impl ValueWriter) {
        if self.0 {
            writer.metric([], Unit::Second(unit::NegativeScale::One), [("z0_k", "z0_v")], flag_c())
        } else {
            writer.metric([], Unit::None, [], MetricFlags::empty())
        }
    }
}
/// metric in Count with an own dimension (field of the globals entry)
struct CountWithDim(u64);
impl Value for CountWithDim {
    fn write(&self, writer: impl ValueWriter) {
        writer.metric([Observation::Unsigned(self.0)], Unit::Count, [("g0_k", "g0_v")], MetricFlags::empty())
    }
}

fn mean_of<U: UnitTag>(total: f64) -> Mean<U> {
    let mut m = Mean::<U>::default();
    m.record(total);
    m.record(0.0f64);
    m
}

/// base value `b` with magnitude index `mi[slot-1]` per slot; returns (value, echoed magnitudes)
fn base_value(b: &str, mi: &[usize]) -> (DynV, Vec<J>) {
    let m = |s: usize| mi.get(s).copied().unwrap_or(s);
    match b {
        "str" => (layer(String::from("text")), vec![]),
        "u64" => (layer(MAG_U[m(0) % 6]), vec![echo_u(m(0))]),
        "f64" => (layer(MAG_F[m(0) % 6]), vec![echo_f(m(0))]),
        "dur" => (layer(mag_dur(m(0))), vec![echo_d(m(0))]),
        "distu" => (
            layer(Distribution::<u64>::from_iter([MAG_U[m(0) % 6], MAG_U[m(1) % 6], MAG_U[m(2) % 6]])),
            vec![echo_u(m(0)), echo_u(m(1)), echo_u(m(2))],
        ),
        "distdur" => (
            layer(Distribution::<Duration>::from_iter([mag_dur(m(0)), mag_dur(m(1))])),
            vec![echo_d(m(0)), echo_d(m(1))],
        ),
        "mean" => (layer(mean_of::<unit::None>(MAG_F[m(0) % 6])), vec![echo_f(m(0))]),
        "rich" => (
            layer(Rich { u: MAG_U[m(0) % 6], f: MAG_F[m(1) % 6], r: MAG_F[m(2) % 6] }),
            vec![echo_u(m(0)), echo_f(m(1)), echo_f(m(2))],
        ),
        "err" => (layer(ErrValue), vec![]),
        "empty" => (layer(Distribution::<u64>::default()), vec![]),
        "bad" => (layer(BadAs::<unit::Second>(MAG_U[m(0) % 6], PhantomData)), vec![echo_u(m(0))]),
        "zero" => (layer(ZeroObs(true)), vec![]),
        "zeron" => (layer(ZeroObs(false)), vec![]),
        "richi" => (layer(RichInexact { u: MAG_U[m(0) % 6], f: MAG_F[m(1) % 6] }), vec![echo_u(m(0)), echo_f(m(1))]),
        _ => panic!("unknown base value {b}"),
    }
}

// ---------------------------------------------------------------------------------------------
// the unit table: every tag type by name, all convertible pairs
// ---------------------------------------------------------------------------------------------
macro_rules! time_units {
    ($m:ident ! ($($pre:tt)*)) => { $m!($($pre)* Second Millisecond Microsecond) };
}
macro_rules! bit_units {
    ($m:ident ! ($($pre:tt)*)) => {
        $m!($($pre)* Byte Kilobyte Megabyte Gigabyte Terabyte Bit Kilobit Megabit Gigabit Terabit
            BytePerSecond KilobytePerSecond MegabytePerSecond GigabytePerSecond TerabytePerSecond
            BitPerSecond KilobitPerSecond MegabitPerSecond GigabitPerSecond TerabitPerSecond)
    };
}
macro_rules! all_units {
    ($m:ident ! ($($pre:tt)*)) => {
        $m!($($pre)* None Count Percent Second Millisecond Microsecond
            Byte Kilobyte Megabyte Gigabyte Terabyte Bit Kilobit Megabit Gigabit Terabit
            BytePerSecond KilobytePerSecond MegabytePerSecond GigabytePerSecond TerabytePerSecond
            BitPerSecond KilobitPerSecond MegabitPerSecond GigabitPerSecond TerabitPerSecond)
    };
}
/// row!(f, from, to, args; A; B C D ...)  =>  if from==A && to==B { return Some(f::<A,B>(args)) } ...
macro_rules! row {
    ($f:ident, $from:expr, $to:expr, $args:expr; $a:ident; $($b:ident)*) => {
        if $from == stringify!($a) {
            $( if $to == stringify!($b) { return Some($f::<unit::$a, unit::$b>($args)); } )*
        }
    };
}
/// one row per `from` of the family, each against all `to` of the same family
macro_rules! time_rows {
    ($f:ident, $from:expr, $to:expr, $args:expr; $($a:ident)*) => {
        $( time_units!(row!($f, $from, $to, $args; $a;)); )*
    };
}
macro_rules! bit_rows {
    ($f:ident, $from:expr, $to:expr, $args:expr; $($a:ident)*) => {
        $( bit_units!(row!($f, $from, $to, $args; $a;)); )*
    };
}

/// dispatch `f::<From, To>(args)` over all 435 convertible pairs
macro_rules! dispatch_pairs {
    ($name:ident, $f:ident, $arg:ty, $ret:ty) => {
        fn $name(from: &str, to: &str, args: $arg) -> Option<$ret> {
            all_units!(row!($f, from, to, args; None;));
            time_units!(time_rows!($f, from, to, args;));
            bit_units!(bit_rows!($f, from, to, args;));
            Option::None
        }
    };
}
/// dispatch over the pairs inside a family (the inverse conversion exists)
macro_rules! dispatch_family_pairs {
    ($name:ident, $f:ident, $arg:ty, $ret:ty) => {
        fn $name(from: &str, to: &str, args: $arg) -> Option<$ret> {
            time_units!(time_rows!($f, from, to, args;));
            bit_units!(bit_rows!($f, from, to, args;));
            Option::None
        }
    };
}
/// a subset: None -> every unit, all time pairs, the given bit/byte rows against every bit/byte(/second) unit
macro_rules! dispatch_subset_pairs {
    ($name:ident, $f:ident, $arg:ty, $ret:ty; $($rows:ident)*) => {
        fn $name(from: &str, to: &str, args: $arg) -> Option<$ret> {
            all_units!(row!($f, from, to, args; None;));
            time_units!(time_rows!($f, from, to, args;));
            bit_rows!($f, from, to, args; $($rows)*);
            Option::None
        }
    };
}
// dynamic unit layer: WithUnit<Erased<From>, To> around an erased value
#[inline(never)]
fn wrap_unit<F: UnitTag + Convert<T> + 'static, T: UnitTag + Send + Sync + 'static>(inner: DynV) -> DynV {
    layer(WithUnit::<Erased<F>, T>::from(Erased::<F>::new(inner)))
}
// (the stacks printed by TLC only use unit layers out of the subset; the full table is exercised statically)
dispatch_subset_pairs!(wrap_unit_by_name, wrap_unit, DynV, DynV; Byte Kilobit);

// ---------------------------------------------------------------------------------------------
// value stacks
// ---------------------------------------------------------------------------------------------
fn dim_pair(id: &str) -> (String, String) {
    (format!("{id}_k"), format!("{id}_v"))
}
fn strs(v: &J) -> Vec<String> {
    v.as_array().map(|a| a.iter().map(|x| x.as_str().unwrap().to_string()).collect()).unwrap_or_default()
}

fn apply_value_wrapper(w: &J, pos: usize, inner: DynV) -> DynV {
    let e = Erased::<unit::None>::new(inner.clone());
    match w["w"].as_str().unwrap() {
        "Dim" => {
            let ds: Vec<(String, String)> = strs(&w["ds"]).iter().map(|d| dim_pair(d)).collect();
            match ds.len() {
                0 => layer(WithDimensions::<_, 0>::new_with_dimensions(e, ds)),
                1 => layer(WithDimension::new(e, ds[0].0.clone(), ds[0].1.clone())),
                _ => layer(WithDimensions::<_, 2>::new_with_dimensions(e, ds)),
            }
        }
        "Flag" => match w["f"].as_str().unwrap() {
            "A" => layer(ForceFlag::<_, FlagA>::from(e)),
            "B" => layer(ForceFlag::<_, FlagB>::from(e)),
            "0" => layer(ForceFlag::<_, FlagNone>::from(e)),
            f => panic!("unknown flag {f}"),
        },
        "Some" => layer(Some(e)),
        "None" => {
            drop(e);
            layer(Option::<Erased>::None)
        }
        "Box" => layer(Box::new(e)),
        "Arc" => layer(Arc::new(e)),
        "Cow" => {
            if pos % 2 == 0 {
                let c: Cow<'static, Erased> = Cow::Owned(e);
                layer(c)
            } else {
                Arc::new(CowBorrowLV(e))
            }
        }
        "Ref" => Arc::new(RefLV(e)),
        "FmtSome" => Arc::new(FmtLV("FmtSome", e)),
        "FmtNone" => Arc::new(FmtLV("FmtNone", e)),
        "FmtBox" => Arc::new(FmtLV("FmtBox", e)),
        "FmtArc" => Arc::new(FmtLV("FmtArc", e)),
        "FmtCow" => Arc::new(FmtLV("FmtCow", e)),
        "FmtRef" => Arc::new(FmtLV("FmtRef", e)),
        "Unit" => {
            let (f, t) = (w["from"].as_str().unwrap(), w["to"].as_str().unwrap());
            wrap_unit_by_name(f, t, inner).unwrap_or_else(|| panic!("no conversion {f} -> {t}"))
        }
        other => panic!("unknown value wrapper {other}"),
    }
}

fn cmd_values(a: &HashMap<String, String>) {
    let behaviours = util::read_ndjson(util::arg_str(a, "behaviours", ""));
    let mut out = std::io::BufWriter::new(std::fs::File::create(util::arg_str(a, "out", "")).unwrap());
    for b in behaviours {
        let base = b["base"].as_str().unwrap();
        let mut runs = vec![];
        for run in b["runs"].as_array().unwrap() {
            let mi: Vec<usize> = run.as_array().unwrap().iter().map(|x| x.as_u64().unwrap() as usize).collect();
            let r = util::catch(|| {
                let (mut v, mags) = base_value(base, &mi);
                for (pos, w) in b["stack"].as_array().unwrap().iter().enumerate() {
                    v = apply_value_wrapper(w, pos, v);
                }
                let calls = record_value(&Erased::<unit::None>::new(v));
                json!({"mags": mags, "calls": calls})
            });
            runs.push(match r {
                Ok(j) => j,
                Err(p) => json!({"panic": p}),
            });
        }
        serde_json::to_writer(&mut out, &json!({"id": b["id"], "runs": runs})).unwrap();
        out.write_all(b"\n").unwrap();
    }
    out.flush().unwrap();
}

// ---------------------------------------------------------------------------------------------
// entries: object-safe mirror of Entry / EntryWriter
// ---------------------------------------------------------------------------------------------
#[derive(Debug)]
struct Cfg(&'static str);
impl EntryConfig for Cfg {}
static CFGS: [Cfg; 3] = [Cfg("c1"), Cfg("c2"), Cfg("cg")];
fn cfg_id(c: &dyn EntryConfig) -> Option<&'static str> {
    (c as &dyn Any).downcast_ref::<Cfg>().map(|c| c.0)
}
fn cfg_static(c: &dyn EntryConfig) -> &'static dyn EntryConfig {
    let id = cfg_id(c).expect("foreign EntryConfig");
    CFGS.iter().find(|c| c.0 == id).expect("unknown config")
}

/// a sample group taken out of a real `sample_group()` iterator together with the lower size-hint bound
/// that iterator reported, so that the erased entry can present the same (possibly inexact) hint to the
/// next real wrapper - collecting alone would turn every hint into an exact one
#[derive(Default)]
struct SgVec {
    items: Vec<SampleGroupElement>,
    lower: usize,
}
fn snapshot(it: impl Iterator<Item = SampleGroupElement>) -> SgVec {
    let lower = it.size_hint().0;
    let items: Vec<SampleGroupElement> = it.collect();
    let lower = lower.min(items.len());
    SgVec { items, lower }
}
struct HintedIter {
    inner: std::vec::IntoIter<SampleGroupElement>,
    slack: usize,
}
impl Iterator for HintedIter {
    type Item = SampleGroupElement;
    fn next(&mut self) -> Option<SampleGroupElement> {
        self.inner.next()
    }
    fn size_hint(&self) -> (usize, Option<usize>) {
        let n = self.inner.len();
        (n.saturating_sub(self.slack), Some(n))
    }
}
impl SgVec {
    fn into_hinted_iter(self) -> HintedIter {
        let slack = self.items.len() - self.lower;
        HintedIter { inner: self.items.into_iter(), slack }
    }
}
trait DynEntry {
    fn write_dyn(&self, w: &mut dyn DynEW);
    fn sg_dyn(&self) -> SgVec;
}
trait DynEW {
    fn timestamp(&mut self, t: SystemTime);
    fn value(&mut self, name: &str, v: &dyn DynValue);
    fn config(&mut self, c: &dyn EntryConfig);
}
struct FromDynEW<'w>(&'w mut dyn DynEW);
impl<'a> EntryWriter<'a> for FromDynEW<'_> {
    fn timestamp(&mut self, timestamp: SystemTime) {
        self.0.timestamp(timestamp)
    }
    fn value(&mut self, name: impl Into<Cow<'a, str>>, value: &(impl Value + ?Sized)) {
        let n: Cow<'a, str> = name.into();
        self.0.value(&n, &ValToDyn(value))
    }
    fn config(&mut self, config: &'a dyn EntryConfig) {
        self.0.config(config)
    }
}
struct ToDynEW<'a, W: EntryWriter<'a>>(W, PhantomData<&'a ()>);
impl<'a, W: EntryWriter<'a>> DynEW for ToDynEW<'a, W> {
    fn timestamp(&mut self, t: SystemTime) {
        self.0.timestamp(t)
    }
    fn value(&mut self, name: &str, v: &dyn DynValue) {
        self.0.value(Cow::Owned(name.to_string()), &ValFromDyn(v))
    }
    fn config(&mut self, c: &dyn EntryConfig) {
        self.0.config(cfg_static(c))
    }
}
type DynE = Arc<dyn DynEntry + Send + Sync>;
#[derive(Clone)]
struct ErasedE(DynE);
impl Entry for ErasedE {
    fn write<'a>(&'a self, writer: &mut impl EntryWriter<'a>) {
        self.0.write_dyn(&mut ToDynEW(writer, PhantomData))
    }
    fn sample_group(&self) -> impl Iterator<Item = SampleGroupElement> {
        self.0.sg_dyn().into_hinted_iter()
    }
}
struct LayerE<E>(E);
impl<E: Entry> DynEntry for LayerE<E> {
    fn write_dyn(&self, w: &mut dyn DynEW) {
        self.0.write(&mut FromDynEW(w))
    }
    fn sg_dyn(&self) -> SgVec {
        snapshot(self.0.sample_group())
    }
}
fn layer_e<E: Entry + Send + Sync + 'static>(e: E) -> ErasedE {
    ErasedE(Arc::new(LayerE(e)))
}
/// BoxEntry is Send but not Sync
struct BoxedL(Mutex<BoxEntry>);
impl DynEntry for BoxedL {
    fn write_dyn(&self, w: &mut dyn DynEW) {
        let g = self.0.lock().unwrap();
        g.write(&mut FromDynEW(w))
    }
    fn sg_dyn(&self) -> SgVec {
        snapshot(self.0.lock().unwrap().sample_group())
    }
}
struct RefLE(ErasedE);
impl DynEntry for RefLE {
    fn write_dyn(&self, w: &mut dyn DynEW) {
        let r: &ErasedE = &self.0;
        <&ErasedE as Entry>::write(&r, &mut FromDynEW(w))
    }
    fn sg_dyn(&self) -> SgVec {
        let r: &ErasedE = &self.0;
        snapshot(<&ErasedE as Entry>::sample_group(&r))
    }
}
struct CowBorrowLE(ErasedE);
impl DynEntry for CowBorrowLE {
    fn write_dyn(&self, w: &mut dyn DynEW) {
        let c: Cow<'_, ErasedE> = Cow::Borrowed(&self.0);
        c.write(&mut FromDynEW(w))
    }
    fn sg_dyn(&self) -> SgVec {
        let c: Cow<'_, ErasedE> = Cow::Borrowed(&self.0);
        snapshot(c.sample_group())
    }
}
struct MergeRefL(ErasedE, ErasedE);
impl DynEntry for MergeRefL {
    fn write_dyn(&self, w: &mut dyn DynEW) {
        self.0.merge_by_ref(&self.1).write(&mut FromDynEW(w))
    }
    fn sg_dyn(&self) -> SgVec {
        snapshot(self.0.merge_by_ref(&self.1).sample_group())
    }
}

/// the innermost stream of a stream-wrapper layer: hands the entry it is given on
struct Capture<'c, 'w> {
    w: Option<&'c mut (dyn DynEW + 'w)>,
    sg: &'c mut Option<SgVec>,
    entries: &'c mut usize,
}
impl EntryIoStream for Capture<'_, '_> {
    fn next(&mut self, entry: &impl Entry) -> Result<(), IoStreamError> {
        *self.entries += 1;
        if let Some(w) = self.w.as_mut() {
            entry.write(&mut FromDynEW(&mut **w));
        }
        *self.sg = Some(snapshot(entry.sample_group()));
        Ok(())
    }
    fn flush(&mut self) -> std::io::Result<()> {
        Ok(())
    }
}
/// the same as a Format (format.rs implements Format for MergeGlobals / MergeGlobalDimensions)
struct CaptureFmt<'c, 'w>(Capture<'c, 'w>);
impl Format for CaptureFmt<'_, '_> {
    fn format(&mut self, entry: &impl Entry, _output: &mut impl std::io::Write) -> Result<(), IoStreamError> {
        self.0.next(entry)
    }
}
/// entry -> entry transformation realised by a stream wrapper in front of a capturing stream
struct StreamL {
    inner: ErasedE,
    kind: StreamKind,
}
enum StreamKind {
    MergeGlobals(ErasedE),
    GlobalDims(Vec<(String, String)>, HashSet<CowStr>),
    FlagA,
    FlagNone,
    MergeGlobalsFmt(ErasedE),
    GlobalDimsFmt(Vec<(String, String)>, HashSet<CowStr>),
}
impl StreamL {
    fn run(&self, w: Option<&mut dyn DynEW>) -> SgVec {
        let mut sg = None;
        let mut n = 0usize;
        let w = match w {
            Some(w) => Some(&mut *w),
            None => None,
        };
        let cap = Capture { w, sg: &mut sg, entries: &mut n };
        match &self.kind {
            StreamKind::MergeGlobals(g) => {
                cap.merge_globals(g.clone()).next(&self.inner).unwrap();
            }
            StreamKind::GlobalDims(ds, deny) => {
                let dims = ds.iter().map(|(k, v)| (CowStr::from(k.clone()), CowStr::from(v.clone())));
                match ds.len() {
                    0 => cap.merge_global_dimensions::<0>(dims.collect(), Some(deny.clone())).next(&self.inner).unwrap(),
                    1 => cap.merge_global_dimensions::<1>(dims.collect(), Some(deny.clone())).next(&self.inner).unwrap(),
                    _ => cap.merge_global_dimensions::<2>(dims.collect(), Some(deny.clone())).next(&self.inner).unwrap(),
                }
            }
            StreamKind::FlagA => {
                ForceFlag::<_, FlagA>::from(cap).next(&self.inner).unwrap();
            }
            StreamKind::FlagNone => {
                ForceFlag::<_, FlagNone>::from(cap).next(&self.inner).unwrap();
            }
            StreamKind::MergeGlobalsFmt(g) => {
                CaptureFmt(cap).merge_globals(g.clone()).format(&self.inner, &mut std::io::sink()).unwrap();
            }
            StreamKind::GlobalDimsFmt(ds, deny) => {
                let dims = ds.iter().map(|(k, v)| (CowStr::from(k.clone()), CowStr::from(v.clone())));
                let out = &mut std::io::sink();
                match ds.len() {
                    0 => CaptureFmt(cap).merge_global_dimensions::<0>(dims.collect(), Some(deny.clone())).format(&self.inner, out).unwrap(),
                    1 => CaptureFmt(cap).merge_global_dimensions::<1>(dims.collect(), Some(deny.clone())).format(&self.inner, out).unwrap(),
                    _ => CaptureFmt(cap).merge_global_dimensions::<2>(dims.collect(), Some(deny.clone())).format(&self.inner, out).unwrap(),
                }
            }
        }
        assert_eq!(n, 1, "stream wrapper handed on {n} entries instead of 1");
        sg.unwrap_or_default()
    }
}
impl DynEntry for StreamL {
    fn write_dyn(&self, w: &mut dyn DynEW) {
        self.run(Some(w));
    }
    fn sg_dyn(&self) -> SgVec {
        self.run(None)
    }
}

/// closed #[metrics]-style entry around an erased entry (for RootEntry and the InflectableEntry
/// impls of ForceFlag / WithDimensions / Option / Box / Arc in metrique-core)
struct Infl(ErasedE);
impl<NS: metrique::NameStyle> InflectableEntry<NS> for Infl {
    fn write<'a>(&'a self, w: &mut impl EntryWriter<'a>) {
        Entry::write(&self.0, w)
    }
    fn sample_group(&self) -> impl Iterator<Item = SampleGroupElement> {
        Entry::sample_group(&self.0)
    }
}

const T1: Duration = Duration::from_millis(1_000_500);
const T2: Duration = Duration::from_millis(2_000_250);

/// the entry under test: one field per base value
struct BaseE {
    mi: Vec<usize>,
}
impl BaseE {
    fn m(&self, field: usize, slot: usize) -> usize {
        self.mi.get(field).copied().unwrap_or(0) + slot
    }
}
const FIELDS: [&str; 14] = ["str", "u64", "f64", "dur", "distu", "distdur", "mean", "rich", "err", "empty", "bad", "zero", "zeron", "richi"];
impl Entry for BaseE {
    fn write<'a>(&'a self, w: &mut impl EntryWriter<'a>) {
        w.timestamp(SystemTime::UNIX_EPOCH + T1);
        w.config(&CFGS[0]);
        w.value("str", "text");
        w.value("u64", &MAG_U[self.m(1, 0) % 6]);
        w.value("f64", &MAG_F[self.m(2, 0) % 6]);
        w.value("dur", &mag_dur(self.m(3, 0)));
        w.value("distu", &Distribution::<u64>::from_iter([MAG_U[self.m(4, 0) % 6], MAG_U[self.m(4, 1) % 6], MAG_U[self.m(4, 2) % 6]]));
        w.config(&CFGS[1]);
        w.value("distdur", &Distribution::<Duration>::from_iter([mag_dur(self.m(5, 0)), mag_dur(self.m(5, 1))]));
        w.value("mean", &mean_of::<unit::None>(MAG_F[self.m(6, 0) % 6]));
        w.value("rich", &Rich { u: MAG_U[self.m(7, 0) % 6], f: MAG_F[self.m(7, 1) % 6], r: MAG_F[self.m(7, 2) % 6] });
        w.value("err", &ErrValue);
        w.value("empty", &Distribution::<u64>::default());
        w.value("bad", &BadAs::<unit::Second>(MAG_U[self.m(10, 0) % 6], PhantomData));
        w.value("zero", &ZeroObs(true));
        w.value("zeron", &ZeroObs(false));
        w.value("richi", &RichInexact { u: MAG_U[self.m(13, 0) % 6], f: MAG_F[self.m(13, 1) % 6] });
    }
    fn sample_group(&self) -> impl Iterator<Item = SampleGroupElement> {
        [("op".into(), "op_v".into()), ("status".into(), "status_v".into())].into_iter()
    }
}
impl BaseE {
    /// magnitudes per field in slot order, as plugged in by `write`
    fn echo(&self) -> J {
        json!({
            "u64": [echo_u(self.m(1, 0))], "f64": [echo_f(self.m(2, 0))], "dur": [echo_d(self.m(3, 0))],
            "distu": [echo_u(self.m(4, 0)), echo_u(self.m(4, 1)), echo_u(self.m(4, 2))],
            "distdur": [echo_d(self.m(5, 0)), echo_d(self.m(5, 1))],
            "mean": [echo_f(self.m(6, 0))],
            "rich": [echo_u(self.m(7, 0)), echo_f(self.m(7, 1)), echo_f(self.m(7, 2))],
            "bad": [echo_u(self.m(10, 0))],
            "gm": [echo_u(self.mi.get(11).copied().unwrap_or(1))],
            "richi": [echo_u(self.m(13, 0)), echo_f(self.m(13, 1))],
        })
    }
}
/// the globals
struct GlobalsE(usize);
impl Entry for GlobalsE {
    fn write<'a>(&'a self, w: &mut impl EntryWriter<'a>) {
        w.timestamp(SystemTime::UNIX_EPOCH + T2);
        w.config(&CFGS[2]);
        w.value("gs", "text");
        w.value("gm", &CountWithDim(MAG_U[self.0 % 6]));
    }
    fn sample_group(&self) -> impl Iterator<Item = SampleGroupElement> {
        // three elements out of an iterator whose size hint is inexact (lower bound 0)
        ["region", "-", "az", "-", "cell"].into_iter().filter_map(|k| (k != "-").then(|| (k.into(), format!("{k}_v").into())))
    }
}

/// small entry that differs only in its sample group: `n` elements, produced by an iterator with an
/// exact size hint (`exact`) or by filter_map / flat_map (lower bound 0)
struct SgEntry {
    n: usize,
    exact: bool,
    mag: usize,
}
const SG_KEYS: [&str; 5] = ["k1", "k2", "k3", "k4", "k5"];
impl Entry for SgEntry {
    fn write<'a>(&'a self, w: &mut impl EntryWriter<'a>) {
        w.timestamp(SystemTime::UNIX_EPOCH + T1);
        w.value("u64", &MAG_U[self.mag % 6]);
    }
    fn sample_group(&self) -> impl Iterator<Item = SampleGroupElement> {
        let n = self.n;
        let pair = |k: &str| -> SampleGroupElement { (k.to_string().into(), format!("{k}_v").into()) };
        let it: Box<dyn Iterator<Item = SampleGroupElement>> = if self.exact {
            Box::new(SG_KEYS[..n].iter().map(move |k| pair(k)))
        } else if n % 2 == 1 {
            // "only include the key if ..." style
            Box::new(SG_KEYS.iter().enumerate().filter_map(move |(i, k)| (i < n).then(|| pair(k))))
        } else {
            Box::new((0..n).flat_map(move |i| Some(pair(SG_KEYS[i]))))
        };
        it
    }
}
/// small entry that differs in the timestamp items it writes: "T0" none, "T2e" two equal ones around the
/// value, "T2d" two different ones, "T3" equal, equal, different, value, the first again
struct TsEntry {
    kind: String,
    mag: usize,
}
impl Entry for TsEntry {
    fn write<'a>(&'a self, w: &mut impl EntryWriter<'a>) {
        let (t1, t2) = (SystemTime::UNIX_EPOCH + T1, SystemTime::UNIX_EPOCH + T2);
        let v = MAG_U[self.mag % 6];
        match self.kind.as_str() {
            "T0" => w.value("u64", &v),
            "T2e" => {
                w.timestamp(t1);
                w.value("u64", &v);
                w.timestamp(t1);
            }
            "T2d" => {
                w.timestamp(t1);
                w.value("u64", &v);
                w.timestamp(t2);
            }
            _ => {
                w.timestamp(t1);
                w.timestamp(t1);
                w.timestamp(t2);
                w.value("u64", &v);
                w.timestamp(t1);
            }
        }
    }
}
fn sg_entry(base: &str, mag: usize) -> Option<SgEntry> {
    let b = base.as_bytes();
    if b.len() == 3 && b[0] == b'S' {
        Some(SgEntry { n: (b[1] - b'0') as usize, exact: b[2] == b'x', mag })
    } else {
        Option::None
    }
}

fn apply_entry_wrapper(w: &J, pos: usize, e: ErasedE, g: &ErasedE) -> ErasedE {
    let ds: Vec<(String, String)> = strs(&w["ds"]).iter().map(|d| dim_pair(d)).collect();
    let deny: HashSet<CowStr> = strs(&w["deny"]).into_iter().map(CowStr::from).collect();
    match w["w"].as_str().unwrap() {
        "Boxed" => {
            let b = if pos % 2 == 0 { BoxEntry::new(e) } else { e.boxed() };
            ErasedE(Arc::new(BoxedL(Mutex::new(b))))
        }
        "Root" => layer_e(RootEntry::new(Infl(e))),
        "RootSome" => layer_e(RootEntry::new(Some(Infl(e)))),
        "RootBox" => layer_e(RootEntry::new(Box::new(Infl(e)))),
        "RootArc" => layer_e(RootEntry::new(Arc::new(Infl(e)))),
        "RootDims" => match ds.len() {
            1 => layer_e(RootEntry::new(WithDimension::new(Infl(e), ds[0].0.clone(), ds[0].1.clone()))),
            _ => layer_e(RootEntry::new(WithDimensions::<_, 2>::new_with_dimensions(Infl(e), ds))),
        },
        "RootFlag" => match w["f"].as_str().unwrap() {
            "A" => layer_e(RootEntry::new(ForceFlag::<_, FlagA>::from(Infl(e)))),
            "0" => layer_e(RootEntry::new(ForceFlag::<_, FlagNone>::from(Infl(e)))),
            _ => layer_e(RootEntry::new(ForceFlag::<_, FlagB>::from(Infl(e)))),
        },
        "Some" => layer_e(Some(e)),
        "NoneE" => {
            drop(e);
            layer_e(Option::<ErasedE>::None)
        }
        "Box" => layer_e(Box::new(e)),
        "Arc" => layer_e(Arc::new(e)),
        "Cow" => {
            if pos % 2 == 0 {
                let c: Cow<'static, ErasedE> = Cow::Owned(e);
                layer_e(c)
            } else {
                ErasedE(Arc::new(CowBorrowLE(e)))
            }
        }
        "Ref" => ErasedE(Arc::new(RefLE(e))),
        "MergeG" => layer_e(g.clone().merge(e)),
        "MergeRef" => ErasedE(Arc::new(MergeRefL(g.clone(), e))),
        "MergeAfter" => layer_e(e.merge(g.clone())),
        "MergeStream" => ErasedE(Arc::new(StreamL { inner: e, kind: StreamKind::MergeGlobals(g.clone()) })),
        "GDims" => match ds.len() {
            0 => layer_e(WithGlobalDimensions::<_, 0>::new_with_global_dimensions(e, ds, deny)),
            1 => layer_e(WithGlobalDimensions::<_, 1>::new_with_global_dimensions(e, ds, deny)),
            _ => layer_e(WithGlobalDimensions::<_, 2>::new_with_global_dimensions(e, ds, deny)),
        },
        "GDimsStream" => ErasedE(Arc::new(StreamL { inner: e, kind: StreamKind::GlobalDims(ds, deny) })),
        "GDimsFormat" => ErasedE(Arc::new(StreamL { inner: e, kind: StreamKind::GlobalDimsFmt(ds, deny) })),
        "MergeFormat" => ErasedE(Arc::new(StreamL { inner: e, kind: StreamKind::MergeGlobalsFmt(g.clone()) })),
        "EDims" => match ds.len() {
            1 => layer_e(WithDimension::new(e, ds[0].0.clone(), ds[0].1.clone())),
            _ => layer_e(WithDimensions::<_, 2>::new_with_dimensions(e, ds)),
        },
        "EFlag" => match w["f"].as_str().unwrap() {
            "A" => layer_e(ForceFlag::<_, FlagA>::from(e)),
            "0" => layer_e(ForceFlag::<_, FlagNone>::from(e)),
            _ => layer_e(ForceFlag::<_, FlagB>::from(e)),
        },
        "FlagStream" => {
            let kind = if w["f"].as_str() == Some("0") { StreamKind::FlagNone } else { StreamKind::FlagA };
            ErasedE(Arc::new(StreamL { inner: e, kind }))
        }
        other => panic!("unknown entry wrapper {other}"),
    }
}

/// recording EntryWriter
#[derive(Default)]
struct RecE {
    items: Vec<J>,
}
impl<'a> EntryWriter<'a> for RecE {
    fn timestamp(&mut self, timestamp: SystemTime) {
        let d = timestamp.duration_since(SystemTime::UNIX_EPOCH).unwrap_or_default();
        let id = if d == T1 {
            "T1".to_string()
        } else if d == T2 {
            "T2".to_string()
        } else {
            format!("{d:?}")
        };
        self.items.push(json!({"t":"ts","id":id}));
    }
    fn value(&mut self, name: impl Into<Cow<'a, str>>, value: &(impl Value + ?Sized)) {
        let n: Cow<'a, str> = name.into();
        self.items.push(json!({"t":"val","name":n,"calls":record_value(value)}));
    }
    fn config(&mut self, config: &'a dyn EntryConfig) {
        self.items.push(json!({"t":"cfg","id":cfg_id(config).map(|s| s.to_string()).unwrap_or_else(|| format!("{config:?}"))}));
    }
}
fn observe_entry(e: &impl Entry) -> J {
    let mut rec = RecE::default();
    e.write(&mut rec);
    let sg: Vec<J> = e.sample_group().map(|(k, v)| json!([k, v])).collect();
    json!({"items": rec.items, "sg": sg})
}

// ---------------------------------------------------------------------------------------------
// histories: a sequence of entries through ONE long-lived stream / format wrapper whose inner
// stream / format answers Ok, an I/O error or a validation error as scripted
// ---------------------------------------------------------------------------------------------
struct HistE {
    mi: Vec<usize>,
}
impl HistE {
    fn m(&self, k: usize) -> usize {
        self.mi.get(k).copied().unwrap_or(k)
    }
    fn echo(&self, g: usize) -> J {
        json!({
            "u64": [echo_u(self.m(0))], "f64": [echo_f(self.m(1))],
            "rich": [echo_u(self.m(2)), echo_f(self.m(3)), echo_f(self.m(4))],
            "richi": [echo_u(self.m(5)), echo_f(self.m(6))],
            "gm": [echo_u(g)],
        })
    }
}
impl Entry for HistE {
    fn write<'a>(&'a self, w: &mut impl EntryWriter<'a>) {
        w.timestamp(SystemTime::UNIX_EPOCH + T1);
        w.value("u64", &MAG_U[self.m(0) % 6]);
        w.value("f64", &MAG_F[self.m(1) % 6]);
        w.value("rich", &Rich { u: MAG_U[self.m(2) % 6], f: MAG_F[self.m(3) % 6], r: MAG_F[self.m(4) % 6] });
        w.value("richi", &RichInexact { u: MAG_U[self.m(5) % 6], f: MAG_F[self.m(6) % 6] });
        w.value("str", "text");
    }
    fn sample_group(&self) -> impl Iterator<Item = SampleGroupElement> {
        [("op".into(), "op_v".into())].into_iter()
    }
}
/// scripted inner stream / format: records what it is handed, answers as scripted
#[derive(Default)]
struct Script {
    results: std::collections::VecDeque<String>,
    seen: Vec<J>,
}
type SharedScript = std::rc::Rc<std::cell::RefCell<Script>>;
struct ScriptStream(SharedScript);
impl ScriptStream {
    fn take(&mut self, entry: &impl Entry) -> Result<(), IoStreamError> {
        let o = observe_entry(entry);
        let mut s = self.0.borrow_mut();
        s.seen.push(o);
        match s.results.pop_front().as_deref() {
            Some("io") => Err(IoStreamError::Io(std::io::Error::other("scripted i/o error"))),
            Some("val") => Err(IoStreamError::Validation(ValidationError::invalid("scripted validation error"))),
            _ => Ok(()),
        }
    }
}
impl EntryIoStream for ScriptStream {
    fn next(&mut self, entry: &impl Entry) -> Result<(), IoStreamError> {
        self.take(entry)
    }
    fn flush(&mut self) -> std::io::Result<()> {
        Ok(())
    }
}
struct ScriptFormat(ScriptStream);
impl Format for ScriptFormat {
    fn format(&mut self, entry: &impl Entry, _output: &mut impl std::io::Write) -> Result<(), IoStreamError> {
        self.0.take(entry)
    }
}
fn res_name(r: &Result<(), IoStreamError>) -> &'static str {
    match r {
        Ok(()) => "ok",
        Err(IoStreamError::Io(_)) => "io",
        Err(IoStreamError::Validation(_)) => "val",
    }
}
/// send the entries of one history through the long-lived wrapper; one observation per step
fn drive(script: &SharedScript, entries: &[(HistE, usize)], mut send: impl FnMut(&HistE) -> Result<(), IoStreamError>) -> Vec<J> {
    let mut out = vec![];
    for (e, g) in entries {
        let before = script.borrow().seen.len();
        let r = send(e);
        let mut s = script.borrow_mut();
        let mut o = if s.seen.len() == before + 1 {
            s.seen.pop().unwrap()
        } else {
            json!({"inner_calls": s.seen.len() - before})
        };
        s.seen.clear();
        o["res"] = json!(res_name(&r));
        o["mags"] = e.echo(*g);
        out.push(o);
    }
    out
}
fn run_history(w: &J, results: &[String], entries: &[(HistE, usize)], g: &ErasedE) -> Vec<J> {
    let script: SharedScript = Default::default();
    script.borrow_mut().results = results.iter().cloned().collect();
    let inner = ScriptStream(script.clone());
    let ds: Vec<(String, String)> = strs(&w["ds"]).iter().map(|d| dim_pair(d)).collect();
    let deny: HashSet<CowStr> = strs(&w["deny"]).into_iter().map(CowStr::from).collect();
    let dims = ds.iter().map(|(k, v)| (CowStr::from(k.clone()), CowStr::from(v.clone())));
    let sink = &mut std::io::sink();
    match (w["w"].as_str().unwrap(), ds.len()) {
        ("GDimsStream", 1) => {
            let mut s = inner.merge_global_dimensions::<1>(dims.collect(), Some(deny));
            drive(&script, entries, |e| s.next(e))
        }
        ("GDimsStream", _) => {
            let mut s = inner.merge_global_dimensions::<2>(dims.collect(), Some(deny));
            drive(&script, entries, |e| s.next(e))
        }
        ("GDimsFormat", 1) => {
            let mut s = ScriptFormat(inner).merge_global_dimensions::<1>(dims.collect(), Some(deny));
            drive(&script, entries, |e| s.format(e, sink))
        }
        ("GDimsFormat", _) => {
            let mut s = ScriptFormat(inner).merge_global_dimensions::<2>(dims.collect(), Some(deny));
            drive(&script, entries, |e| s.format(e, sink))
        }
        ("MergeStream", _) => {
            let mut s = inner.merge_globals(g.clone());
            drive(&script, entries, |e| s.next(e))
        }
        ("MergeFormat", _) => {
            let mut s = ScriptFormat(inner).merge_globals(g.clone());
            drive(&script, entries, |e| s.format(e, sink))
        }
        ("FlagStream", _) if w["f"].as_str() == Some("0") => {
            let mut s = ForceFlag::<_, FlagNone>::from(inner);
            drive(&script, entries, |e| s.next(e))
        }
        ("FlagStream", _) => {
            let mut s = ForceFlag::<_, FlagA>::from(inner);
            drive(&script, entries, |e| s.next(e))
        }
        (other, _) => panic!("unknown stream wrapper {other}"),
    }
}
fn cmd_hist(a: &HashMap<String, String>) {
    let behaviours = util::read_ndjson(util::arg_str(a, "behaviours", ""));
    let mut out = std::io::BufWriter::new(std::fs::File::create(util::arg_str(a, "out", "")).unwrap());
    for b in behaviours {
        let results: Vec<String> = b["steps"].as_array().unwrap().iter().map(|s| s["res"].as_str().unwrap().to_string()).collect();
        let mut runs = vec![];
        for run in b["runs"].as_array().unwrap() {
            let mi: Vec<usize> = run.as_array().unwrap().iter().map(|x| x.as_u64().unwrap() as usize).collect();
            let r = util::catch(|| {
                let gm = mi.get(11).copied().unwrap_or(1);
                let g = layer_e(GlobalsE(gm));
                // a different assignment of magnitudes for every step of the history
                let entries: Vec<(HistE, usize)> =
                    (0..results.len()).map(|k| (HistE { mi: mi.iter().map(|m| m + k).collect() }, gm % 6)).collect();
                json!({"steps": run_history(&b["wrapper"], &results, &entries, &g)})
            });
            runs.push(match r {
                Ok(j) => j,
                Err(p) => json!({"panic": p}),
            });
        }
        serde_json::to_writer(&mut out, &json!({"id": b["id"], "runs": runs})).unwrap();
        out.write_all(b"\n").unwrap();
    }
    out.flush().unwrap();
}

/// MetricFlags::try_merge itself on pairs of flag sets (empty set = MetricFlags::empty())
fn cmd_flagmerge(a: &HashMap<String, String>) {
    let behaviours = util::read_ndjson(util::arg_str(a, "behaviours", ""));
    let mut out = std::io::BufWriter::new(std::fs::File::create(util::arg_str(a, "out", "")).unwrap());
    let bits = |v: &J| -> usize { strs(v).iter().map(|f| match f.as_str() { "A" => 1, "B" => 2, _ => 4 }).sum() };
    let flags = |b: usize| if b == 0 { MetricFlags::empty() } else { MetricFlags::upcast(&OPTS[b]) };
    for b in behaviours {
        let (x, y) = (bits(&b["x"]), bits(&b["y"]));
        let r = util::catch(|| flags_json(flags(x).try_merge(flags(y))));
        let j = match r {
            Ok(f) => json!({"id": b["id"], "r": f}),
            Err(p) => json!({"id": b["id"], "panic": p}),
        };
        serde_json::to_writer(&mut out, &j).unwrap();
        out.write_all(b"\n").unwrap();
    }
    out.flush().unwrap();
}

fn cmd_entries(a: &HashMap<String, String>) {
    let behaviours = util::read_ndjson(util::arg_str(a, "behaviours", ""));
    let mut out = std::io::BufWriter::new(std::fs::File::create(util::arg_str(a, "out", "")).unwrap());
    for b in behaviours {
        let mut runs = vec![];
        for run in b["runs"].as_array().unwrap() {
            let mi: Vec<usize> = run.as_array().unwrap().iter().map(|x| x.as_u64().unwrap() as usize).collect();
            let r = util::catch(|| {
                let be = BaseE { mi: mi.clone() };
                let echo = be.echo();
                let g = layer_e(GlobalsE(mi.get(11).copied().unwrap_or(1)));
                let base = b["base"].as_str().unwrap();
                let mut e = match base {
                    "E" => layer_e(be),
                    "G" => g.clone(),
                    b if b.starts_with('T') => layer_e(TsEntry { kind: b.to_string(), mag: mi.get(1).copied().unwrap_or(0) }),
                    _ => match sg_entry(base, mi.get(1).copied().unwrap_or(0)) {
                        Some(se) => layer_e(se),
                        Option::None => layer_e(metrique_writer::core::entry::EmptyEntry),
                    },
                };
                for (pos, w) in b["stack"].as_array().unwrap().iter().enumerate() {
                    e = apply_entry_wrapper(w, pos, e, &g);
                }
                let mut o = observe_entry(&e);
                o["mags"] = echo;
                o
            });
            runs.push(match r {
                Ok(j) => j,
                Err(p) => json!({"panic": p}),
            });
        }
        serde_json::to_writer(&mut out, &json!({"id": b["id"], "runs": runs})).unwrap();
        out.write_all(b"\n").unwrap();
    }
    out.flush().unwrap();
}

// ---------------------------------------------------------------------------------------------
// unit pairs, statically typed
// ---------------------------------------------------------------------------------------------
/// record one statically typed shape; `spec` names the magnitudes plugged in ("u1f2" = MAG_U[i+1], MAG_F[i+2]).
/// Everything that does not depend on the value's type happens in the non-generic `shape_dyn`.
#[inline(always)]
fn shape<V: Value>(out: &mut Vec<J>, name: &'static str, spec: &'static str, i: usize, v: &V) {
    shape_dyn(out, name, spec, i, &ValToDyn(v))
}
#[inline(never)]
fn shape_dyn(out: &mut Vec<J>, name: &'static str, spec: &'static str, i: usize, v: &dyn DynValue) {
    let b = spec.as_bytes();
    let mut mags = vec![];
    for k in (0..b.len()).step_by(2) {
        let off = (b[k + 1] - b'0') as usize;
        mags.push(match b[k] {
            b'u' => echo_u(i + off),
            b'f' => echo_f(i + off),
            _ => echo_d(i + off),
        });
    }
    let r = util::catch(|| record_value(&ValFromDyn(v)));
    out.push(match r {
        Ok(c) => json!({"shape": name, "mags": mags, "calls": c}),
        Err(p) => json!({"shape": name, "mags": mags, "panic": p}),
    });
}

/// the outcome of Mean::try_new / try_extend / record_value as a value: the mean, or the validation error
struct MeanOrErr<U>(Result<Mean<U>, ValidationError>);
impl<U: UnitTag> Value for MeanOrErr<U> {
    fn write(&self, writer: impl ValueWriter) {
        match &self.0 {
            Ok(m) => m.write(writer),
            Err(e) => writer.error(e.clone()),
        }
    }
}
/// promises unit `U` and writes it: one observation of each kind in a single call
struct Tri<U>(u64, f64, f64, PhantomData<fn() -> U>);
impl<U: UnitTag> Value for Tri<U> {
    fn write(&self, writer: impl ValueWriter) {
        writer.metric(
            [Observation::Unsigned(self.0), Observation::Floating(self.1), Observation::Repeated { total: self.2, occurrences: 3 }],
            U::UNIT,
            [],
            MetricFlags::empty(),
        )
    }
}
impl<U: UnitTag> MetricValue for Tri<U> {
    type Unit = U;
}

/// every convertible pair: declare `F` on a unitless number, then convert to `T`
#[inline(never)]
fn run_pair<F: UnitTag + Convert<T>, T: UnitTag>(mags: &[usize]) -> Vec<J> {
    let mut out = vec![];
    for &i in mags {
        let a: WithUnit<Tri<F>, T> = Tri::<F>(MAG_U[(i + 1) % 6], MAG_F[(i + 2) % 6], MAG_F[(i + 3) % 6], PhantomData).into();
        shape(&mut out, "tri", "u1f2f3", i, &a);
    }
    out
}
dispatch_pairs!(run_pair_by_name, run_pair, &[usize], Vec<J>);

/// a subset of the pairs (see `dispatch_subset_pairs`): the remaining shapes
#[inline(never)]
fn run_full<F: UnitTag + Convert<T>, T: UnitTag>(mags: &[usize]) -> Vec<J> {
    let mut out = vec![];
    for &i in mags {
        let u = MAG_U[i % 6];
        let f = MAG_F[i % 6];
        let a: WithUnit<WithUnit<u64, F>, T> = WithUnit::<u64, F>::from(u).into();
        shape(&mut out, "u64", "u0", i, &a);
        shape(&mut out, "u64_method", "u0", i, &u.with_unit::<F>().with_unit::<T>());
        let a: WithUnit<WithUnit<f64, F>, T> = WithUnit::<f64, F>::from(f).into();
        shape(&mut out, "f64", "f0", i, &a);
        let a: WithUnit<Option<WithUnit<f64, F>>, T> = Some(WithUnit::<f64, F>::from(f)).into();
        shape(&mut out, "opt_some", "f0", i, &a);
        let a: WithUnit<Option<WithUnit<f64, F>>, T> = Option::<WithUnit<f64, F>>::None.into();
        shape(&mut out, "opt_none", "", i, &a);
        let a: Distribution<WithUnit<WithUnit<u64, F>, T>> =
            [u, MAG_U[(i + 1) % 6]].into_iter().map(|x| WithUnit::<u64, F>::from(x).into()).collect();
        shape(&mut out, "dist_inner", "u0u1", i, &a);
        let d: Distribution<WithUnit<f64, F>> = [f, MAG_F[(i + 1) % 6]].into_iter().map(WithUnit::<f64, F>::from).collect();
        let a: WithUnit<_, T> = d.into();
        shape(&mut out, "dist_outer", "f0f1", i, &a);
        let a: WithUnit<Box<Arc<WithUnit<u64, F>>>, T> = Box::new(Arc::new(WithUnit::<u64, F>::from(u))).into();
        shape(&mut out, "box_arc", "u0", i, &a);
        let a: WithUnit<Mean<F>, T> = mean_of::<F>(f).into();
        shape(&mut out, "mean", "f0", i, &a);
        // a mean over converted inputs that are (partly) Repeated: Mean<T> <- WithUnit<Tri<F>,T>, WithUnit<Mean<F>,T>
        let tri: WithUnit<Tri<F>, T> = Tri::<F>(u, MAG_F[(i + 1) % 6], MAG_F[(i + 2) % 6], PhantomData).into();
        let mean: WithUnit<Mean<F>, T> = mean_of::<F>(MAG_F[(i + 3) % 6]).into();
        let mut m = Mean::<T>::default();
        let r = m.record_value(&tri).and_then(|()| m.record_value(&mean));
        shape(&mut out, "mean_conv", "u0f1f2f3", i, &MeanOrErr(r.map(|()| m)));
    }
    let a: WithUnit<ZeroAs<F>, T> = ZeroAs::<F>(PhantomData).into();
    shape(&mut out, "zero", "", 0, &a);
    let a: WithUnit<StrAs<F>, T> = StrAs::<F>(PhantomData).into();
    shape(&mut out, "str", "", 0, &a);
    let a: WithUnit<BadAs<F>, T> = BadAs::<F>(7, PhantomData).into();
    shape(&mut out, "mismatch", "", 0, &a);
    let a: WithUnit<Distribution<BadAs<F>>, T> = Distribution::<BadAs<F>>::from_iter([BadAs::<F>(7, PhantomData)]).into();
    shape(&mut out, "dist_mismatch", "", 0, &a);
    let a: WithUnit<Distribution<StrAs<F>>, T> = Distribution::<StrAs<F>>::from_iter([StrAs::<F>(PhantomData), StrAs::<F>(PhantomData)]).into();
    shape(&mut out, "dist_str_unit", "", 0, &a);
    out
}
dispatch_subset_pairs!(run_full_by_name, run_full, &[usize], Vec<J>; Kilobyte);

/// Duration (promises Milliseconds) declared/converted to `F`, then to `T`
// Instantiated with CONCRETE unit types (no generic bounds on associated types), so that the driver still
// builds - and the difference is reported at run time - if Duration or WithUnit promised another unit.
macro_rules! time_shapes {
    ($F:ty, $T:ty, $mags:expr) => {{
        let mut out = vec![];
        for &i in $mags {
            let d = mag_dur(i);
            let a: WithUnit<WithUnit<Duration, $F>, $T> = WithUnit::<Duration, $F>::from(d).into();
            shape(&mut out, "dur", "d0", i, &a);
            let ds: Distribution<WithUnit<Duration, $F>> = [d, mag_dur(i + 1)].into_iter().map(WithUnit::<Duration, $F>::from).collect();
            let a: WithUnit<_, $T> = ds.into();
            shape(&mut out, "dist_dur", "d0d1", i, &a);
            let a: WithUnit<Option<WithUnit<Duration, $F>>, $T> = Some(WithUnit::<Duration, $F>::from(d)).into();
            shape(&mut out, "opt_dur", "d0", i, &a);
            // unit-aware layers over an already converted value: Distribution / Mean of WithUnit<Duration, F>
            let ds: Distribution<WithUnit<WithUnit<Duration, $F>, $T>> =
                [d, mag_dur(i + 1)].into_iter().map(|x| WithUnit::<Duration, $F>::from(x).into()).collect();
            shape(&mut out, "dist_dur", "d0d1", i, &ds);
            shape(&mut out, "mean_dur", "d0d1", i, &MeanOrErr(ds.try_to_mean()));
        }
        out
    }};
}
macro_rules! row_m {
    ($m:ident, $from:expr, $to:expr, $args:expr; $a:ident; $($b:ident)*) => {
        if $from == stringify!($a) {
            $( if $to == stringify!($b) { return Some($m!(unit::$a, unit::$b, $args)); } )*
        }
    };
}
macro_rules! time_rows_m {
    ($m:ident, $from:expr, $to:expr, $args:expr; $($a:ident)*) => {
        $( time_units!(row_m!($m, $from, $to, $args; $a;)); )*
    };
}
fn run_time_by_name(from: &str, to: &str, args: &[usize]) -> Option<Vec<J>> {
    time_units!(time_rows_m!(time_shapes, from, to, args;));
    Option::None
}


/// from -> to -> from
#[inline(never)]
// (F: Convert<F> is only needed if WithUnit<_, T> promised its input's unit instead of T; it holds for every
// family pair and keeps the driver building in that case, so that the difference shows at run time)
fn run_rt<F: UnitTag + Convert<T> + Convert<F>, T: UnitTag + Convert<F>>(mags: &[usize]) -> Vec<J> {
    let mut out = vec![];
    for &i in mags {
        let t = Tri::<F>(MAG_U[i % 6], MAG_F[(i + 1) % 6], MAG_F[(i + 2) % 6], PhantomData);
        let a: WithUnit<WithUnit<Tri<F>, T>, F> = WithUnit::<Tri<F>, T>::from(t).into();
        shape(&mut out, "rt_tri", "u0f1f2", i, &a);
    }
    out
}
dispatch_family_pairs!(run_rt_by_name, run_rt, &[usize], Vec<J>);

fn cmd_pairs(a: &HashMap<String, String>) {
    let behaviours = util::read_ndjson(util::arg_str(a, "behaviours", ""));
    let mut out = std::io::BufWriter::new(std::fs::File::create(util::arg_str(a, "out", "")).unwrap());
    for b in behaviours {
        let (from, to) = (b["from"].as_str().unwrap(), b["to"].as_str().unwrap());
        let mags: Vec<usize> = b["mags"].as_array().unwrap().iter().map(|x| x.as_u64().unwrap() as usize).collect();
        let mut shapes = run_pair_by_name(from, to, &mags).unwrap_or_else(|| panic!("no static conversion {from} -> {to}"));
        if let Some(more) = run_full_by_name(from, to, &mags) {
            shapes.extend(more);
        }
        if b["time"].as_bool().unwrap_or(false) {
            shapes.extend(run_time_by_name(from, to, &mags).unwrap_or_else(|| panic!("no static time conversion {from} -> {to}")));
        }
        if b["inverse"].as_bool().unwrap_or(false) && from != "None" {
            shapes.extend(run_rt_by_name(from, to, &mags).unwrap_or_else(|| panic!("no static round trip {from} <-> {to}")));
        }
        serde_json::to_writer(&mut out, &json!({"id": b["id"], "from": from, "to": to, "shapes": shapes})).unwrap();
        out.write_all(b"\n").unwrap();
    }
    out.flush().unwrap();
}

// ---------------------------------------------------------------------------------------------
// collectors: Distribution<V> / Mean<U> over elements that promise `P` and write a unit chosen at run time
// ---------------------------------------------------------------------------------------------
/// promises unit `P`; writes `unit` (whatever it is), or makes no call at all
struct Writes<P>(Option<u64>, Unit, PhantomData<fn() -> P>);
impl<P> Value for Writes<P> {
    fn write(&self, writer: impl ValueWriter) {
        if let Some(v) = self.0 {
            writer.metric([Observation::Unsigned(v)], self.1, [], MetricFlags::empty())
        }
    }
}
impl<P: UnitTag> MetricValue for Writes<P> {
    type Unit = P;
}
/// promises unit `P`; writes one Repeated { total, occurrences } under `unit`
struct WritesR<P>(f64, u64, Unit, PhantomData<fn() -> P>);
impl<P> Value for WritesR<P> {
    fn write(&self, writer: impl ValueWriter) {
        writer.metric([Observation::Repeated { total: self.0, occurrences: self.1 }], self.2, [], MetricFlags::empty())
    }
}
impl<P: UnitTag> MetricValue for WritesR<P> {
    type Unit = P;
}
macro_rules! unit_row {
    ($id:expr; $($a:ident)*) => { $( if $id == stringify!($a) { return Some(<unit::$a as UnitTag>::UNIT); } )* };
}
fn unit_by_id(id: &str) -> Option<Unit> {
    all_units!(unit_row!(id;));
    Option::None
}
fn result_calls<P: UnitTag>(r: Result<Mean<P>, ValidationError>) -> J {
    match r {
        Ok(m) => record_value(&m),
        Err(e) => json!([{"kind":"error","msg":e.to_string()}]),
    }
}
#[inline(never)]
fn run_collect<P: UnitTag + 'static>(args: (Unit, usize)) -> Vec<J> {
    let (wrote, i) = args;
    let mut out = vec![];
    let (m1, m2) = (MAG_U[i % 6].min(1 << 52), 0u64);
    let mags = || vec![json!({"t":"U","v":m1}), json!({"t":"U","v":m2})];
    let elems = || [Writes::<P>(Some(m1), wrote, PhantomData), Writes::<P>(Some(m2), wrote, PhantomData)];
    let mut push = |name: &str, mags: Vec<J>, calls: Result<J, String>| {
        out.push(match calls {
            Ok(c) => json!({"shape": name, "mags": mags, "calls": c}),
            Err(p) => json!({"shape": name, "mags": mags, "panic": p}),
        })
    };
    // Distribution<V>::write
    push("dist", mags(), util::catch(|| record_value(&Distribution::<Writes<P>>::from_iter(elems()))));
    // Mean::try_new / try_extend, Distribution::try_to_mean, Mean::record_value
    push("mean", mags(), util::catch(|| result_calls(Mean::<P>::try_new(&elems()))));
    push("mean", mags(), util::catch(|| result_calls(Distribution::<Writes<P>>::from_iter(elems()).try_to_mean())));
    push("mean", mags(), util::catch(|| {
        let mut m = Mean::<P>::default();
        let r = m.try_extend(&elems());
        result_calls(r.map(|()| m))
    }));
    push("mean", mags(), util::catch(|| {
        let mut m = Mean::<P>::default();
        let e = elems();
        let r = m.record_value(&e[0]).and_then(|()| m.record_value(&e[1]));
        result_calls(r.map(|()| m))
    }));
    // a bare unitless number recorded into Mean<P>
    push("mean_u64", vec![json!({"t":"U","v":m1})], util::catch(|| {
        let mut m = Mean::<P>::default();
        let r = m.record_value(&m1);
        result_calls(r.map(|()| m))
    }));
    // an element that makes no call next to one that writes what it promises; a string element
    push("dist_empty_elem", vec![json!({"t":"U","v":m1})], util::catch(|| {
        record_value(&Distribution::<Writes<P>>::from_iter([Writes::<P>(Option::None, P::UNIT, PhantomData), Writes::<P>(Some(m1), P::UNIT, PhantomData)]))
    }));
    push("dist_string", vec![], util::catch(|| record_value(&Distribution::<StrAs<P>>::from_iter([StrAs::<P>(PhantomData)]))));
    // a single member
    push("dist1", vec![json!({"t":"U","v":m1})], util::catch(|| {
        record_value(&Distribution::<Writes<P>>::from_iter([Writes::<P>(Some(m1), wrote, PhantomData)]))
    }));
    // members that are Repeated (3 and 2 occurrences): a distribution hands them on, a mean sums totals and occurrences
    let (r1, r2) = (MAG_F[(i + 2) % 6], MAG_F[(i + 3) % 6]);
    let rmags = || vec![json!({"t":"F","v":r1}), json!({"t":"F","v":r2})];
    let relems = || [WritesR::<P>(r1, 3, wrote, PhantomData), WritesR::<P>(r2, 2, wrote, PhantomData)];
    push("dist_rep", rmags(), util::catch(|| record_value(&Distribution::<WritesR<P>>::from_iter(relems()))));
    push("mean_rep", rmags(), util::catch(|| result_calls(Mean::<P>::try_new(&relems()))));
    push("mean_rep", rmags(), util::catch(|| result_calls(Distribution::<WritesR<P>>::from_iter(relems()).try_to_mean())));
    push("mean_rep", rmags(), util::catch(|| {
        let mut m = Mean::<P>::default();
        let r = m.try_extend(&relems());
        result_calls(r.map(|()| m))
    }));
    push("mean_rep", rmags(), util::catch(|| {
        let mut m = Mean::<P>::default();
        let e = relems();
        let r = m.record_value(&e[0]).and_then(|()| m.record_value(&e[1]));
        result_calls(r.map(|()| m))
    }));
    out
}
macro_rules! unit_fn_row {
    ($f:ident, $id:expr, $args:expr; $($a:ident)*) => { $( if $id == stringify!($a) { return Some($f::<unit::$a>($args)); } )* };
}
fn run_collect_by_name(id: &str, args: (Unit, usize)) -> Option<Vec<J>> {
    all_units!(unit_fn_row!(run_collect, id, args;));
    Option::None
}
fn cmd_collect(a: &HashMap<String, String>) {
    let behaviours = util::read_ndjson(util::arg_str(a, "behaviours", ""));
    let mut out = std::io::BufWriter::new(std::fs::File::create(util::arg_str(a, "out", "")).unwrap());
    for b in behaviours {
        let (prom, wrote) = (b["prom"].as_str().unwrap(), b["wrote"].as_str().unwrap());
        let wu = unit_by_id(wrote).unwrap_or_else(|| panic!("unknown unit {wrote}"));
        let mut shapes = vec![];
        for m in b["mags"].as_array().unwrap() {
            shapes.extend(run_collect_by_name(prom, (wu, m.as_u64().unwrap() as usize)).unwrap_or_else(|| panic!("unknown unit {prom}")));
        }
        serde_json::to_writer(&mut out, &json!({"id": b["id"], "prom": prom, "wrote": wrote, "shapes": shapes})).unwrap();
        out.write_all(b"\n").unwrap();
    }
    out.flush().unwrap();
}

// ---------------------------------------------------------------------------------------------
// #[metrics(unit = ...)]
// ---------------------------------------------------------------------------------------------
mod attrs {
    use super::*;
    use metrique::unit::{Count, Kilobyte, Megabit, Microsecond, Millisecond, Percent, Second};

    #[metrics]
    pub struct Scalars {
        #[metrics(unit = Microsecond)]
        pub dur_us: Duration,
        #[metrics(unit = Second)]
        pub dur_s: Duration,
        pub dur_plain: Duration,
        #[metrics(unit = Millisecond)]
        pub dur_ms: Duration,
        #[metrics(unit = Kilobyte)]
        pub n_kb: u64,
        #[metrics(unit = Percent)]
        pub x_pct: f64,
        #[metrics(unit = Second)]
        pub opt_some_s: Option<Duration>,
        #[metrics(unit = Second)]
        pub opt_none_s: Option<Duration>,
        #[metrics(unit = Count)]
        pub opt_n_count: Option<u64>,
    }

    #[metrics]
    pub struct Dists {
        #[metrics(no_close, unit = Microsecond)]
        pub dist_dur_us: Distribution<Duration>,
        #[metrics(no_close, unit = Megabit)]
        pub dist_n_mbit: Distribution<u64>,
        #[metrics(no_close, unit = Second)]
        pub dist_empty: Distribution<Duration>,
    }
}

fn cmd_attrs(a: &HashMap<String, String>) {
    let mags: Vec<usize> = util::arg_str(a, "mags", "0,1,2,3,4,5").split(',').filter_map(|s| s.parse().ok()).collect();
    let mut out = std::io::BufWriter::new(std::fs::File::create(util::arg_str(a, "out", "")).unwrap());
    for &i in &mags {
        let r = util::catch(|| {
            let s = attrs::Scalars {
                dur_us: mag_dur(i),
                dur_s: mag_dur(i),
                dur_plain: mag_dur(i),
                dur_ms: mag_dur(i),
                n_kb: MAG_U[i % 6],
                x_pct: MAG_F[i % 6],
                opt_some_s: Some(mag_dur(i)),
                opt_none_s: None,
                opt_n_count: Some(MAG_U[i % 6]),
            };
            let d = attrs::Dists {
                dist_dur_us: Distribution::from_iter([mag_dur(i), mag_dur(i + 1)]),
                dist_n_mbit: Distribution::from_iter([MAG_U[i % 6], MAG_U[(i + 1) % 6], MAG_U[(i + 2) % 6]]),
                dist_empty: Distribution::default(),
            };
            let o1 = observe_entry(&RootEntry::new(s.close()));
            let o2 = observe_entry(&RootEntry::new(d.close()));
            let mut items = o1["items"].as_array().unwrap().clone();
            items.extend(o2["items"].as_array().unwrap().iter().cloned());
            json!({
                "items": items,
                "mags": {
                    "dur_us": [echo_d(i)], "dur_s": [echo_d(i)], "dur_plain": [echo_d(i)], "dur_ms": [echo_d(i)],
                    "n_kb": [echo_u(i)], "x_pct": [echo_f(i)], "opt_some_s": [echo_d(i)], "opt_none_s": [],
                    "opt_n_count": [echo_u(i)],
                    "dist_dur_us": [echo_d(i), echo_d(i + 1)],
                    "dist_n_mbit": [echo_u(i), echo_u(i + 1), echo_u(i + 2)],
                    "dist_empty": [],
                }
            })
        });
        let j = match r {
            Ok(j) => j,
            Err(p) => json!({"panic": p}),
        };
        serde_json::to_writer(&mut out, &j).unwrap();
        out.write_all(b"\n").unwrap();
    }
    out.flush().unwrap();
}

fn main() {
    let _ = FIELDS;
    let (cmd, a) = util::args();
    match cmd.as_str() {
        "values" => cmd_values(&a),
        "entries" => cmd_entries(&a),
        "pairs" => cmd_pairs(&a),
        "attrs" => cmd_attrs(&a),
        "collect" => cmd_collect(&a),
        "hist" => cmd_hist(&a),
        "flagmerge" => cmd_flagmerge(&a),
        _ => {
            eprintln!("usage: val values|entries|hist|pairs|collect|attrs ...");
            std::process::exit(2);
        }
    }
}
