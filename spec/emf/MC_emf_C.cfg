CONSTANTS
  Configs <- ConfigsCt
  InitEntries <- InitC
  NextCalls <- NextC
  MaxCalls = 3
SPECIFICATION Spec
INVARIANT TypeOK
INVARIANT WellFormed
INVARIANT Sound
INVARIANT Transparent
INVARIANT RejectIff
INVARIANT UnroutableReport
INVARIANT Faithful
INVARIANT Emit
CHECK_DEADLOCK FALSE
