---------------------------- MODULE SamplingGrid ----------------------------
(***************************************************************************)
(* Walks over the rate grid.  For every rate p/q, 1 <= p <= q <= QMax, and  *)
(* for the listed edge rates (exact f32 values p / 2^j), TLC checks         *)
(* RateToNOK and prints one REPLAY line: the rate, n and alpha as exact     *)
(* rationals, the weight for draws around alpha, and - for rates that are   *)
(* exact in f32 (q a power of two) - the emit/skip decision for draws k/64  *)
(* on both sides of and exactly at the rate.  A second walk prints the      *)
(* powers of two 2^-k, k <= KMax (the saturation at 2^-63 is symbolic).     *)
(***************************************************************************)
EXTENDS Sampling, Json

CONSTANTS QMax, KMax

\* EdgeSeq: edge rates, exact in f32: next below 1, next above and below 1/2, tiny numerators, a 24-bit numerator

VARIABLES i, j, mode          \* mode "rate": the rate i/j; "edge": EdgeSeq[i]; "pow2": 2^-i
gvars == <<i, j, mode, cvars>>

EdgeSeq == <<<<16777215, 16777216>>, <<8388609, 16777216>>, <<16777215, 33554432>>, <<3, 16777216>>,
            <<12345677, 67108864>>, <<1, 16777216>>, <<5, 536870912>>>>

IsPow2(q) == \E x \in 0..30 : q = 2^x
\* draws k/64 around the rate p/q (exactly at it when 64 p / q is integral)
DrawsFor(p, q) == {k \in 0..63 : k = 0 \/ k = 63 \/ (k * q >= 64 * p - 2 * q /\ k * q <= 64 * p + 2 * q)}
\* draws around alpha = a/p as rationals: alpha -/+ 1/(8p), 0, and just below 1
WDraws(p, q) == LET a == AlphaNum(p, q)
                IN IF p <= 4096
                   THEN {<<0, 1>>, <<1023, 1024>>, <<8 * a - 1, 8 * p>>} \cup (IF a < p THEN {<<8 * a + 1, 8 * p>>} ELSE {})
                   ELSE {<<0, 1>>, <<1, 4>>, <<1, 2>>, <<3, 4>>}      \* 24-bit numerators: keep the products in 32 bits

GridRow(pq) ==
    LET p == pq[1]
        q == pq[2]
    IN [kind |-> "rate", p |-> p, q |-> q, n |-> N(p, q), alpha |-> <<AlphaNum(p, q), p>>,
        exact |-> IsPow2(q),
        weights |-> {[draw |-> d, w |-> Weight(p, q, d)] : d \in WDraws(p, q)},
        decide |-> IF IsPow2(q) /\ q <= 64
                   THEN {[k |-> k, emit |-> Decide(<<k, 64>>, <<p, q>>), fwd |-> Forwarded(<<p, q>>)] : k \in DrawsFor(p, q)}
                   ELSE {}]

Cur == IF mode = "rate" THEN <<i, j>> ELSE EdgeSeq[i]

GInit == i = 1 /\ j = 1 /\ mode = "rate" /\ CInit
GNext == /\ UNCHANGED cvars
         /\ \/ mode = "rate" /\ i < j /\ i' = i + 1 /\ UNCHANGED <<j, mode>>
            \/ mode = "rate" /\ i = j /\ j < QMax /\ i' = 1 /\ j' = j + 1 /\ mode' = mode
            \/ mode = "rate" /\ i = j /\ j = QMax /\ i' = 1 /\ j' = 0 /\ mode' = "edge"
            \/ mode = "edge" /\ i < Len(EdgeSeq) /\ i' = i + 1 /\ UNCHANGED <<j, mode>>
            \/ mode = "edge" /\ i = Len(EdgeSeq) /\ i' = 0 /\ j' = 0 /\ mode' = "pow2"
            \/ mode = "pow2" /\ i < KMax /\ i' = i + 1 /\ UNCHANGED <<j, mode>>
GSpec == GInit /\ [][GNext]_gvars

GridOK == mode # "pow2" => /\ RateToNOK(Cur[1], Cur[2])
                           /\ \A k \in 0..63 : Cur[1] = Cur[2] => Decide(<<k, 64>>, <<1, 1>>)
Pow2OK == mode = "pow2" => /\ Pow2Sat(i) = (i >= 64)
                           /\ (i <= 30 => RateToNOK(1, 2^i) /\ N(1, 2^i) = 2^i /\ AlphaNum(1, 2^i) = 1)
\* one line per rate in lowest terms, per edge rate, per power of two
Emit == (mode = "rate" => Gcd(i, j) = 1) =>
          PrintT(<<"REPLAY", ToJson(IF mode # "pow2" THEN GridRow(Cur) ELSE [kind |-> "pow2"] @@ Pow2Row(i))>>)
=============================================================================
