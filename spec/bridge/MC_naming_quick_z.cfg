CONSTANTS
  Depth = 4
  EmitZero = TRUE
  DescUnits = {"Bytes", "TerabitsPerSecond"}
  HistVals = {"v100"}
  HistCounts = {1}
  GaugeOps = {"set"}
  RecHows = {"loop"}
SPECIFICATION Spec
INVARIANT Emit
INVARIANT UnitInv
CONSTRAINT Bound
CHECK_DEADLOCK FALSE
