\* -simulate walks of 9 operations (at most 4 requests)
CONSTANTS
  Depth = 9
  MaxReq = 4
  RModes = {"try", "guard", "fg", "wait", "disc"}
SPECIFICATION RSpec
INVARIANTS Emit SvcInv
CONSTRAINT Bound
CHECK_DEADLOCK FALSE
