SPECIFICATION TSpec
CONSTRAINT Track
INVARIANT TraceInv
POSTCONDITION Accepted
CHECK_DEADLOCK FALSE
