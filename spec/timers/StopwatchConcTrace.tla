------------------------ MODULE StopwatchConcTrace ------------------------
(***************************************************************************)
(* Trace validation for the concurrent part of C18 (`tm conc`): rounds in   *)
(* which the creating thread starts groups of owned guards (a group = the   *)
(* guards handed to one thread that were started at the same clock value),  *)
(* advances the manual clock, and then all threads complete their guards at  *)
(* the same time (drop / stop keep the span, discard forgets it); after the  *)
(* threads have been joined the stopwatch is closed.                         *)
(*                                                                         *)
(* The reported total must be the total of the completed, non-discarded      *)
(* spans since the last clear, None (-1) if there is none.  It is a function *)
(* of the multiset of completed spans only, so the order in which the        *)
(* threads' Done events were logged does not matter: the spec is             *)
(* deterministic and validation is linear.                                   *)
(***************************************************************************)
EXTENDS Integers, Sequences, TLC, Json, IOUtils

Rec == ndJsonDeserialize(IOEnv.TRACE)
N == Len(Rec)

VARIABLES l, clock, grp, sum, any
tvars == <<l, clock, grp, sum, any>>

Ev(name) == l <= N /\ Rec[l].ev = name
Adv == l' = l + 1

TInit == l = 1 /\ clock = 0 /\ grp = <<>> /\ sum = 0 /\ any = FALSE /\ TLCSet(1, 1) /\ TLCSet(2, <<>>)

TReset == Ev("Reset") /\ Adv /\ clock' = 0 /\ grp' = <<>> /\ sum' = 0 /\ any' = FALSE
TAdvance == Ev("Advance") /\ Adv /\ clock' = clock + Rec[l].d /\ UNCHANGED <<grp, sum, any>>
\* n owned guards started now (for thread t)
TStart ==
    /\ Ev("Start") /\ Adv
    /\ Rec[l].g \notin DOMAIN grp
    /\ grp' = (Rec[l].g :> [start |-> clock, n |-> Rec[l].n]) @@ grp
    /\ UNCHANGED <<clock, sum, any>>
\* the thread has completed every guard of the group: `kept` by drop / stop, `unwound` dropped by a panic
\* unwinding through their scope (a completed span like any other), `discarded` by discard
TDone ==
    /\ Ev("Done") /\ Adv
    /\ Rec[l].g \in DOMAIN grp
    /\ Rec[l].kept + Rec[l].unwound + Rec[l].discarded = grp[Rec[l].g].n
    /\ sum' = sum + (Rec[l].kept + Rec[l].unwound) * (clock - grp[Rec[l].g].start)
    /\ any' = (any \/ Rec[l].kept + Rec[l].unwound > 0)
    /\ grp' = [g \in DOMAIN grp \ {Rec[l].g} |-> grp[g]]
    /\ UNCHANGED clock
TClear == Ev("Clear") /\ Adv /\ sum' = 0 /\ any' = FALSE /\ UNCHANGED <<clock, grp>>
\* closing the stopwatch while no guard is live
Expected == IF any THEN sum ELSE -1
TClose ==
    /\ Ev("Close") /\ Adv
    /\ DOMAIN grp = {}
    /\ Rec[l].total = Expected
    /\ UNCHANGED <<clock, grp, sum, any>>

\* The creating thread closed &stopwatch WHILE the other threads were completing their guards (logged
\* before the phase's Done events: `sum` is still the total before the phase).  lo = span ticks of the
\* kept completions that had returned before the close started, hi = of those that had been started
\* before the close returned.  The reported value must lie in that window - in particular it is not
\* "nothing" once a kept completion has returned, or when there was a total before the phase.
TCloseDuring ==
    /\ Ev("CloseDuring") /\ Adv
    /\ Rec[l].lo <= Rec[l].hi
    /\ IF Rec[l].total = -1 THEN ~any /\ Rec[l].lo = 0
       ELSE /\ Rec[l].total >= sum + Rec[l].lo /\ Rec[l].total <= sum + Rec[l].hi
            /\ (any \/ Rec[l].hi > 0)
    /\ UNCHANGED <<clock, grp, sum, any>>

TNext_ == TReset \/ TAdvance \/ TStart \/ TDone \/ TClear \/ TClose \/ TCloseDuring
TSpec == TInit /\ [][TNext_]_tvars

Track ==
    /\ IF l > TLCGet(1) THEN TLCSet(1, l) /\ TLCSet(2, [expected |-> Expected, clock |-> clock]) ELSE TRUE
    /\ IF l = N + 1 THEN TLCSet("exit", TRUE) ELSE TRUE
Accepted ==
    IF TLCGet(1) = N + 1 THEN PrintT(<<"ACCEPTED", N>>)
    ELSE /\ PrintT(<<"REJECTED", TLCGet(1), ToJson(Rec[TLCGet(1)]), TLCGet(2)>>)
         /\ FALSE
=============================================================================
