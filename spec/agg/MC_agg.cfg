\* every history: 2 keys, 2 values, 4 inputs, 2 guards, 2 flushes
CONSTANTS
  NK = 2
  Vals = {1, 2}
  MaxIn = 4
  MaxGuards = 2
  MaxFlush = 2
SPECIFICATION Spec
INVARIANT Inv
CHECK_DEADLOCK FALSE
