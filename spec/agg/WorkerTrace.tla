---------------------------- MODULE WorkerTrace ----------------------------
(***************************************************************************)
(* Trace validation (T direction) for C10: is an execution recorded from   *)
(* a real WorkerSink<KeyedAggregator> with 2-4 producer threads a          *)
(* behaviour of WorkerAbs?  Every event is logged (the worker's merges and *)
(* flushes by a sentinel wrapped around the inner aggregator, downstream   *)
(* appends by the downstream sink, both in the worker thread), so the      *)
(* check is deterministic.  Summed values are distinct powers of two and   *)
(* observations are input ids: the harness decodes every emitted aggregate *)
(* into the inputs it contains (Emit.sum, Emit.obs).                       *)
(* ExitTimeout / FlushTimeout (something that must happen did not within   *)
(* the 10 s budget) are consumed by no action: the trace is rejected there.*)
(***************************************************************************)
EXTENDS WorkerAbs, Json, IOUtils

Rec == ndJsonDeserialize(IOEnv.TRACE)
N == Len(Rec)

VARIABLE l
tvars == <<wvars, l>>

Ev(name) == l <= N /\ Rec[l].ev = name
Adv == l' = l + 1
ToSet(s) == {s[i] : i \in 1..Len(s)}

TInit == l = 1 /\ WInit(1) /\ TLCSet(1, 1) /\ TLCSet(2, <<>>)

TReset ==
    /\ Ev("Reset") /\ Adv
    /\ info' = <<>> /\ started' = {} /\ ended' = {} /\ mseq' = <<>> /\ cut' = 0 /\ inFlush' = FALSE /\ batchK' = {}
    /\ emitted' = {} /\ need' = <<>> /\ fdone' = {} /\ handles' = Rec[l].handles /\ exited' = FALSE

TSendStart == Ev("SendStart") /\ Adv /\ SendStart(Rec[l].p, Rec[l].i, Rec[l].k)
TSendEnd   == Ev("SendEnd") /\ Adv /\ SendEnd(Rec[l].i)
TMerged    == Ev("Merged") /\ Adv /\ Merged(Rec[l].i)
TFlushBegin == Ev("FlushBegin") /\ Adv /\ FlushBegin
TEmit      == Ev("Emit") /\ Adv /\ Emit(Rec[l].k, ToSet(Rec[l].sum), Rec[l].obs, Rec[l].last)
                /\ Rec[l].obs_ms = Rec[l].obs        \* both distribution fields hold the same observations
TFlushEnd  == Ev("FlushEnd") /\ Adv /\ FlushEnd
TFlushReq  == Ev("FlushReq") /\ Adv /\ FlushReq(Rec[l].q)
TFlushDone == Ev("FlushDone") /\ Adv /\ FlushDone(Rec[l].q)
THandleDrop == Ev("HandleDrop") /\ Adv /\ HandleDrop
TExited    == Ev("Exited") /\ Adv /\ Exited
TQuiesce   == Ev("Quiesce") /\ Adv /\ Quiesced /\ UNCHANGED wvars

TNext_ == \/ TReset \/ TSendStart \/ TSendEnd \/ TMerged \/ TFlushBegin \/ TEmit \/ TFlushEnd
          \/ TFlushReq \/ TFlushDone \/ THandleDrop \/ TExited \/ TQuiesce

TSpec == TInit /\ [][TNext_]_tvars

Track ==
    /\ IF l > TLCGet(1) THEN TLCSet(1, l) /\ TLCSet(2, <<mseq, cut, inFlush, batchK, emitted, ended, handles, exited>>) ELSE TRUE
    /\ IF l = N + 1 THEN TLCSet("exit", TRUE) ELSE TRUE

Accepted ==
    IF TLCGet(1) = N + 1 THEN PrintT(<<"ACCEPTED", N>>)
    ELSE /\ PrintT(<<"REJECTED", TLCGet(1), ToJson(Rec[TLCGet(1)]), TLCGet(2)>>)
         /\ FALSE
=============================================================================
