CONSTANTS
  Slots = {1, 2}
  Ds = {1}
  MaxClock = 1000
  W0 = 5
  W0B = 9000000
  Ambients = {"A", "B", "none"}
  Threads = {"main", "other"}
  Resolution = "captured"
  UnwindDrops = TRUE
  Depth = 5
SPECIFICATION RSpec
INVARIANT Emit
INVARIANT SwInv
CONSTRAINT Bound
CHECK_DEADLOCK FALSE
