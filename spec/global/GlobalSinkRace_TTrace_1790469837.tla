---- MODULE GlobalSinkRace_TTrace_1790469837 ----
EXTENDS Sequences, TLCExt, Toolbox, GlobalSinkRace, Naturals, TLC

_expression ==
    LET GlobalSinkRace_TEExpression == INSTANCE GlobalSinkRace_TEExpression
    IN GlobalSinkRace_TEExpression!expression
----

_trace ==
    LET GlobalSinkRace_TETrace == INSTANCE GlobalSinkRace_TETrace
    IN GlobalSinkRace_TETrace!trace
----

_inv ==
    ~(
        TLCGet("level") = Len(_TETrace)
        /\
        acc = (<<{11}, {}>>)
        /\
        errs = ({})
        /\
        ad = (<<1, 0>>)
        /\
        fl = (<<0, 0>>)
        /\
        slot = (0)
        /\
        qclosed = (<<TRUE, FALSE>>)
        /\
        poisoned = (FALSE)
        /\
        an = (<<0, 0>>)
        /\
        out = (<<<<>>, <<>>>>)
        /\
        q = (<<<<>>, <<>>>>)
        /\
        stop = (<<TRUE, FALSE>>)
        /\
        readers = ({})
        /\
        apc = (<<"push", "idle">>)
        /\
        oks = ({})
        /\
        cpc = (<<"join", "new">>)
        /\
        writer = (1)
    )
----

_init ==
    /\ ad = _TETrace[1].ad
    /\ an = _TETrace[1].an
    /\ readers = _TETrace[1].readers
    /\ writer = _TETrace[1].writer
    /\ out = _TETrace[1].out
    /\ q = _TETrace[1].q
    /\ slot = _TETrace[1].slot
    /\ stop = _TETrace[1].stop
    /\ qclosed = _TETrace[1].qclosed
    /\ oks = _TETrace[1].oks
    /\ fl = _TETrace[1].fl
    /\ poisoned = _TETrace[1].poisoned
    /\ acc = _TETrace[1].acc
    /\ errs = _TETrace[1].errs
    /\ apc = _TETrace[1].apc
    /\ cpc = _TETrace[1].cpc
----

_next ==
    /\ \E i,j \in DOMAIN _TETrace:
        /\ \/ /\ j = i + 1
              /\ i = TLCGet("level")
        /\ ad  = _TETrace[i].ad
        /\ ad' = _TETrace[j].ad
        /\ an  = _TETrace[i].an
        /\ an' = _TETrace[j].an
        /\ readers  = _TETrace[i].readers
        /\ readers' = _TETrace[j].readers
        /\ writer  = _TETrace[i].writer
        /\ writer' = _TETrace[j].writer
        /\ out  = _TETrace[i].out
        /\ out' = _TETrace[j].out
        /\ q  = _TETrace[i].q
        /\ q' = _TETrace[j].q
        /\ slot  = _TETrace[i].slot
        /\ slot' = _TETrace[j].slot
        /\ stop  = _TETrace[i].stop
        /\ stop' = _TETrace[j].stop
        /\ qclosed  = _TETrace[i].qclosed
        /\ qclosed' = _TETrace[j].qclosed
        /\ oks  = _TETrace[i].oks
        /\ oks' = _TETrace[j].oks
        /\ fl  = _TETrace[i].fl
        /\ fl' = _TETrace[j].fl
        /\ poisoned  = _TETrace[i].poisoned
        /\ poisoned' = _TETrace[j].poisoned
        /\ acc  = _TETrace[i].acc
        /\ acc' = _TETrace[j].acc
        /\ errs  = _TETrace[i].errs
        /\ errs' = _TETrace[j].errs
        /\ apc  = _TETrace[i].apc
        /\ apc' = _TETrace[j].apc
        /\ cpc  = _TETrace[i].cpc
        /\ cpc' = _TETrace[j].cpc

\* Uncomment the ASSUME below to write the states of the error trace
\* to the given file in Json format. Note that you can pass any tuple
\* to `JsonSerialize`. For example, a sub-sequence of _TETrace.
    \* ASSUME
    \*     LET J == INSTANCE Json
    \*         IN J!JsonSerialize("GlobalSinkRace_TTrace_1790469837.json", _TETrace)

=============================================================================

 Note that you can extract this module `GlobalSinkRace_TEExpression`
  to a dedicated file to reuse `expression` (the module in the 
  dedicated `GlobalSinkRace_TEExpression.tla` file takes precedence 
  over the module `GlobalSinkRace_TEExpression` below).

---- MODULE GlobalSinkRace_TEExpression ----
EXTENDS Sequences, TLCExt, Toolbox, GlobalSinkRace, Naturals, TLC

expression == 
    [
        \* To hide variables of the `GlobalSinkRace` spec from the error trace,
        \* remove the variables below.  The trace will be written in the order
        \* of the fields of this record.
        ad |-> ad
        ,an |-> an
        ,readers |-> readers
        ,writer |-> writer
        ,out |-> out
        ,q |-> q
        ,slot |-> slot
        ,stop |-> stop
        ,qclosed |-> qclosed
        ,oks |-> oks
        ,fl |-> fl
        ,poisoned |-> poisoned
        ,acc |-> acc
        ,errs |-> errs
        ,apc |-> apc
        ,cpc |-> cpc
        
        \* Put additional constant-, state-, and action-level expressions here:
        \* ,_stateNumber |-> _TEPosition
        \* ,_adUnchanged |-> ad = ad'
        
        \* Format the `ad` variable as Json value.
        \* ,_adJson |->
        \*     LET J == INSTANCE Json
        \*     IN J!ToJson(ad)
        
        \* Lastly, you may build expressions over arbitrary sets of states by
        \* leveraging the _TETrace operator.  For example, this is how to
        \* count the number of times a spec variable changed up to the current
        \* state in the trace.
        \* ,_adModCount |->
        \*     LET F[s \in DOMAIN _TETrace] ==
        \*         IF s = 1 THEN 0
        \*         ELSE IF _TETrace[s].ad # _TETrace[s-1].ad
        \*             THEN 1 + F[s-1] ELSE F[s-1]
        \*     IN F[_TEPosition - 1]
    ]

=============================================================================



Parsing and semantic processing can take forever if the trace below is long.
 In this case, it is advised to uncomment the module below to deserialize the
 trace from a generated binary file.

\*
\*---- MODULE GlobalSinkRace_TETrace ----
\*EXTENDS IOUtils, GlobalSinkRace, TLC
\*
\*trace == IODeserialize("GlobalSinkRace_TTrace_1790469837.bin", TRUE)
\*
\*=============================================================================
\*

---- MODULE GlobalSinkRace_TETrace ----
EXTENDS GlobalSinkRace, TLC

trace == 
    <<
    ([acc |-> <<{}, {}>>,errs |-> {},ad |-> <<0, 0>>,fl |-> <<0, 0>>,slot |-> 0,qclosed |-> <<FALSE, FALSE>>,poisoned |-> FALSE,an |-> <<0, 0>>,out |-> <<<<>>, <<>>>>,q |-> <<<<>>, <<>>>>,stop |-> <<FALSE, FALSE>>,readers |-> {},apc |-> <<"idle", "idle">>,oks |-> {},cpc |-> <<"new", "new">>,writer |-> 0]),
    ([acc |-> <<{}, {}>>,errs |-> {},ad |-> <<0, 0>>,fl |-> <<0, 0>>,slot |-> 0,qclosed |-> <<FALSE, FALSE>>,poisoned |-> FALSE,an |-> <<0, 0>>,out |-> <<<<>>, <<>>>>,q |-> <<<<>>, <<>>>>,stop |-> <<FALSE, FALSE>>,readers |-> {},apc |-> <<"rlock", "idle">>,oks |-> {},cpc |-> <<"new", "new">>,writer |-> 0]),
    ([acc |-> <<{}, {}>>,errs |-> {},ad |-> <<0, 0>>,fl |-> <<0, 0>>,slot |-> 0,qclosed |-> <<FALSE, FALSE>>,poisoned |-> FALSE,an |-> <<0, 0>>,out |-> <<<<>>, <<>>>>,q |-> <<<<>>, <<>>>>,stop |-> <<FALSE, FALSE>>,readers |-> {},apc |-> <<"rlock", "idle">>,oks |-> {},cpc |-> <<"wlock", "new">>,writer |-> 0]),
    ([acc |-> <<{}, {}>>,errs |-> {},ad |-> <<0, 0>>,fl |-> <<0, 0>>,slot |-> 0,qclosed |-> <<FALSE, FALSE>>,poisoned |-> FALSE,an |-> <<0, 0>>,out |-> <<<<>>, <<>>>>,q |-> <<<<>>, <<>>>>,stop |-> <<FALSE, FALSE>>,readers |-> {},apc |-> <<"rlock", "idle">>,oks |-> {},cpc |-> <<"check", "new">>,writer |-> 1]),
    ([acc |-> <<{}, {}>>,errs |-> {},ad |-> <<0, 0>>,fl |-> <<0, 0>>,slot |-> 1,qclosed |-> <<FALSE, FALSE>>,poisoned |-> FALSE,an |-> <<0, 0>>,out |-> <<<<>>, <<>>>>,q |-> <<<<>>, <<>>>>,stop |-> <<FALSE, FALSE>>,readers |-> {},apc |-> <<"rlock", "idle">>,oks |-> {},cpc |-> <<"setunlock", "new">>,writer |-> 1]),
    ([acc |-> <<{}, {}>>,errs |-> {},ad |-> <<0, 0>>,fl |-> <<0, 0>>,slot |-> 1,qclosed |-> <<FALSE, FALSE>>,poisoned |-> FALSE,an |-> <<0, 0>>,out |-> <<<<>>, <<>>>>,q |-> <<<<>>, <<>>>>,stop |-> <<FALSE, FALSE>>,readers |-> {},apc |-> <<"rlock", "idle">>,oks |-> {},cpc |-> <<"attret", "new">>,writer |-> 0]),
    ([acc |-> <<{}, {}>>,errs |-> {},ad |-> <<0, 0>>,fl |-> <<0, 0>>,slot |-> 1,qclosed |-> <<FALSE, FALSE>>,poisoned |-> FALSE,an |-> <<0, 0>>,out |-> <<<<>>, <<>>>>,q |-> <<<<>>, <<>>>>,stop |-> <<FALSE, FALSE>>,readers |-> {},apc |-> <<"rlock", "idle">>,oks |-> {},cpc |-> <<"held", "new">>,writer |-> 0]),
    ([acc |-> <<{}, {}>>,errs |-> {},ad |-> <<0, 0>>,fl |-> <<0, 0>>,slot |-> 1,qclosed |-> <<FALSE, FALSE>>,poisoned |-> FALSE,an |-> <<0, 0>>,out |-> <<<<>>, <<>>>>,q |-> <<<<>>, <<>>>>,stop |-> <<FALSE, FALSE>>,readers |-> {},apc |-> <<"rlock", "idle">>,oks |-> {},cpc |-> <<"dwlock", "new">>,writer |-> 0]),
    ([acc |-> <<{}, {}>>,errs |-> {},ad |-> <<0, 0>>,fl |-> <<0, 0>>,slot |-> 1,qclosed |-> <<FALSE, FALSE>>,poisoned |-> FALSE,an |-> <<0, 0>>,out |-> <<<<>>, <<>>>>,q |-> <<<<>>, <<>>>>,stop |-> <<FALSE, FALSE>>,readers |-> {1},apc |-> <<"look", "idle">>,oks |-> {},cpc |-> <<"dwlock", "new">>,writer |-> 0]),
    ([acc |-> <<{11}, {}>>,errs |-> {},ad |-> <<1, 0>>,fl |-> <<0, 0>>,slot |-> 1,qclosed |-> <<FALSE, FALSE>>,poisoned |-> FALSE,an |-> <<0, 0>>,out |-> <<<<>>, <<>>>>,q |-> <<<<>>, <<>>>>,stop |-> <<FALSE, FALSE>>,readers |-> {1},apc |-> <<"unlock", "idle">>,oks |-> {},cpc |-> <<"dwlock", "new">>,writer |-> 0]),
    ([acc |-> <<{11}, {}>>,errs |-> {},ad |-> <<1, 0>>,fl |-> <<0, 0>>,slot |-> 1,qclosed |-> <<FALSE, FALSE>>,poisoned |-> FALSE,an |-> <<0, 0>>,out |-> <<<<>>, <<>>>>,q |-> <<<<>>, <<>>>>,stop |-> <<FALSE, FALSE>>,readers |-> {},apc |-> <<"push", "idle">>,oks |-> {},cpc |-> <<"dwlock", "new">>,writer |-> 0]),
    ([acc |-> <<{11}, {}>>,errs |-> {},ad |-> <<1, 0>>,fl |-> <<0, 0>>,slot |-> 1,qclosed |-> <<FALSE, FALSE>>,poisoned |-> FALSE,an |-> <<0, 0>>,out |-> <<<<>>, <<>>>>,q |-> <<<<>>, <<>>>>,stop |-> <<FALSE, FALSE>>,readers |-> {},apc |-> <<"push", "idle">>,oks |-> {},cpc |-> <<"take", "new">>,writer |-> 1]),
    ([acc |-> <<{11}, {}>>,errs |-> {},ad |-> <<1, 0>>,fl |-> <<0, 0>>,slot |-> 0,qclosed |-> <<FALSE, FALSE>>,poisoned |-> FALSE,an |-> <<0, 0>>,out |-> <<<<>>, <<>>>>,q |-> <<<<>>, <<>>>>,stop |-> <<TRUE, FALSE>>,readers |-> {},apc |-> <<"push", "idle">>,oks |-> {},cpc |-> <<"join", "new">>,writer |-> 1]),
    ([acc |-> <<{11}, {}>>,errs |-> {},ad |-> <<1, 0>>,fl |-> <<0, 0>>,slot |-> 0,qclosed |-> <<TRUE, FALSE>>,poisoned |-> FALSE,an |-> <<0, 0>>,out |-> <<<<>>, <<>>>>,q |-> <<<<>>, <<>>>>,stop |-> <<TRUE, FALSE>>,readers |-> {},apc |-> <<"push", "idle">>,oks |-> {},cpc |-> <<"join", "new">>,writer |-> 1])
    >>
----


=============================================================================

---- CONFIG GlobalSinkRace_TTrace_1790469837 ----
CONSTANTS
    Appenders = { 1 , 2 }
    NApp = 1
    Ctls = { 1 , 2 }
    AppendUnderLock = FALSE

INVARIANT
    _inv

CHECK_DEADLOCK
    \* CHECK_DEADLOCK off because of PROPERTY or INVARIANT above.
    FALSE

INIT
    _init

NEXT
    _next

CONSTANT
    _TETrace <- _trace

ALIAS
    _expression
=============================================================================
\* Generated on Sun Sep 27 00:44:00 UTC 2026