#!/usr/bin/env python3
"""Regenerates /verif/MANIFEST.json from the table below (single source of truth for the interface)."""
import json, os, subprocess
VERIF = os.path.dirname(os.path.dirname(os.path.abspath(__file__)))

def repo_hook_commits():
    out = subprocess.run(["git", "-C", "/repo", "log", "--format=%H %s"], capture_output=True, text=True).stdout
    return [l.split()[0] for l in out.splitlines() if " verif hooks:" in l][::-1]

MC = "model_checking"
CHECKS = {
 "C01": dict(design="4/C01", technique="TLA+ refinement check (BackgroundQueue.tla => QueueAbs.tla, TLC) + TLC trace validation of recorded and TLC-scheduled executions of the real queue",
   text="TLC proves for every interleaving within small constants that the implementation-shaped model of background.rs refines the abstract drop-oldest FIFO (exactly once, per-producer order, errors isolated); the real queue is bound to it by validating every recorded execution (1-6 OS producer threads, typed/boxed, scripted Ok/Validation/Io results, flush requests, schedule perturbation at hook points) and every TLC-generated schedule replayed under a cooperative controller against QueueAbs with TLC.",
   note="small-scope (<=2 producers, <=3 entries in exhaustive configs); crossbeam ArrayQueue trusted linearizable; conformance samples executions"),
 "C04": dict(design="4/C04", technique="TLC model checking of WakerTracker.tla / BackgroundQueue.tla + exhaustive behaviour replay into the real WakerTracker + trace validation (flush barrier)",
   text="The waker protocol (S1/S2/L1) is model-checked exhaustively and every behaviour up to a depth bound is stepped through the real WakerTracker (hook API); the barrier 'flush done => everything appended before is written and flushed' is an enabling condition of QueueAbs checked by TLC on every recorded/scheduled execution, including never-empty queues and parked writers; completion is observed from the waker callback.",
   note="bounded progress is checked as 'two batches' on the tracker and with a 10 s wall-clock budget on the live queue"),
 "C05": dict(design="4/C05", technique="TLA+ refinement + liveness (TLC, fairness) + trace validation of shutdown/forget executions and TLC schedules",
   text="TLC checks DropEnd => ShutdownComplete (drained, flushed, closed) and, under fairness, that a forgotten queue terminates; recorded executions (drop with slow streams, late appends, forget + last handle dropped) and TLC schedules that place pushes between the writer's last pop and its flag read are validated against QueueAbs.",
   note="termination observed with a 10 s budget; flush intervals <= 20 ms in forget scenarios"),
 "C09": dict(design="4/C09", technique="TLA+ refinement (drop-oldest Lin action) + trace validation of stalled-writer executions with the overflow counter",
   text="The abstract queue's Lin action is the drop-oldest rule; TLC explains every recorded overflow execution (writer stalled inside next at a scripted entry, capacities 1..8, extra appends 0..2*cap, several producers) by a linearization and requires the metrics counter to equal the number of displaced entries; appends that take >5 s or panic are rejected events.",
   note="concurrent overflowing appends are serialized by the harness or kept tiny (search explosion), concurrency x overflow is covered exhaustively in the TLC model with Cap=1"),
}
NOT_YET = {}

def main():
    props = [json.loads(l) for l in open(os.path.join(VERIF, "properties.jsonl"))]
    checks = []
    na = []
    for p in props:
        pid = p["id"]
        if pid in CHECKS:
            c = CHECKS[pid]
            checks.append({
                "property_id": pid,
                "quick_cmd": f"bin/vcheck {pid} --tier quick",
                "thorough_cmd": f"bin/vcheck {pid} --tier thorough",
                "evidence_file": f"evidence/{pid}.json",
                "replay_cmd_template": f"bin/vcheck {pid} --replay {{path}}",
                "engine": "tlc+harness",
                "level_claimed": {"category": c.get("level", MC), "text": c["text"], "design_ref": c["design"]},
                "level_note": c["note"],
                "technique": c["technique"],
            })
        else:
            na.append({"property_id": pid, "reason": NOT_YET.get(pid, "check not built yet in this round (planned, see DESIGN.md section 4); nothing is claimed")})
    m = {
        "version": 1,
        "setup_cmd": "bin/setup",
        "hooks": {
            "guard": "--cfg metrique_verif",
            "enable": "harness/.cargo/config.toml sets rustflags = [\"--cfg\", \"metrique_verif\"]; the harness crate has path dependencies on /repo's crates, so every check rebuilds /repo's working tree with hooks on",
            "baseline_off_cmd": "cd /repo && cargo nextest run --workspace --no-fail-fast --test-threads 8 --offline || cargo test --workspace --no-fail-fast --offline",
            "source_commits": repo_hook_commits(),
            "add_only": True,
        },
        "engines": [
            {"name": "tlc+harness", "path": "bin/vcheck", "serves_properties": sorted(CHECKS),
             "kind_free_text": "TLA+ specifications (spec/), TLC model checking / behaviour generation / trace validation (lib/vlib.py), Rust conformance harness (harness/) built against /repo with --cfg metrique_verif"},
        ],
        "checks": checks,
        "not_applicable": na,
        "notes": "exit 0 = held, 1 = VIOLATION line + replay file, 2 = tool error. VERIF_SEED seeds scenario generation and TLC simulation.",
    }
    with open(os.path.join(VERIF, "MANIFEST.json"), "w") as f:
        json.dump(m, f, indent=1)
    print("checks:", len(checks), "not_applicable:", len(na))

if __name__ == "__main__":
    main()
