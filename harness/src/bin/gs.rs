//! Driver for global entry sinks (C17).
//!
//!   gs replay --behaviours b.ndjson --out results.ndjson --seed N
//!       R direction: TLC behaviours of GlobalSink.tla (GlobalSinkReplay.tla) are executed against
//!       real `global_entry_sink!` globals: two worker OS threads owned by the harness (they keep
//!       their !Send thread-local guards), two real tokio runtimes (entered with `Handle::enter`
//!       or `block_on`, plus tasks spawned onto the runtimes' own worker threads), recording sinks
//!       as destinations (synchronous recorders; the attached sink may be a real BackgroundQueue
//!       over a recording stream).  The oracle is the `out` / `dest` / `got` TLC computed.
//!       Every behaviour starts from a detached global; a behaviour that forgets its attach
//!       handle burns its global type (128 macro-generated types per process; behaviours that
//!       find no fresh type are reported `skipped` and re-run by the check in a new process).
//!   gs race --scenarios s.ndjson --out trace.ndjson --meta meta.ndjson
//!       T direction: appender threads hammer `try_append` while controller threads attach
//!       background queues (vharness RecStream) and drop the attach handles; the trace is
//!       validated by TLC against GlobalSinkTrace.tla.

use metrique_writer::sink::BackgroundQueueBuilder;
use metrique_writer::{
    AnyEntrySink, AttachGlobalEntrySink, BoxEntrySink, Entry, EntryIoStream, EntryWriter, GlobalEntrySink,
    IoStreamError,
};
use metrique_writer_core::global::{AttachHandle, ThreadLocalTestSinkGuard, TokioRuntimeTestSinkGuard};
use metrique_writer_core::sink::FlushWait;
use rand::Rng;
use serde_json::{Value, json};
use std::any::Any;
use std::collections::HashMap;
use std::io::Write;
use std::sync::mpsc;
use std::sync::{Arc, Mutex};
use std::time::{Duration, Instant};
use vharness::stream::{NumEntry, StreamCtl, capture};
use vharness::{trace, util};

const BUDGET: Duration = Duration::from_secs(10);

// ------------------------------------------------------------------------------------------
// the globals under test
// ------------------------------------------------------------------------------------------

/// Entry with an id and a payload (to see that `try_append` hands it back unchanged).
#[derive(Clone, Debug, PartialEq)]
struct GsEntry {
    id: u64,
    payload: String,
}
impl Entry for GsEntry {
    fn write<'a>(&'a self, writer: &mut impl EntryWriter<'a>) {
        writer.value("id", &self.id);
        writer.value("payload", self.payload.as_str());
    }
}
fn entry(id: u64) -> GsEntry {
    GsEntry { id, payload: format!("payload-{id}-\u{00e9}\"") }
}

type AnyHandle = Box<dyn Any + Send + Sync>;
/// payload that makes the handle passed to `attach` 256 KiB large
#[allow(dead_code)]
struct Big([u8; 256 * 1024]);

/// The operations of one `global_entry_sink!` type, as plain function pointers.
struct GOps {
    name: &'static str,
    attach: fn(BoxEntrySink, AnyHandle) -> AttachHandle,
    /// attach with a large by-value handle (boxing it inside `attach` takes a while)
    attach_big: fn(BoxEntrySink, (AnyHandle, Big)) -> AttachHandle,
    try_append: fn(GsEntry) -> Result<(), GsEntry>,
    try_append_num: fn(NumEntry) -> Result<(), NumEntry>,
    append: fn(GsEntry),
    sink: fn() -> BoxEntrySink,
    is_attached: fn() -> bool,
    set_tl: fn(BoxEntrySink) -> ThreadLocalTestSinkGuard,
    set_rt_for: fn(&tokio::runtime::Handle, BoxEntrySink) -> TokioRuntimeTestSinkGuard,
    set_rt_cur: fn(BoxEntrySink) -> TokioRuntimeTestSinkGuard,
}

macro_rules! globals {
    ($($name:ident),*) => {
        $( metrique_writer::sink::global_entry_sink! { $name } )*
        static GLOBALS: &[GOps] = &[
            $( GOps {
                name: stringify!($name),
                attach: |s, h| <$name as AttachGlobalEntrySink>::attach((s, h)),
                attach_big: |s, h| <$name as AttachGlobalEntrySink>::attach((s, h)),
                try_append: |e| <$name as AttachGlobalEntrySink>::try_append(e),
                try_append_num: |e| <$name as AttachGlobalEntrySink>::try_append(e),
                append: |e| <$name as GlobalEntrySink>::append(e),
                sink: || <$name as GlobalEntrySink>::sink(),
                is_attached: || <$name as AttachGlobalEntrySink>::is_attached(),
                set_tl: |s| $name::set_test_sink(s),
                set_rt_for: |h, s| $name::set_test_sink_for_tokio_runtime(h, s),
                set_rt_cur: |s| $name::set_test_sink_on_current_tokio_runtime(s),
            } ),*
        ];
    };
}
globals!(G000, G001, G002, G003, G004, G005, G006, G007, G008, G009, G010, G011, G012, G013, G014, G015, G016, G017, G018, G019, G020, G021, G022, G023, G024, G025, G026, G027, G028, G029, G030, G031, G032, G033, G034, G035, G036, G037, G038, G039, G040, G041, G042, G043, G044, G045, G046, G047, G048, G049, G050, G051, G052, G053, G054, G055, G056, G057, G058, G059, G060, G061, G062, G063, G064, G065, G066, G067, G068, G069, G070, G071, G072, G073, G074, G075, G076, G077, G078, G079, G080, G081, G082, G083, G084, G085, G086, G087, G088, G089, G090, G091, G092, G093, G094, G095, G096, G097, G098, G099, G100, G101, G102, G103, G104, G105, G106, G107, G108, G109, G110, G111, G112, G113, G114, G115, G116, G117, G118, G119, G120, G121, G122, G123, G124, G125, G126, G127);

// ------------------------------------------------------------------------------------------
// recording destinations
// ------------------------------------------------------------------------------------------

#[derive(Default, Debug)]
struct DestLog {
    got: Vec<u64>,
    flushed: usize,
    closed: bool,
    bad_payload: Vec<u64>,
}

fn note(log: &Mutex<DestLog>, e: &impl Entry) {
    let c = capture(e);
    let mut g = log.lock().unwrap();
    let id = c.id.unwrap_or(u64::MAX);
    g.got.push(id);
    if !c.other.iter().any(|n| n == "payload") {
        g.bad_payload.push(id);
    }
}

/// synchronous recorder: what it accepts is delivered at once; its destructor may take a while
/// (`drop_us`): a runtime test sink is destroyed while the global's runtime-sink map is locked
struct RecSink(Arc<Mutex<DestLog>>, u64);
impl Drop for RecSink {
    fn drop(&mut self) {
        if self.1 > 0 {
            std::thread::sleep(Duration::from_micros(self.1));
        }
    }
}
impl AnyEntrySink for RecSink {
    fn append_any(&self, e: impl Entry + Send + 'static) {
        note(&self.0, &e);
        let mut g = self.0.lock().unwrap();
        g.flushed = g.got.len();
    }
    fn flush_async(&self) -> FlushWait {
        FlushWait::ready()
    }
}

/// output stream of a background queue
struct LogStream(Arc<Mutex<DestLog>>);
impl EntryIoStream for LogStream {
    fn next(&mut self, e: &impl Entry) -> Result<(), IoStreamError> {
        note(&self.0, e);
        Ok(())
    }
    fn flush(&mut self) -> std::io::Result<()> {
        let mut g = self.0.lock().unwrap();
        g.flushed = g.got.len();
        Ok(())
    }
}
impl Drop for LogStream {
    fn drop(&mut self) {
        self.0.lock().unwrap().closed = true;
    }
}

/// poll a future on the calling thread, giving up after `budget`
fn block_on_timeout<F: std::future::Future>(fut: F, budget: Duration) -> Option<F::Output> {
    struct ThreadWaker(std::thread::Thread);
    impl std::task::Wake for ThreadWaker {
        fn wake(self: Arc<Self>) {
            self.0.unpark();
        }
    }
    let waker = std::task::Waker::from(Arc::new(ThreadWaker(std::thread::current())));
    let mut cx = std::task::Context::from_waker(&waker);
    let mut fut = std::pin::pin!(fut);
    let deadline = Instant::now() + budget;
    loop {
        if let std::task::Poll::Ready(v) = fut.as_mut().poll(&mut cx) {
            return Some(v);
        }
        let now = Instant::now();
        if now >= deadline {
            return None;
        }
        std::thread::park_timeout(deadline - now);
    }
}

fn block_on_flush(s: &BoxEntrySink) -> bool {
    block_on_timeout(AnyEntrySink::flush_async(s), BUDGET).is_some()
}

// ------------------------------------------------------------------------------------------
// worker threads
// ------------------------------------------------------------------------------------------

#[derive(Default)]
struct WorkerState {
    tl: Option<ThreadLocalTestSinkGuard>,
    /// thread-local guard of the bystander global
    tl2: Option<ThreadLocalTestSinkGuard>,
}
type Job = Box<dyn FnOnce(&mut WorkerState) -> Value + Send>;

struct Worker {
    tx: mpsc::Sender<(Job, mpsc::Sender<Value>)>,
}
impl Worker {
    fn spawn(name: String) -> Worker {
        let (tx, rx) = mpsc::channel::<(Job, mpsc::Sender<Value>)>();
        std::thread::Builder::new()
            .name(name)
            .spawn(move || {
                let mut st = WorkerState::default();
                while let Ok((job, reply)) = rx.recv() {
                    let v = job(&mut st);
                    let _ = reply.send(v);
                }
            })
            .unwrap();
        Worker { tx }
    }
    fn start(&self, job: Job) -> mpsc::Receiver<Value> {
        let (rtx, rrx) = mpsc::channel();
        self.tx.send((job, rtx)).unwrap();
        rrx
    }
    fn run(&self, job: Job) -> Value {
        let rrx = self.start(job);
        match rrx.recv_timeout(Duration::from_secs(30)) {
            Ok(v) => v,
            Err(_) => json!({"out": "hang"}),
        }
    }
}

#[derive(Clone, Copy, PartialEq, Debug)]
enum Flavour {
    Enter,
    BlockOn,
}

/// run `f` on the calling thread in context `c` (0 = outside, r = inside runtime r)
fn in_ctx<T>(rts: &[tokio::runtime::Runtime], c: usize, fl: Flavour, f: impl FnOnce() -> T) -> T {
    if c == 0 {
        f()
    } else if fl == Flavour::Enter {
        let _g = rts[c - 1].handle().enter();
        f()
    } else {
        rts[c - 1].block_on(async move { f() })
    }
}

// ------------------------------------------------------------------------------------------
// replay
// ------------------------------------------------------------------------------------------

struct Sinks {
    logs: Vec<Arc<Mutex<DestLog>>>, // index = model sink id - 1
    is_async: Vec<bool>,
    expected: Vec<Vec<u64>>,
}

struct Lane {
    rts: Arc<Vec<tokio::runtime::Runtime>>,
    workers: Vec<Worker>,
    next_type: usize,
}

/// is a destination visible from the calling thread? (a panic - poisoned lock - counts as yes)
fn attached(g: &'static GOps) -> bool {
    util::catch(|| (g.is_attached)()).unwrap_or(true)
}

/// panics raised by anything but the harness's own unwinding marker (counted by the panic hook)
static FOREIGN_PANICS: std::sync::atomic::AtomicU64 = std::sync::atomic::AtomicU64::new(0);
static PANICS_AT_START: std::sync::atomic::AtomicU64 = std::sync::atomic::AtomicU64::new(0);
fn behaviour_starts() {
    PANICS_AT_START.store(FOREIGN_PANICS.load(std::sync::atomic::Ordering::SeqCst), std::sync::atomic::Ordering::SeqCst);
}
fn counting_panic_hook() {
    std::panic::set_hook(Box::new(|info| {
        let own = info.payload().downcast_ref::<&str>().map(|s| *s == UNWIND_MARK).unwrap_or(false);
        if !own {
            FOREIGN_PANICS.fetch_add(1, std::sync::atomic::Ordering::SeqCst);
        }
    }));
}

const UNWIND_MARK: &str = "harness: unwinding through a scope that holds a guard / an attach handle";

/// Drop `x` normally or by a panic unwinding through the scope that holds it (the panic is the
/// harness's own and is caught here); Err = the drop itself panicked.
fn drop_it<T>(x: T, unwind: bool) -> Result<(), String> {
    // Once the code under test has panicked in this behaviour (e.g. a second attach), one of its locks
    // may be poisoned; a drop that panics WHILE the thread is unwinding aborts the process, which would be
    // a crash of the tooling and not data. From then on drops are made normally (their panic is caught).
    let unwind = unwind && FOREIGN_PANICS.load(std::sync::atomic::Ordering::SeqCst) == PANICS_AT_START.load(std::sync::atomic::Ordering::SeqCst);
    if !unwind {
        return util::catch(|| drop(x));
    }
    match util::catch(move || {
        let _held = x;
        std::panic::panic_any(UNWIND_MARK);
    }) {
        Err(m) if m == UNWIND_MARK => Ok(()),
        Err(m) => Err(m),
        Ok(()) => Ok(()),
    }
}

// ---- bystander: a second global used on the same threads and runtimes ---------------------------
/// The last global type of the process is reserved for the bystander.
fn bystander_ops() -> &'static GOps {
    &GLOBALS[GLOBALS.len() - 1]
}

struct Bystander {
    g: &'static GOps,
    logs: Vec<Arc<Mutex<DestLog>>>,
    expected: Vec<Vec<u64>>,
    handle: Option<AttachHandle>,
    rtg: HashMap<usize, TokioRuntimeTestSinkGuard>,
    /// expected destination per [thread][context] and per runtime worker (TLC's matrix of the last
    /// bystander step; all none once it has been torn down)
    dest: Value,
    wdest: Value,
    next_entry: u64,
    probes: u64,
}

impl Bystander {
    /// execute a TLC history (routing operations only) on the bystander global
    fn setup(lane: &Lane, steps: &[Value], tperm: &[usize], rperm: &[usize], mism: &mut Vec<Value>) -> Option<Bystander> {
        let g = bystander_ops();
        // it must start without any destination in any context (a leak of an earlier behaviour - possible
        // only when the code under test is broken - would make its oracle meaningless)
        for w in &lane.workers {
            let rts = lane.rts.clone();
            let r = w.run(Box::new(move |_| json!((0..=2usize).any(|c| in_ctx(&rts, c, Flavour::Enter, || attached(g))))));
            if r == true {
                return None;
            }
        }
        let mut by = Bystander { g, logs: vec![], expected: vec![], handle: None, rtg: HashMap::new(),
                                 dest: json!([[0, 0, 0], [0, 0, 0]]), wdest: json!([0, 0]), next_entry: 500_000, probes: 0 };
        for (i, st) in steps.iter().enumerate() {
            let op = st["op"].as_str().unwrap();
            let mt = st["t"].as_u64().unwrap() as usize;
            let mc = st["c"].as_u64().unwrap() as usize;
            let real = if mc == 0 { 0 } else { rperm[mc - 1] };
            let mut fresh = || {
                let log = Arc::new(Mutex::new(DestLog::default()));
                by.logs.push(log.clone());
                by.expected.push(vec![]);
                BoxEntrySink::new(RecSink(log, 0))
            };
            let out = match op {
                "Attach" => {
                    let s = fresh();
                    match util::catch(|| (g.attach)(s, Box::new(()))) {
                        Ok(h) => {
                            by.handle = Some(h);
                            "ok"
                        }
                        Err(_) => "panic",
                    }
                }
                "DropHandle" => {
                    let _ = util::catch(|| drop(by.handle.take()));
                    "ok"
                }
                "SetTL" => {
                    let s = fresh();
                    let r = lane.workers[tperm[mt - 1]].run(Box::new(move |w| match util::catch(|| (g.set_tl)(s)) {
                        Ok(guard) => {
                            w.tl2 = Some(guard);
                            json!("ok")
                        }
                        Err(_) => json!("panic"),
                    }));
                    if r == "ok" { "ok" } else { "panic" }
                }
                "DropTL" => {
                    lane.workers[tperm[mt - 1]].run(Box::new(move |w| {
                        let _ = util::catch(|| drop(w.tl2.take()));
                        json!("ok")
                    }));
                    "ok"
                }
                "SetRTFor" => {
                    let s = fresh();
                    let h = lane.rts[real - 1].handle().clone();
                    match util::catch(|| (g.set_rt_for)(&h, s)) {
                        Ok(guard) => {
                            by.rtg.insert(real, guard);
                            "ok"
                        }
                        Err(_) => "panic",
                    }
                }
                "SetRTCur" => {
                    let s = fresh();
                    match in_ctx(&lane.rts, real, Flavour::Enter, || util::catch(|| (g.set_rt_cur)(s))) {
                        Ok(guard) => {
                            by.rtg.insert(real, guard);
                            "ok"
                        }
                        Err(_) => "panic",
                    }
                }
                "DropRT" => {
                    let guard = by.rtg.remove(&real);
                    let _ = util::catch(|| drop(guard));
                    "ok"
                }
                _ => break, // Forget and appends are not part of a bystander history
            };
            if out != st["out"].as_str().unwrap() && !(op == "SetRTCur" && mc == 0) {
                mism.push(json!({"step": i, "op": op, "what": "outcome of the operation on the bystander global (before the history proper)",
                                 "expected": st["out"], "got": out}));
            }
            by.dest = st["dest"].clone();
            by.wdest = st["wdest"].clone();
        }
        Some(by)
    }

    /// drop everything the bystander holds: from now on it has no destination anywhere
    fn teardown(&mut self, lane: &Lane) {
        for w in &lane.workers {
            w.run(Box::new(|w| {
                let _ = util::catch(|| drop(w.tl2.take()));
                json!({})
            }));
        }
        let guards = std::mem::take(&mut self.rtg);
        let _ = util::catch(move || drop(guards));
        let h = self.handle.take();
        let _ = util::catch(move || drop(h));
        self.dest = json!([[0, 0, 0], [0, 0, 0]]);
        self.wdest = json!([0, 0]);
    }

    /// every caller try_appends through the bystander global: its routing must be what its own
    /// history says, whatever has been done to the other global in between
    fn probe(&mut self, lane: &Lane, tperm: &[usize], rperm: &[usize], step: usize, after: &str, mism: &mut Vec<Value>) {
        let g = self.g;
        for t in 1..=2usize {
            let mut plan: Vec<(usize, usize, u64, usize)> = Vec::new();
            for c in 0..=2usize {
                let d = self.dest[t - 1][c].as_u64().unwrap() as usize;
                plan.push((c, if c == 0 { 0 } else { rperm[c - 1] }, self.next_entry, d));
                self.next_entry += 1;
                self.probes += 1;
            }
            let rts = lane.rts.clone();
            let plan2 = plan.clone();
            let r = lane.workers[tperm[t - 1]].run(Box::new(move |_| {
                Value::Array(plan2.iter().map(|(_, real, e, _)| json!(in_ctx(&rts, *real, Flavour::Enter, || do_append(g, "TryAppend", *e)).0)).collect())
            }));
            for (k, (c, _, e, d)) in plan.iter().enumerate() {
                let exp = if *d != 0 { "ok" } else { "back" };
                if *d != 0 {
                    self.expected[*d - 1].push(*e);
                }
                if r[k] != exp {
                    mism.push(json!({"step": step, "after": after, "what": format!("try_append through the OTHER global (bystander, untouched by this operation) by thread {t} in context {c}"),
                                     "entry": e, "expected_dest": d, "expected": exp, "got": r[k]}));
                }
            }
        }
        for r in 1..=2usize {
            let d = self.wdest[r - 1].as_u64().unwrap() as usize;
            let e = self.next_entry;
            self.next_entry += 1;
            self.probes += 1;
            let jh = lane.rts[rperm[r - 1] - 1].spawn(async move { do_append(g, "TryAppend", e).0 });
            let out = futures::executor::block_on(jh).unwrap_or_else(|_| "panic".into());
            let exp = if d != 0 { "ok" } else { "back" };
            if d != 0 {
                self.expected[d - 1].push(e);
            }
            if out != exp {
                mism.push(json!({"step": step, "after": after, "what": format!("try_append through the OTHER global (bystander) by a task on runtime {r}'s worker thread"),
                                 "entry": e, "expected_dest": d, "expected": exp, "got": out}));
            }
        }
        for (k, log) in self.logs.iter().enumerate() {
            let gl = log.lock().unwrap();
            if gl.got != self.expected[k] {
                mism.push(json!({"step": step, "after": after, "what": format!("entries received by sink {} of the OTHER global (bystander)", k + 1),
                                 "expected": self.expected[k], "got": gl.got}));
                self.expected[k] = gl.got.clone();
            }
        }
    }
}

fn kind_name(k: u32) -> &'static str {
    ["Append", "TryAppend", "Sink"][k as usize % 3]
}

/// One append-like call by the calling thread; returns (outcome, handed-back-unchanged)
fn do_append(g: &'static GOps, kind: &str, id: u64) -> (String, bool) {
    match kind {
        "TryAppend" => match util::catch(|| (g.try_append)(entry(id))) {
            Ok(Ok(())) => ("ok".into(), true),
            Ok(Err(e)) => ("back".into(), e == entry(id)),
            Err(_) => ("panic".into(), true),
        },
        "Append" => match util::catch(|| (g.append)(entry(id))) {
            Ok(()) => ("ok".into(), true),
            Err(_) => ("panic".into(), true),
        },
        _ => match util::catch(|| (g.sink)()) {
            Ok(s) => {
                s.append_any(entry(id));
                ("ok".into(), true)
            }
            Err(_) => ("panic".into(), true),
        },
    }
}

fn replay_one(lane: &mut Lane, b: &Value, seed: u64) -> Value {
    behaviour_starts();
    let id = b["id"].as_u64().unwrap_or(0);
    let mut rng = util::rng(seed ^ id.wrapping_mul(0x9E37_79B9_7F4A_7C15));
    // a fresh (detached) global
    let g: &'static GOps = loop {
        if lane.next_type >= GLOBALS.len() - 1 {
            return json!({"id": id, "skipped": true});
        }
        let g = &GLOBALS[lane.next_type];
        if attached(g) {
            lane.next_type += 1;
            continue;
        }
        break g;
    };
    let probe = b["mode"] == "probe";
    let steps = b["steps"].as_array().unwrap();
    let nthreads = 2usize;
    let nrt = 2usize;
    // model thread / runtime -> real worker / runtime
    let tperm: Vec<usize> = if rng.random::<bool>() { vec![0, 1] } else { vec![1, 0] };
    let rperm: Vec<usize> = if rng.random::<bool>() { vec![1, 2] } else { vec![2, 1] };
    let rc = |c: usize| if c == 0 { 0 } else { rperm[c - 1] };
    let mut sinks = Sinks { logs: vec![], is_async: vec![], expected: vec![] };
    let mut mism: Vec<Value> = Vec::new();
    // a second global, set up by its own TLC history on the same threads and runtimes, probed after every
    // step of this history and torn down somewhere in the middle
    let mut by: Option<Bystander> = match b["bystander"].as_array() {
        Some(bs) => Bystander::setup(lane, bs, &tperm, &rperm, &mut mism),
        None => None,
    };
    let by_teardown_at = rng.random_range(0..=steps.len() + 1);
    let mut unwound = 0u64;
    let mut drift: Vec<Value> = Vec::new();
    let mut handle: Arc<Mutex<Option<AttachHandle>>> = Arc::new(Mutex::new(None));
    let mut forgot = false;
    let mut att: usize = 0; // model sink attached now (harness bookkeeping from real outcomes)
    let mut flusher: Option<BoxEntrySink> = None;
    let rtg: Arc<Mutex<HashMap<usize, TokioRuntimeTestSinkGuard>>> = Arc::new(Mutex::new(HashMap::new()));
    let mut next_entry: u64 = 1000;
    let mut nprobes = 0u64;
    let mut flavours = [0u64; 3];
    let mut par_pairs = 0u64;

    // "pardrop": consecutive drops of two runtimes' guards are made at the same time on two threads,
    // the runtime test sinks have slow destructors
    let pardrop = b["pardrop"] == true;
    let mut pre_done: Option<String> = None;
    let new_sink = |sinks: &mut Sinks, is_async: bool, drop_us: u64| -> (BoxEntrySink, Option<AnyHandle>) {
        let log = Arc::new(Mutex::new(DestLog::default()));
        sinks.logs.push(log.clone());
        sinks.is_async.push(is_async);
        sinks.expected.push(vec![]);
        if is_async {
            let (q, h) = BackgroundQueueBuilder::new()
                .flush_interval(Duration::from_millis(5))
                .thread_name(format!("gsq-{id}"))
                .build_boxed(LogStream(log));
            (q, Some(Box::new(h) as AnyHandle))
        } else {
            (BoxEntrySink::new(RecSink(log, drop_us)), None)
        }
    };

    for (i, st) in steps.iter().enumerate() {
        let op = st["op"].as_str().unwrap();
        let mt = st["t"].as_u64().unwrap() as usize;
        let mc = st["c"].as_u64().unwrap() as usize;
        let exp_out = st["out"].as_str().unwrap();
        let exp_s = st["s"].as_u64().unwrap() as usize;
        let fl = if rng.random::<bool>() { Flavour::Enter } else { Flavour::BlockOn };
        let any_w = rng.random_range(0..nthreads);
        let any_c = rng.random_range(0..=nrt);
        let rts = lane.rts.clone();
        let is_install = matches!(op, "Attach" | "SetTL" | "SetRTFor" | "SetRTCur");
        if is_install && exp_s != sinks.logs.len() + 1 {
            return json!({"id": id, "error": format!("step {i}: sink numbering out of sync")});
        }
        let got_out: String = match op {
            "Attach" => {
                let is_async = rng.random_range(0..3) == 0;
                let (s, h) = new_sink(&mut sinks, is_async, 0);
                let keep = s.clone();
                let h: AnyHandle = h.unwrap_or_else(|| Box::new(()));
                let hslot = handle.clone();
                let r = lane.workers[any_w].run(Box::new(move |_| {
                    match in_ctx(&rts, any_c, fl, || util::catch(|| (g.attach)(s, h))) {
                        Ok(ah) => {
                            *hslot.lock().unwrap() = Some(ah);
                            json!({"out": "ok"})
                        }
                        Err(m) => json!({"out": "panic", "msg": m}),
                    }
                }));
                if r["out"] == "ok" {
                    att = exp_s;
                    flusher = if is_async { Some(keep) } else { None };
                }
                r["out"].as_str().unwrap().to_string()
            }
            "DropHandle" => {
                let hslot = handle.clone();
                // the scope that owns the handle is left normally or by a panic (same Detach step)
                let unw = rng.random_range(0..3) == 0;
                unwound += unw as u64;
                let r = lane.workers[any_w].run(Box::new(move |_| {
                    let h = hslot.lock().unwrap().take();
                    match in_ctx(&rts, any_c, Flavour::Enter, || drop_it(h, unw)) {
                        Ok(()) => json!({"out": "ok"}),
                        Err(m) => json!({"out": "panic", "msg": m}),
                    }
                }));
                att = 0;
                flusher = None;
                r["out"].as_str().unwrap().to_string()
            }
            "Forget" => {
                if let Some(h) = handle.lock().unwrap().take() {
                    h.forget();
                }
                forgot = true;
                "ok".into()
            }
            "SetTL" => {
                let (s, _) = new_sink(&mut sinks, false, 0);
                let r = lane.workers[tperm[mt - 1]].run(Box::new(move |w| {
                    match in_ctx(&rts, any_c, fl, || util::catch(|| (g.set_tl)(s))) {
                        Ok(guard) => {
                            w.tl = Some(guard);
                            json!({"out": "ok"})
                        }
                        Err(m) => json!({"out": "panic", "msg": m}),
                    }
                }));
                r["out"].as_str().unwrap().to_string()
            }
            "DropTL" => {
                let unw = rng.random_range(0..3) == 0;
                unwound += unw as u64;
                let r = lane.workers[tperm[mt - 1]].run(Box::new(move |w| {
                    let guard = w.tl.take();
                    match in_ctx(&rts, any_c, fl, || drop_it(guard, unw)) {
                        Ok(()) => json!({"out": "ok"}),
                        Err(m) => json!({"out": "panic", "msg": m}),
                    }
                }));
                r["out"].as_str().unwrap().to_string()
            }
            "SetRTFor" | "SetRTCur" => {
                let slow = if pardrop { [10u64, 100, 1000, 5000, 50_000][rng.random_range(0..5)] } else { 0 };
                let (s, _) = new_sink(&mut sinks, false, slow);
                let real = rc(mc);
                // the two install functions are interchangeable inside the runtime
                let use_cur = op == "SetRTCur" || (real != 0 && rng.random::<bool>());
                let guards = rtg.clone();
                let r = lane.workers[any_w].run(Box::new(move |_| {
                    let res = if use_cur {
                        in_ctx(&rts, real, fl, || util::catch(|| (g.set_rt_cur)(s)))
                    } else {
                        let h = rts[real - 1].handle().clone();
                        in_ctx(&rts, any_c, fl, || util::catch(|| (g.set_rt_for)(&h, s)))
                    };
                    match res {
                        Ok(guard) => {
                            guards.lock().unwrap().insert(real, guard);
                            json!({"out": "ok"})
                        }
                        Err(m) => json!({"out": "panic", "msg": m}),
                    }
                }));
                r["out"].as_str().unwrap().to_string()
            }
            "DropRT" if pre_done.is_some() => pre_done.take().unwrap(),
            "DropRT" if pardrop && i + 1 < steps.len() && steps[i + 1]["op"] == "DropRT" && steps[i + 1]["c"] != st["c"] => {
                // this drop and the next one (another runtime's guard) at the same time
                let bar = Arc::new(std::sync::Barrier::new(2));
                let mut rx = Vec::new();
                for (wi, stp) in [st, &steps[i + 1]].into_iter().enumerate() {
                    let real = rc(stp["c"].as_u64().unwrap() as usize);
                    let guards = rtg.clone();
                    let bar = bar.clone();
                    let off = rng.random_range(0..40u64);
                    rx.push(lane.workers[wi].start(Box::new(move |_| {
                        let guard = guards.lock().unwrap().remove(&real);
                        bar.wait();
                        std::thread::sleep(Duration::from_micros(off));
                        match util::catch(|| drop(guard)) {
                            Ok(()) => json!({"out": "ok"}),
                            Err(m) => json!({"out": "panic", "msg": m}),
                        }
                    })));
                }
                let outs: Vec<String> = rx.iter().map(|r| match r.recv_timeout(Duration::from_secs(30)) {
                    Ok(v) => v["out"].as_str().unwrap().to_string(),
                    Err(_) => "hang".to_string(),
                }).collect();
                pre_done = Some(outs[1].clone());
                par_pairs += 1;
                outs[0].clone()
            }
            "DropRT" => {
                let real = rc(mc);
                let guards = rtg.clone();
                let unw = rng.random_range(0..3) == 0;
                unwound += unw as u64;
                let r = lane.workers[any_w].run(Box::new(move |_| {
                    let guard = guards.lock().unwrap().remove(&real);
                    match in_ctx(&rts, any_c, fl, || drop_it(guard, unw)) {
                        Ok(()) => json!({"out": "ok"}),
                        Err(m) => json!({"out": "panic", "msg": m}),
                    }
                }));
                r["out"].as_str().unwrap().to_string()
            }
            "Append" | "TryAppend" | "Sink" => {
                let e = st["e"].as_u64().unwrap();
                let real = rc(mc);
                let kind = op.to_string();
                let r = lane.workers[tperm[mt - 1]].run(Box::new(move |_| {
                    let (out, same) = in_ctx(&rts, real, fl, || do_append(g, &kind, e));
                    json!({"out": out, "same": same})
                }));
                if exp_s != 0 {
                    sinks.expected[exp_s - 1].push(e);
                }
                if r["same"] == false {
                    mism.push(json!({"step": i, "what": "try_append handed back a different entry", "entry": e}));
                }
                r["out"].as_str().unwrap().to_string()
            }
            other => return json!({"id": id, "error": format!("unknown op {other}")}),
        };
        if got_out != exp_out {
            let rec = json!({"step": i, "op": op, "what": "outcome of the operation", "expected": exp_out, "got": got_out});
            // set_test_sink_on_current_tokio_runtime outside a runtime: the panic is tokio's, not
            // something the property statement speaks about
            if op == "SetRTCur" && mc == 0 { drift.push(rec) } else { mism.push(rec) }
        }
        // ---- probes: every caller appends once; the model says where the entry must arrive
        // (not between two drops made at the same time: the matrix after the second one is the oracle)
        if probe && pre_done.is_none() {
            let dest = &st["dest"];
            let base = rng.random_range(0..3u32);
            for t in 1..=nthreads {
                // one job per thread: its appends in every context
                let mut plan: Vec<(usize, usize, &'static str, u64, Flavour, usize)> = Vec::new();
                for c in 0..=nrt {
                    let d = dest[t - 1][c].as_u64().unwrap() as usize;
                    let kind = kind_name(base + (t + c) as u32 + i as u32);
                    let e = next_entry;
                    next_entry += 1;
                    nprobes += 1;
                    let pfl = if rng.random::<bool>() { Flavour::Enter } else { Flavour::BlockOn };
                    flavours[if c == 0 { 0 } else if pfl == Flavour::Enter { 1 } else { 2 }] += 1;
                    plan.push((c, rc(c), kind, e, pfl, d));
                }
                let rts = lane.rts.clone();
                let plan2 = plan.clone();
                let r = lane.workers[tperm[t - 1]].run(Box::new(move |_| {
                    let res: Vec<Value> = plan2
                        .iter()
                        .map(|(_, real, kind, e, pfl, _)| {
                            let (out, same) = in_ctx(&rts, *real, *pfl, || do_append(g, kind, *e));
                            json!({"out": out, "same": same})
                        })
                        .collect();
                    Value::Array(res)
                }));
                for (k, (c, _, kind, e, _, d)) in plan.iter().enumerate() {
                    let exp = if *d != 0 { "ok" } else if *kind == "TryAppend" { "back" } else { "panic" };
                    if *d != 0 {
                        sinks.expected[*d - 1].push(*e);
                    }
                    if r[k]["out"] != exp {
                        mism.push(json!({"step": i, "after": op, "what": format!("{kind} by thread {t} in context {c}"),
                                         "entry": e, "expected_dest": d, "expected": exp, "got": r[k]["out"]}));
                    }
                    if r[k]["same"] == false {
                        mism.push(json!({"step": i, "what": "try_append handed back a different entry", "entry": e}));
                    }
                }
            }
            // tasks on the runtimes' own worker threads (never a thread-local sink there)
            for r in 1..=nrt {
                let d = st["wdest"][r - 1].as_u64().unwrap() as usize;
                let kind = kind_name(base + r as u32);
                let e = next_entry;
                next_entry += 1;
                nprobes += 1;
                let real = rc(r);
                let jh = lane.rts[real - 1].spawn(async move { do_append(g, kind, e) });
                let (out, same) = match futures::executor::block_on(jh) {
                    Ok(x) => x,
                    Err(_) => ("panic".into(), true),
                };
                let exp = if d != 0 { "ok" } else if kind == "TryAppend" { "back" } else { "panic" };
                if d != 0 {
                    sinks.expected[d - 1].push(e);
                }
                if out != exp || !same {
                    mism.push(json!({"step": i, "after": op, "what": format!("{kind} by a task on runtime {r}'s worker thread"),
                                     "entry": e, "expected_dest": d, "expected": exp, "got": out}));
                }
            }
        }
        // ---- the other global is not affected by any of this
        if let Some(by) = by.as_mut() {
            if i == by_teardown_at {
                by.teardown(lane);
            }
            if pre_done.is_none() {
                by.probe(lane, &tperm, &rperm, i, op, &mut mism);
            }
        }
        // ---- where did the entries arrive? (exactly one destination, the expected one)
        if let Some(f) = &flusher {
            if !block_on_flush(f) {
                mism.push(json!({"step": i, "what": "flush of the attached queue did not complete within 10 s"}));
            }
        }
        for (k, log) in sinks.logs.iter().enumerate() {
            let gl = log.lock().unwrap();
            if gl.got != sinks.expected[k] {
                mism.push(json!({"step": i, "after": op, "what": format!("entries received by sink {}", k + 1),
                                 "expected": sinks.expected[k], "got": gl.got,
                                 "note": if op == "DropHandle" && sinks.is_async[k] { "detached queue: everything it accepted must be in its stream when the handle drop returns" } else { "" }}));
                // resynchronise so that one lost entry is reported once
                sinks.expected[k] = gl.got.clone();
            }
            if !gl.bad_payload.is_empty() {
                mism.push(json!({"step": i, "what": format!("sink {} received altered entries", k + 1), "entries": gl.bad_payload}));
            }
            if sinks.is_async[k] && att != k + 1 && op == "DropHandle" && exp_s == k + 1 && (gl.flushed != gl.got.len() || !gl.closed) {
                mism.push(json!({"step": i, "what": format!("detached sink {}: state of its stream when the handle drop returned", k + 1),
                                 "expected": "everything written is flushed, stream closed",
                                 "got": format!("written {}, flushed {}, closed {}", gl.got.len(), gl.flushed, gl.closed)}));
            }
        }
        if mism.len() > 8 {
            break;
        }
    }
    // ---- walk mode: final contents as computed by TLC
    if !probe && mism.is_empty() {
        if let Some(got) = b["got"].as_array() {
            for (k, log) in sinks.logs.iter().enumerate() {
                let model: Vec<u64> = got[k].as_array().map(|a| a.iter().map(|x| x.as_u64().unwrap()).collect()).unwrap_or_default();
                let gl = log.lock().unwrap();
                if gl.got != model {
                    mism.push(json!({"step": steps.len(), "what": format!("final contents of sink {}", k + 1), "expected": model, "got": gl.got}));
                }
            }
        }
    }
    // ---- clean up: back to a detached global without test sinks
    for w in &lane.workers {
        w.run(Box::new(|w| {
            let _ = util::catch(|| drop(w.tl.take()));
            json!({})
        }));
    }
    let _ = util::catch(|| rtg.lock().unwrap().clear());
    let h = handle.lock().unwrap().take();
    let _ = util::catch(|| drop(h));
    handle = Arc::new(Mutex::new(None));
    let _ = &handle;
    // dropping this global's guards and handle must not have touched the other global either
    let mut by_probes = 0u64;
    if let Some(mut by) = by.take() {
        by.probe(lane, &tperm, &rperm, steps.len(), "cleanup", &mut mism);
        by.teardown(lane);
        by.probe(lane, &tperm, &rperm, steps.len(), "bystander teardown", &mut mism);
        by_probes = by.probes;
    }
    // with every guard and the handle gone no caller may see a destination any more
    let mut leak: Vec<String> = Vec::new();
    if !forgot {
        for (wi, w) in lane.workers.iter().enumerate() {
            let rts = lane.rts.clone();
            let r = w.run(Box::new(move |_| {
                let seen: Vec<bool> = (0..=2usize)
                    .map(|c| in_ctx(&rts, c, Flavour::Enter, || util::catch(|| (g.is_attached)()).unwrap_or(true)))
                    .collect();
                json!(seen)
            }));
            for c in 0..=2usize {
                if r[c] == true {
                    leak.push(format!("worker thread {} in context {c}", wi + 1));
                }
            }
        }
        if !leak.is_empty() {
            mism.push(json!({"step": steps.len(), "what": "after dropping every guard and the attach handle the global still has a destination",
                             "expected": [], "got": leak}));
        }
    }
    if forgot || !leak.is_empty() || !mism.is_empty() || attached(g) {
        lane.next_type += 1;
    }
    json!({"id": id, "global": g.name, "mismatches": mism, "drift": drift, "probes": nprobes, "steps": steps.len(),
           "ctx_flavours": flavours, "concurrent_guard_drops": par_pairs, "bystander_probes": by_probes, "drops_by_unwinding": unwound, "sinks": sinks.logs.len(), "async_sinks": sinks.is_async.iter().filter(|x| **x).count()})
}

fn cmd_replay(a: &HashMap<String, String>) {
    counting_panic_hook();
    let beh = util::read_ndjson(util::arg_str(a, "behaviours", ""));
    let seed = util::arg_u64(a, "seed", 1);
    let mut out = std::io::BufWriter::new(std::fs::File::create(util::arg_str(a, "out", "")).unwrap());
    let rts: Vec<tokio::runtime::Runtime> = (0..2)
        .map(|i| {
            tokio::runtime::Builder::new_multi_thread()
                .worker_threads(1)
                .thread_name(format!("gs-rt{}", i + 1))
                .enable_all()
                .build()
                .unwrap()
        })
        .collect();
    let mut lane = Lane {
        rts: Arc::new(rts),
        workers: (0..2).map(|i| Worker::spawn(format!("gs-w{}", i + 1))).collect(),
        next_type: 0,
    };
    for b in &beh {
        let r = replay_one(&mut lane, b, seed);
        serde_json::to_writer(&mut out, &r).unwrap();
        out.write_all(b"\n").unwrap();
    }
    out.flush().unwrap();
    // background queues of forgotten handles keep running: leave without joining anything
    std::process::exit(0);
}

// ------------------------------------------------------------------------------------------
// race: try_append against attach / handle drop (T direction)
// ------------------------------------------------------------------------------------------

#[derive(serde::Deserialize, Clone, Debug)]
struct Ctl {
    /// sink id = stream tag, 1..=3
    sink: usize,
    delay_us: u64,
    hold_us: u64,
    /// the scope owning the attach handle is left by a panic (caught) instead of normally
    #[serde(default)]
    unwind: bool,
    /// pass a large handle value to attach
    #[serde(default)]
    big: bool,
}

#[derive(serde::Deserialize, Clone, Debug)]
struct Race {
    id: u64,
    appenders: u64,
    n: u64,
    #[serde(default)]
    pace_us: u64,
    ctls: Vec<Ctl>,
    #[serde(default)]
    permille: u32,
    #[serde(default)]
    max_us: u32,
    #[serde(default)]
    seed: u64,
    #[serde(default)]
    flush_us: u64,
    #[serde(default)]
    slow_us: u64,
    /// observer threads calling is_attached() (obs_n calls each, obs_pace_us apart)
    #[serde(default)]
    observers: u64,
    #[serde(default)]
    obs_n: u64,
    #[serde(default)]
    obs_pace_us: u64,
}

const TAGS: [&str; 3] = ["1", "2", "3"];

// Schedule perturbation for the race runs: only the point between destination lookup and append
// (`gs.lookup`, inside `try_append`) is delayed.  Delaying the queue's own points as well would slow
// the handle drop down more than it widens the window this check is about.
static P_PERMILLE: std::sync::atomic::AtomicU32 = std::sync::atomic::AtomicU32::new(0);
static P_MAX_US: std::sync::atomic::AtomicU32 = std::sync::atomic::AtomicU32::new(0);
static P_SEED: std::sync::atomic::AtomicU64 = std::sync::atomic::AtomicU64::new(0);
thread_local! { static P_RNG: std::cell::Cell<u64> = const { std::cell::Cell::new(0) }; }

fn install_lookup_perturbation() {
    use std::sync::atomic::Ordering::Relaxed;
    metrique_writer_core::verif::install(Some(Arc::new(|name, _args| {
        if name != "gs.lookup" {
            return;
        }
        let permille = P_PERMILLE.load(Relaxed);
        if permille == 0 {
            return;
        }
        let r = P_RNG.with(|c| {
            let mut x = c.get();
            if x == 0 {
                use std::hash::{Hash, Hasher};
                let mut h = std::collections::hash_map::DefaultHasher::new();
                std::thread::current().id().hash(&mut h);
                x = (P_SEED.load(Relaxed) ^ h.finish()) | 1;
            }
            x ^= x << 13;
            x ^= x >> 7;
            x ^= x << 17;
            c.set(x);
            x
        });
        if (r % 1000) < permille as u64 {
            let us = (r >> 24) % (P_MAX_US.load(Relaxed).max(1) as u64);
            std::thread::sleep(Duration::from_micros(us));
        }
    })));
}

fn run_race(sc: &Race, type_idx: &mut usize) {
    behaviour_starts();
    let g: &'static GOps = loop {
        let g = &GLOBALS[*type_idx % GLOBALS.len()];
        if !attached(g) {
            break g;
        }
        *type_idx += 1;
    };
    trace::set_epoch(sc.id);
    trace::ev(json!({"ev": "Reset", "scenario": sc.id as i64}));
    P_SEED.store(sc.seed, std::sync::atomic::Ordering::Relaxed);
    P_MAX_US.store(sc.max_us, std::sync::atomic::Ordering::Relaxed);
    P_PERMILLE.store(sc.permille, std::sync::atomic::Ordering::Relaxed);
    let start = Arc::new(std::sync::Barrier::new(sc.appenders as usize + sc.ctls.len() + sc.observers as usize));
    let mut threads = Vec::new();
    for o in 1..=sc.observers {
        let start = start.clone();
        let (n, pace) = (sc.obs_n, sc.obs_pace_us);
        threads.push(std::thread::spawn(move || {
            start.wait();
            let p = 100 + o as i64;
            for _ in 0..n {
                trace::evi("ObsStart", &[("p", p)]);
                match util::catch(|| (g.is_attached)()) {
                    Ok(v) => trace::evi("ObsEnd", &[("p", p), ("v", v as i64)]),
                    Err(_) => trace::evi("Panic", &[("p", p)]),
                };
                std::thread::sleep(Duration::from_micros(pace));
            }
        }));
    }
    for p in 1..=sc.appenders {
        let start = start.clone();
        let (n, pace) = (sc.n, sc.pace_us);
        threads.push(std::thread::spawn(move || {
            start.wait();
            for i in 1..=n {
                let e = p * 1000 + i;
                trace::evi("TryStart", &[("p", p as i64), ("e", e as i64)]);
                match util::catch(|| (g.try_append_num)(NumEntry(e))) {
                    Ok(Ok(())) => trace::evi("TryEnd", &[("p", p as i64), ("e", e as i64), ("ok", 1)]),
                    Ok(Err(back)) => {
                        if back.0 != e {
                            trace::evi("Altered", &[("p", p as i64), ("e", e as i64)]);
                        }
                        trace::evi("TryEnd", &[("p", p as i64), ("e", e as i64), ("ok", 0)])
                    }
                    Err(_) => trace::evi("Panic", &[("p", p as i64), ("e", e as i64)]),
                };
                if pace > 0 {
                    std::thread::sleep(Duration::from_micros(pace));
                }
            }
        }));
    }
    for c in sc.ctls.iter().cloned() {
        let start = start.clone();
        let flush_us = sc.flush_us.max(1);
        let slow = sc.slow_us;
        let scid = sc.id;
        threads.push(std::thread::spawn(move || {
            let ctl = StreamCtl::tagged(TAGS[c.sink - 1]);
            ctl.slow(slow);
            let (q, h) = BackgroundQueueBuilder::new()
                .flush_interval(Duration::from_micros(flush_us))
                .thread_name(format!("gsr-{scid}-{}", c.sink))
                .build_boxed(ctl.stream());
            start.wait();
            std::thread::sleep(Duration::from_micros(c.delay_us));
            let s = c.sink as i64;
            trace::evi("AttachStart", &[("s", s)]);
            let r = if c.big {
                let big = (Box::new(h) as AnyHandle, Big([7u8; 256 * 1024]));
                util::catch(|| (g.attach_big)(q, big))
            } else {
                util::catch(|| (g.attach)(q, Box::new(h)))
            };
            match r {
                Err(_) => {
                    trace::evi("AttachEnd", &[("s", s), ("ok", 0)]);
                }
                Ok(handle) => {
                    trace::evi("AttachEnd", &[("s", s), ("ok", 1)]);
                    std::thread::sleep(Duration::from_micros(c.hold_us));
                    trace::evi("DetachStart", &[("s", s)]);
                    let (tx, rx) = mpsc::channel();
                    let unw = c.unwind;
                    let t = std::thread::spawn(move || {
                        let r = drop_it(handle, unw);
                        let _ = tx.send(r.is_ok());
                    });
                    match rx.recv_timeout(BUDGET) {
                        Ok(true) => {
                            trace::evi("DetachEnd", &[("s", s)]);
                            let _ = t.join();
                        }
                        Ok(false) => {
                            trace::evi("Panic", &[("s", s)]);
                        }
                        Err(_) => {
                            trace::evi("Timeout", &[("s", s)]);
                        }
                    }
                }
            }
        }));
    }
    for t in threads {
        let _ = t.join();
    }
    trace::evi("Quiesce", &[]);
    P_PERMILLE.store(0, std::sync::atomic::Ordering::Relaxed);
    if attached(g) {
        *type_idx += 1;
    }
}

/// search hint: every TryStart carries the result its call reported
fn annotate(evs: &mut [Value]) {
    let mut res: HashMap<i64, i64> = HashMap::new();
    for e in evs.iter() {
        if e["ev"] == "TryEnd" {
            res.insert(e["e"].as_i64().unwrap(), e["ok"].as_i64().unwrap());
        }
    }
    for e in evs.iter_mut() {
        if e["ev"] == "TryStart" {
            let h = res.get(&e["e"].as_i64().unwrap()).copied().unwrap_or(0);
            e["h"] = json!(h);
        }
    }
}

fn cmd_race(a: &HashMap<String, String>) {
    counting_panic_hook();
    install_lookup_perturbation();
    let scen = util::read_ndjson(util::arg_str(a, "scenarios", ""));
    let mut out = std::io::BufWriter::new(std::fs::File::create(util::arg_str(a, "out", "")).unwrap());
    let mut meta = std::io::BufWriter::new(std::fs::File::create(util::arg_str(a, "meta", "")).unwrap());
    let mut line = 1usize;
    let mut type_idx = 0usize;
    for v in scen {
        let sc: Race = serde_json::from_value(v.clone()).unwrap();
        let t = Instant::now();
        run_race(&sc, &mut type_idx);
        let mut evs = trace::take();
        annotate(&mut evs);
        trace::append_ndjson(&mut out, &evs).unwrap();
        let oks = evs.iter().filter(|e| e["ev"] == "TryEnd" && e["ok"] == 1).count();
        let errs = evs.iter().filter(|e| e["ev"] == "TryEnd" && e["ok"] == 0).count();
        let m = json!({"id": sc.id, "first_line": line, "last_line": line + evs.len() - 1, "events": evs.len(),
                       "ok": oks, "err": errs, "wall_ms": t.elapsed().as_millis() as u64, "scenario": v});
        line += evs.len();
        serde_json::to_writer(&mut meta, &m).unwrap();
        meta.write_all(b"\n").unwrap();
    }
    out.flush().unwrap();
    meta.flush().unwrap();
    std::process::exit(0);
}

fn main() {
    let (cmd, a) = util::args();
    match cmd.as_str() {
        "replay" => cmd_replay(&a),
        "race" => cmd_race(&a),
        _ => {
            eprintln!("usage: gs replay|race ...");
            std::process::exit(2);
        }
    }
}
