//! Shared by the C14 (`emfh`) and C16 (`vw`) drivers: the catalogue of entry *kinds* of
//! spec/emf/EmfHistory.tla as real `Entry` values, the formatter configurations named there,
//! a scripted RNG, a writer that fails after a byte budget, and the order-insensitive
//! comparison of formatter output (multiset of lines, members of an object sorted).

use crate::json::{self, J};
use metrique_writer::format::{FormatExt, FormattedEntryIoStream};
use metrique_writer::stream::{EntryIoStreamExt, MergeGlobalDimensions, MergeGlobals};
use metrique_writer_core::config::MetriqueValidationError;
use metrique_writer_core::format::Format;
use metrique_writer_core::sample::SampledFormat;
use metrique_writer_core::unit::NegativeScale;
use metrique_writer_core::{
    Entry, EntryIoStream, EntryWriter, IoStreamError, MetricFlags, Observation, Unit,
    ValidationError, Value, ValueWriter,
};
use metrique_writer_format_emf::{
    AllowSplitEntries, Emf, EntryDimensions, HighStorageResolutionCtor, MetricDefinition,
    MetricDirective, NoMetricCtor, SampledEmf,
};
use metrique_writer::value::FlagConstructor;
use std::borrow::Cow;
use std::cell::RefCell;
use std::collections::HashSet;
use std::io;
use std::rc::Rc;
use std::sync::Arc;
use std::time::{Duration, SystemTime};

// ------------------------------------------------------------------------------------------
// kinds
// ------------------------------------------------------------------------------------------

pub const KIND_NAMES: &[&str] = &[
    "scalar", "hist", "dupField", "emptyName", "awsName", "missingDim", "dimIsMetric", "dimsNoSplit",
    "twoTs", "errValue", "edimsTwice", "split1", "split2", "entryDims", "unroutable", "sampled",
    "badRate", "allNaN", "huge", "entryDims2", "edimsMissing", "edimsMissing2", "edimsMetric",
];

/// multi-megabyte payload shared by all `huge` entries
pub struct Big {
    pub blob: String,
    pub many: Vec<Observation>,
}

impl Big {
    pub fn new() -> Arc<Big> {
        // 1.2 MiB string with characters that need escaping sprinkled in
        let mut blob = String::with_capacity(1_300_000);
        let mut i = 0u32;
        while blob.len() < 1_250_000 {
            blob.push_str("abcdefghijklmnopqrstuvwxyz0123456789");
            if i % 7 == 0 {
                blob.push('"');
            }
            if i % 11 == 0 {
                blob.push('\\');
            }
            if i % 101 == 0 {
                blob.push('\u{1f}');
            }
            i += 1;
        }
        // counts buffer > 1 MiB (20-digit counts) and fields buffer > 1 MiB
        let mut many = Vec::new();
        for k in 0..56_000u64 {
            let occ = 10_000_000_000_000_000_000u64 + k;
            many.push(Observation::Repeated {
                total: occ as f64 * 1.5,
                occurrences: occ,
            });
        }
        for k in 0..2_000u64 {
            many.push(Observation::Unsigned(1_000_000 + k));
        }
        Arc::new(Big { blob, many })
    }
}

pub struct Met<'x> {
    pub obs: &'x [Observation],
    pub unit: Unit,
    pub dims: &'x [(&'x str, &'x str)],
    /// 0 none, 1 high resolution, 2 no-metric
    pub flags: u8,
}

impl Value for Met<'_> {
    fn write(&self, writer: impl ValueWriter) {
        let flags = match self.flags {
            1 => HighStorageResolutionCtor::construct(),
            2 => NoMetricCtor::construct(),
            _ => MetricFlags::empty(),
        };
        writer.metric(self.obs.iter().copied(), self.unit, self.dims.iter().copied(), flags)
    }
}

pub struct ErrVal;
impl Value for ErrVal {
    fn write(&self, writer: impl ValueWriter) {
        writer.error(ValidationError::invalid("scripted value error"))
    }
}

const MS: Unit = Unit::Second(NegativeScale::Milli);

/// One entry of the catalogue. `salt` makes the member values of every position of a sequence
/// different, so that data left over from an earlier entry of the *same* kind is visible too.
pub struct KEntry {
    pub kind: String,
    pub salt: u64,
    op: String,
    extra: String,
    msg: String,
    ts: SystemTime,
    split: AllowSplitEntries,
    /// the EntryDimensions config lives INSIDE the entry (as `#[metrics(emf::dimension_sets)]`
    /// generates it), always in this one field: its value depends on the kind, its address only on
    /// where the entry is stored - entries built one after the other into the same slot have
    /// different configs at the same address
    edims: EntryDimensions,
    shard: String,
    big: Arc<Big>,
}

impl KEntry {
    pub fn new(kind: &str, salt: u64, big: &Arc<Big>) -> KEntry {
        assert!(KIND_NAMES.contains(&kind) || kind == "large", "unknown entry kind {kind}");
        KEntry {
            kind: kind.to_string(),
            salt,
            op: format!("op-{salt}"),
            extra: format!("x\"{salt}"),
            msg: format!("validation failed somewhere ({salt})"),
            ts: SystemTime::UNIX_EPOCH + Duration::from_millis(1_700_000_000_000 + salt * 1000 + 7),
            split: AllowSplitEntries::new(),
            edims: EntryDimensions::new(Cow::Owned(vec![Cow::Owned(vec![Cow::Borrowed(
                if kind == "entryDims2" || kind == "edimsMissing2" { "Shard" } else { "Extra" },
            )])])),
            shard: format!("shard-{salt}"),
            big: big.clone(),
        }
    }

    /// sample rate with which the entry is handed to a sampled formatter
    pub fn rate(&self) -> Option<f32> {
        match self.kind.as_str() {
            "sampled" => Some(0.3),
            "badRate" => Some(0.0),
            _ => None,
        }
    }

    /// (address of the EntryDimensions config, its value) if the kind hands one to the formatter
    pub fn entry_dimensions_config(&self) -> Option<(usize, &'static str)> {
        match self.kind.as_str() {
            "entryDims" | "edimsTwice" | "edimsMissing" | "edimsMetric" => Some((&self.edims as *const EntryDimensions as usize, "X")),
            "entryDims2" | "edimsMissing2" => Some((&self.edims as *const EntryDimensions as usize, "Y")),
            _ => None,
        }
    }

    /// the entry has no timestamp of its own (the formatter uses the current time)
    pub fn no_timestamp(&self) -> bool {
        self.kind == "unroutable"
    }
}

fn u(v: u64) -> Observation {
    Observation::Unsigned(v)
}
fn fl(v: f64) -> Observation {
    Observation::Floating(v)
}

impl Entry for KEntry {
    fn write<'a>(&'a self, w: &mut impl EntryWriter<'a>) {
        let s = self.salt;
        let none: &[(&str, &str)] = &[];
        let k1v1: &[(&str, &str)] = &[("k1", "v1")];
        let k1v2: &[(&str, &str)] = &[("k1", "v2")];
        let lat = [u(5 + s)];
        let latency = Met { obs: &lat, unit: MS, dims: none, flags: 0 };
        match self.kind.as_str() {
            "scalar" | "badRate" => {
                w.timestamp(self.ts);
                w.value("Operation", self.op.as_str());
                w.value("Latency", &latency);
                w.value("Size", &Met { obs: &[fl(1.5 + s as f64)], unit: Unit::None, dims: none, flags: 0 });
            }
            "hist" => {
                w.timestamp(self.ts);
                w.value("Operation", self.op.as_str());
                let obs = [u(1 + s), fl(2.5), Observation::Repeated { total: 10.0, occurrences: 4 }];
                w.value("Latency", &Met { obs: &obs, unit: MS, dims: none, flags: 1 });
                // a histogram that is present in the JSON but not declared (early return in write_metric)
                w.value("Hidden", &Met { obs: &[u(s), u(s + 1)], unit: Unit::Count, dims: none, flags: 2 });
            }
            "dupField" => {
                w.timestamp(self.ts);
                w.value("Operation", self.op.as_str());
                w.value("Latency", &latency);
                w.value("Latency", &Met { obs: &[u(2)], unit: MS, dims: none, flags: 0 });
            }
            "emptyName" => {
                w.timestamp(self.ts);
                w.value("Operation", self.op.as_str());
                w.value("", &Met { obs: &[u(1)], unit: Unit::None, dims: none, flags: 0 });
                w.value("Latency", &latency);
            }
            "awsName" => {
                w.timestamp(self.ts);
                w.value("Operation", self.op.as_str());
                w.value("_aws", &Met { obs: &[u(1)], unit: Unit::None, dims: none, flags: 0 });
                w.value("Latency", &latency);
            }
            "missingDim" => {
                w.timestamp(self.ts);
                w.value("Latency", &latency);
            }
            "dimIsMetric" => {
                w.timestamp(self.ts);
                w.value("Operation", &Met { obs: &[u(7 + s)], unit: Unit::None, dims: none, flags: 0 });
                w.value("Latency", &latency);
            }
            "dimsNoSplit" => {
                w.timestamp(self.ts);
                w.value("Operation", self.op.as_str());
                w.value("Latency", &Met { obs: &lat, unit: MS, dims: k1v1, flags: 0 });
            }
            "twoTs" => {
                w.timestamp(self.ts);
                w.timestamp(self.ts + Duration::from_secs(1));
                w.value("Operation", self.op.as_str());
                w.value("Latency", &latency);
            }
            "errValue" => {
                w.timestamp(self.ts);
                w.value("Operation", self.op.as_str());
                w.value("Latency", &Met { obs: &[u(1 + s), u(2)], unit: MS, dims: none, flags: 0 });
                w.value("Bad", &ErrVal);
            }
            "edimsTwice" => {
                w.config(&self.edims);
                w.config(&self.edims);
                w.timestamp(self.ts);
                w.value("Operation", self.op.as_str());
                w.value("Extra", self.extra.as_str());
                w.value("Latency", &latency);
            }
            "split1" => {
                w.config(&self.split);
                w.timestamp(self.ts);
                w.value("Operation", self.op.as_str());
                w.value("Latency", &latency);
                w.value("PerKey", &Met { obs: &[u(3 + s)], unit: Unit::Count, dims: if s % 2 == 0 { k1v1 } else { k1v2 }, flags: 0 });
            }
            "split2" => {
                w.config(&self.split);
                w.timestamp(self.ts);
                w.value("Operation", self.op.as_str());
                w.value("A", &Met { obs: &[u(1 + s), u(2)], unit: MS, dims: k1v1, flags: 0 });
                let b = [fl(0.25), Observation::Repeated { total: 9.0, occurrences: 3 + s }];
                w.value("B", &Met { obs: &b, unit: Unit::None, dims: k1v2, flags: 1 });
                w.value("C", &Met { obs: &[u(s)], unit: Unit::Count, dims: k1v1, flags: 0 });
            }
            "entryDims" => {
                w.config(&self.edims);
                w.timestamp(self.ts);
                w.value("Operation", self.op.as_str());
                w.value("Extra", self.extra.as_str());
                w.value("Latency", &latency);
            }
            "entryDims2" => {
                w.config(&self.edims);
                w.timestamp(self.ts);
                w.value("Operation", self.op.as_str());
                w.value("Shard", self.shard.as_str());
                w.value("Latency", &latency);
            }
            // entry dimensions declared (same values as entryDims / entryDims2), the member they
            // name is absent: rejected only because config() registers the name for THIS entry
            "edimsMissing" | "edimsMissing2" => {
                w.config(&self.edims);
                w.timestamp(self.ts);
                w.value("Operation", self.op.as_str());
                w.value("Latency", &latency);
            }
            // ... or is written as a metric
            "edimsMetric" => {
                w.config(&self.edims);
                w.timestamp(self.ts);
                w.value("Operation", self.op.as_str());
                w.value("Extra", &Met { obs: &[u(9 + s)], unit: Unit::None, dims: none, flags: 0 });
                w.value("Latency", &latency);
            }
            "sampled" => {
                w.timestamp(self.ts);
                w.value("Operation", self.op.as_str());
                w.value("Latency", &Met { obs: &[u(s), fl(0.5)], unit: MS, dims: none, flags: 0 });
                w.value("Count", &Met { obs: &[u(1)], unit: Unit::Count, dims: none, flags: 0 });
            }
            "allNaN" => {
                w.timestamp(self.ts);
                w.value("Operation", self.op.as_str());
                w.value("Gone", &Met { obs: &[fl(f64::NAN), fl(f64::NAN)], unit: MS, dims: none, flags: 0 });
                w.value("Gone2", &Met { obs: &[fl(f64::NAN)], unit: Unit::None, dims: none, flags: 0 });
                w.value("Mid", &Met { obs: &[u(1 + s), fl(f64::NAN), u(3)], unit: Unit::None, dims: none, flags: 0 });
                // the last observation is skipped (on trees with defect D1 this line is not valid JSON;
                // it is then compared as raw text, equal for a long-lived and a fresh formatter)
                w.value("Tail", &Met { obs: &[u(2 + s), fl(f64::NAN)], unit: Unit::None, dims: none, flags: 0 });
                w.value("Latency", &latency);
            }
            "huge" => {
                w.timestamp(self.ts);
                w.value("Operation", self.op.as_str());
                w.value("Blob", self.big.blob.as_str());
                w.value("Many", &Met { obs: &self.big.many, unit: Unit::Count, dims: none, flags: 0 });
                w.value("Latency", &latency);
            }
            "large" => {
                // a record of some 25 kB (C16: large but still cheap to model byte by byte)
                w.timestamp(self.ts);
                w.value("Operation", self.op.as_str());
                w.value("Blob", &self.big.blob[..8_000]);
                w.value("Many", &Met { obs: &self.big.many[..600], unit: Unit::Count, dims: none, flags: 0 });
                w.value("Latency", &latency);
            }
            "unroutable" => {
                // formatted through MetriqueValidationError, see `with_entry`
                unreachable!()
            }
            other => panic!("unknown kind {other}"),
        }
    }
}

// ------------------------------------------------------------------------------------------
// scripted RNG and failing writer
// ------------------------------------------------------------------------------------------

/// Deterministic RNG whose output depends only on (seed, position); the position can be read and
/// set so that a fresh formatter is given exactly the draws the long-lived one gets.
#[derive(Clone)]
pub struct ScriptRng {
    seed: u64,
    pos: Rc<RefCell<u64>>,
}

impl ScriptRng {
    pub fn new(seed: u64, pos: u64) -> Self {
        ScriptRng { seed, pos: Rc::new(RefCell::new(pos)) }
    }
    pub fn pos(&self) -> u64 {
        *self.pos.borrow()
    }
    fn draw(&self) -> u64 {
        let mut p = self.pos.borrow_mut();
        *p += 1;
        // splitmix64 of (seed, position)
        let mut z = self.seed.wrapping_add(p.wrapping_mul(0x9E37_79B9_7F4A_7C15));
        z = (z ^ (z >> 30)).wrapping_mul(0xBF58_476D_1CE4_E5B9);
        z = (z ^ (z >> 27)).wrapping_mul(0x94D0_49BB_1331_11EB);
        z ^ (z >> 31)
    }
}

impl rand::RngCore for ScriptRng {
    fn next_u32(&mut self) -> u32 {
        (self.draw() >> 32) as u32
    }
    fn next_u64(&mut self) -> u64 {
        self.draw()
    }
    fn fill_bytes(&mut self, dst: &mut [u8]) {
        for c in dst.chunks_mut(8) {
            let v = self.draw().to_le_bytes();
            c.copy_from_slice(&v[..c.len()]);
        }
    }
}

#[derive(Default)]
pub struct FailState {
    pub buf: Vec<u8>,
    /// total number of bytes accepted before every write fails hard
    pub limit: Option<usize>,
    pub calls: usize,
}

/// `io::Write` handle shared between the driver and a formatter / stream that owns its output.
#[derive(Clone, Default)]
pub struct SharedW(pub Rc<RefCell<FailState>>);

impl SharedW {
    pub fn reset(&self, limit: Option<usize>) {
        let mut s = self.0.borrow_mut();
        s.buf.clear();
        s.limit = limit;
        s.calls = 0;
    }
    pub fn take(&self) -> Vec<u8> {
        std::mem::take(&mut self.0.borrow_mut().buf)
    }
}

impl io::Write for SharedW {
    fn write(&mut self, b: &[u8]) -> io::Result<usize> {
        self.write_vectored(&[io::IoSlice::new(b)])
    }
    fn write_vectored(&mut self, bufs: &[io::IoSlice<'_>]) -> io::Result<usize> {
        let mut s = self.0.borrow_mut();
        s.calls += 1;
        let mut room = match s.limit {
            Some(l) if s.buf.len() >= l => return Err(io::Error::other("scripted hard error")),
            Some(l) => l - s.buf.len(),
            None => usize::MAX,
        };
        let mut n = 0;
        for b in bufs {
            let k = b.len().min(room);
            s.buf.extend_from_slice(&b[..k]);
            n += k;
            room -= k;
            if room == 0 {
                break;
            }
        }
        Ok(n)
    }
    fn flush(&mut self) -> io::Result<()> {
        Ok(())
    }
}

// ------------------------------------------------------------------------------------------
// configurations (names = DOMAIN Cfg of EmfHistory.tla)
// ------------------------------------------------------------------------------------------

pub const CONFIG_NAMES: &[&str] = &["v1", "n1", "v2d", "n2d", "v3dd", "v1i", "s2d", "sn1", "wf", "ws", "wg"];

pub struct Globals {
    az: String,
}
impl Entry for Globals {
    fn write<'a>(&'a self, w: &mut impl EntryWriter<'a>) {
        w.value("Az", self.az.as_str());
    }
}

fn s(x: &str) -> String {
    x.to_string()
}

/// The plain formatter underlying configuration `name`.
pub fn build_emf(name: &str) -> Emf {
    let op = || vec![s("Operation")];
    match name {
        "v1" => Emf::builder(s("Ns\"1"), vec![vec![]]).skip_all_validations(false).build(),
        "n1" | "sn1" => Emf::no_validations(s("Ns1"), vec![vec![]]),
        "v2d" | "s2d" => Emf::builder(s("Ns1"), vec![op()]).add_namespace("Ns2").build(),
        "n2d" => Emf::builder(s("Ns1"), vec![op()]).add_namespace("Ns2").skip_all_validations(true).build(),
        "v3dd" => Emf::builder(s("Ns1"), vec![vec![], op()])
            .add_namespace("Ns2")
            .add_namespace("Ns\u{e9}3")
            .log_group_name("LogGroup")
            .directive(MetricDirective {
                dimensions: vec![vec!["Operation", "Extra"]],
                metrics: vec![MetricDefinition { name: "Latency", unit: MS, storage_resolution: None }],
                namespace: "Ns1",
            })
            .build(),
        "v1i" => Emf::builder(s("Ns1"), vec![vec![]]).allow_ignored_dimensions(true).build(),
        "wf" => Emf::builder(s("Ns1"), vec![vec![s("Az")]]).add_namespace("Ns2").build(),
        "ws" => Emf::builder(s("Ns1"), vec![vec![s("Az")]]).add_namespace("Ns2").allow_ignored_dimensions(true).build(),
        "wg" => Emf::builder(s("Ns1"), vec![vec![s("Az")], vec![s("Az"), s("Operation")]]).build(),
        other => panic!("unknown configuration {other}"),
    }
}

type GDims<S> = MergeGlobalDimensions<S, 1>;

pub enum Fmt {
    Plain(Emf),
    Sampled(SampledEmf<ScriptRng>, ScriptRng),
    /// Format-level wrappers
    WrapF(GDims<MergeGlobals<Emf, Globals>>),
    /// stream-level wrappers around `output_to`
    WrapS(GDims<MergeGlobals<FormattedEntryIoStream<Emf, SharedW>, Globals>>),
    WrapG(MergeGlobals<FormattedEntryIoStream<Emf, SharedW>, Globals>),
}

pub struct Formatter {
    pub fmt: Fmt,
    pub w: SharedW,
}

#[derive(Clone, Debug, PartialEq)]
pub struct CallResult {
    /// "ok" | "val" | "io" | "panic"
    pub class: &'static str,
    pub message: String,
    pub bytes: Vec<u8>,
}

impl Formatter {
    /// Build configuration `name`; a sampled formatter draws from (rng_seed, rng_pos).
    pub fn build(name: &str, rng_seed: u64, rng_pos: u64) -> Formatter {
        let w = SharedW::default();
        let emf = build_emf(name);
        let globals = || Globals { az: s("az-1") };
        let gd = || [(Cow::Borrowed("Region"), Cow::Borrowed("r\"1"))];
        let deny = || Some(HashSet::from([Cow::Borrowed("Size")]));
        let fmt = match name {
            "s2d" | "sn1" => {
                let rng = ScriptRng::new(rng_seed, rng_pos);
                Fmt::Sampled(emf.with_sampling_and_rng(rng.clone()), rng)
            }
            "wf" => Fmt::WrapF(FormatExt::merge_global_dimensions::<1>(
                FormatExt::merge_globals(emf, globals()),
                gd().into_iter().collect(),
                deny(),
            )),
            "ws" => Fmt::WrapS(EntryIoStreamExt::merge_global_dimensions::<1>(
                EntryIoStreamExt::merge_globals(emf.output_to(w.clone()), globals()),
                gd().into_iter().collect(),
                deny(),
            )),
            "wg" => Fmt::WrapG(EntryIoStreamExt::merge_globals(emf.output_to(w.clone()), globals())),
            _ => Fmt::Plain(emf),
        };
        Formatter { fmt, w }
    }

    pub fn rng_pos(&self) -> u64 {
        match &self.fmt {
            Fmt::Sampled(_, r) => r.pos(),
            _ => 0,
        }
    }

    fn call_entry(&mut self, e: &impl Entry, rate: Option<f32>, limit: Option<usize>) -> CallResult {
        self.w.reset(limit);
        let mut out = self.w.clone();
        let fmt = &mut self.fmt;
        let r = crate::util::catch(move || match fmt {
            Fmt::Plain(f) => f.format(e, &mut out),
            Fmt::Sampled(f, _) => match rate {
                Some(r) => f.format_with_sample_rate(e, &mut out, r),
                None => f.format(e, &mut out),
            },
            Fmt::WrapF(f) => f.format(e, &mut out),
            Fmt::WrapS(st) => st.next(e),
            Fmt::WrapG(st) => st.next(e),
        });
        let bytes = self.w.take();
        match r {
            Ok(Ok(())) => CallResult { class: "ok", message: String::new(), bytes },
            Ok(Err(IoStreamError::Validation(v))) => CallResult { class: "val", message: v.to_string(), bytes },
            Ok(Err(IoStreamError::Io(i))) => CallResult { class: "io", message: i.to_string(), bytes },
            Err(p) => CallResult { class: "panic", message: p, bytes },
        }
    }

    /// Format one catalogue entry into a writer that never fails.
    pub fn call(&mut self, k: &KEntry) -> CallResult {
        self.call_limited(k, None)
    }

    /// Format one catalogue entry into a writer that fails hard once `limit` bytes were accepted.
    pub fn call_limited(&mut self, k: &KEntry, limit: Option<usize>) -> CallResult {
        if k.kind == "unroutable" {
            self.call_entry(&MetriqueValidationError::new(&k.msg), None, limit)
        } else {
            self.call_entry(k, k.rate(), limit)
        }
    }
}

/// Where a writer fault named by the model (first | mid | last) falls for an entry whose
/// complete output is `reference`: a byte budget after which every write fails. "mid" is inside
/// the first line and "last" inside the last line whichever order the lines are written in
/// (split records come out in hash order): both are placed with the shortest line's length.
pub fn fault_limit(fault: &str, reference: &[u8]) -> Option<usize> {
    let shortest = reference.split_inclusive(|c| *c == b'\n').map(|l| l.len()).min().unwrap_or(0);
    match fault {
        "none" => None,
        "first" => Some(0),
        "mid" => Some((shortest / 2).max(1).min(reference.len())),
        "last" => Some(reference.len().saturating_sub((shortest / 2).max(1))),
        other => panic!("unknown fault {other}"),
    }
}

// ------------------------------------------------------------------------------------------
// comparison of outputs
// ------------------------------------------------------------------------------------------

fn canon_into(j: &J, mask_ts: bool, path_is_aws: bool, out: &mut String) {
    match j {
        J::Null => out.push_str("null"),
        J::Bool(b) => out.push_str(if *b { "true" } else { "false" }),
        J::Num(t) => out.push_str(t),
        J::Str(t) => {
            out.push('"');
            for c in t.chars() {
                match c {
                    '"' => out.push_str("\\\""),
                    '\\' => out.push_str("\\\\"),
                    c if (c as u32) < 0x20 => out.push_str(&format!("\\u{:04x}", c as u32)),
                    c => out.push(c),
                }
            }
            out.push('"');
        }
        J::Arr(a) => {
            out.push('[');
            for (i, x) in a.iter().enumerate() {
                if i > 0 {
                    out.push(',');
                }
                canon_into(x, mask_ts, false, out);
            }
            out.push(']');
        }
        J::Obj(m) => {
            // members sorted by name (stable: duplicates keep their order)
            let mut idx: Vec<usize> = (0..m.len()).collect();
            idx.sort_by(|a, b| m[*a].0.cmp(&m[*b].0));
            out.push('{');
            for (n, i) in idx.iter().enumerate() {
                if n > 0 {
                    out.push(',');
                }
                let (k, v) = &m[*i];
                canon_into(&J::Str(k.clone()), false, false, out);
                out.push(':');
                if mask_ts && path_is_aws && k == "Timestamp" {
                    out.push_str("\"<now>\"");
                } else {
                    canon_into(v, mask_ts, k == "_aws", out);
                }
            }
            out.push('}');
        }
    }
}

/// Output as a sorted multiset of canonical lines. A line that is not valid JSON (or the
/// unterminated tail after an I/O failure) is kept as raw text with a marker.
pub fn canon_lines(bytes: &[u8], mask_ts: bool) -> Vec<String> {
    let mut lines: Vec<String> = Vec::new();
    let mut rest = bytes;
    while !rest.is_empty() {
        let (line, complete) = match rest.iter().position(|c| *c == b'\n') {
            Some(i) => {
                let l = &rest[..i];
                rest = &rest[i + 1..];
                (l, true)
            }
            None => {
                let l = rest;
                rest = &[];
                (l, false)
            }
        };
        if !complete {
            lines.push(format!("<partial>{}", String::from_utf8_lossy(line)));
            continue;
        }
        match json::parse(line) {
            Ok(p) => {
                let mut sline = String::with_capacity(line.len() + 16);
                canon_into(&p.value, mask_ts, false, &mut sline);
                lines.push(sline);
            }
            Err(_) => lines.push(format!("<raw>{}", String::from_utf8_lossy(line))),
        }
    }
    lines.sort();
    lines
}

/// Short, human readable rendering of a canonical line for violation files.
pub fn clip(sv: &str) -> String {
    if sv.len() <= 600 {
        sv.to_string()
    } else {
        let mut a = 300;
        while !sv.is_char_boundary(a) {
            a -= 1;
        }
        let mut b = sv.len() - 200;
        while !sv.is_char_boundary(b) {
            b += 1;
        }
        format!("{}…[{} bytes]…{}", &sv[..a], sv.len(), &sv[b..])
    }
}
