CONSTANTS
  Strategy = "exp"
  Procs = {1}
  MaxOps = 0
  Occs = {1, 3}
  MaxDrains = 0
  Depth = 5
SPECIFICATION RSpec
INVARIANT Emit
INVARIANT RConservation
CONSTRAINT Bound
CHECK_DEADLOCK FALSE
