CONSTANTS
  Slots = {1, 2}
  Ds = {1}
  MaxClock = 1000
  W0 = 5
  Depth = 8
SPECIFICATION RSpec
INVARIANT Emit
INVARIANT SwInv
CONSTRAINT Bound
CHECK_DEADLOCK FALSE
