\* 1 producer x 3 entries, capacity 2, one flush request, drop or forget, deadline may pass
CONSTANTS
  Producers = {1}
  MaxApp = 3
  Cap = 2
  Flushers = {1}
  K = 2
  Results = {"ok", "val"}
  AllowForget = TRUE
  AllowTick = TRUE
SPECIFICATION Spec
INVARIANTS TypeOK AbsInv ProducerOrder OnlyAppended NoLossAtEnd BoundedBatch EbwExact NoParkWithWaiters JoinedMeansClosed
PROPERTY Refines
CHECK_DEADLOCK FALSE
