---- MODULE SamplingGrid_TTrace_1790470903 ----
EXTENDS Sequences, TLCExt, Toolbox, SamplingGrid, Naturals, TLC

_expression ==
    LET SamplingGrid_TEExpression == INSTANCE SamplingGrid_TEExpression
    IN SamplingGrid_TEExpression!expression
----

_trace ==
    LET SamplingGrid_TETrace == INSTANCE SamplingGrid_TETrace
    IN SamplingGrid_TETrace!trace
----

_inv ==
    ~(
        TLCGet("level") = Len(_TETrace)
        /\
        mode = ("rate")
        /\
        silent = (<<0>>)
        /\
        last = (<<0>>)
        /\
        rate = (<<<<1, 1>>>>)
        /\
        cnt = (<<0>>)
        /\
        i = (83)
        /\
        sum = (<<0>>)
        /\
        present = ({})
        /\
        iv = (0)
        /\
        target = (1)
    )
----

_init ==
    /\ silent = _TETrace[1].silent
    /\ mode = _TETrace[1].mode
    /\ i = _TETrace[1].i
    /\ sum = _TETrace[1].sum
    /\ present = _TETrace[1].present
    /\ rate = _TETrace[1].rate
    /\ last = _TETrace[1].last
    /\ cnt = _TETrace[1].cnt
    /\ target = _TETrace[1].target
    /\ iv = _TETrace[1].iv
----

_next ==
    /\ \E i,j \in DOMAIN _TETrace:
        /\ \/ /\ j = i + 1
              /\ i = TLCGet("level")
        /\ silent  = _TETrace[i].silent
        /\ silent' = _TETrace[j].silent
        /\ mode  = _TETrace[i].mode
        /\ mode' = _TETrace[j].mode
        /\ i  = _TETrace[i].i
        /\ i' = _TETrace[j].i
        /\ sum  = _TETrace[i].sum
        /\ sum' = _TETrace[j].sum
        /\ present  = _TETrace[i].present
        /\ present' = _TETrace[j].present
        /\ rate  = _TETrace[i].rate
        /\ rate' = _TETrace[j].rate
        /\ last  = _TETrace[i].last
        /\ last' = _TETrace[j].last
        /\ cnt  = _TETrace[i].cnt
        /\ cnt' = _TETrace[j].cnt
        /\ target  = _TETrace[i].target
        /\ target' = _TETrace[j].target
        /\ iv  = _TETrace[i].iv
        /\ iv' = _TETrace[j].iv

\* Uncomment the ASSUME below to write the states of the error trace
\* to the given file in Json format. Note that you can pass any tuple
\* to `JsonSerialize`. For example, a sub-sequence of _TETrace.
    \* ASSUME
    \*     LET J == INSTANCE Json
    \*         IN J!JsonSerialize("SamplingGrid_TTrace_1790470903.json", _TETrace)

=============================================================================

 Note that you can extract this module `SamplingGrid_TEExpression`
  to a dedicated file to reuse `expression` (the module in the 
  dedicated `SamplingGrid_TEExpression.tla` file takes precedence 
  over the module `SamplingGrid_TEExpression` below).

---- MODULE SamplingGrid_TEExpression ----
EXTENDS Sequences, TLCExt, Toolbox, SamplingGrid, Naturals, TLC

expression == 
    [
        \* To hide variables of the `SamplingGrid` spec from the error trace,
        \* remove the variables below.  The trace will be written in the order
        \* of the fields of this record.
        silent |-> silent
        ,mode |-> mode
        ,i |-> i
        ,sum |-> sum
        ,present |-> present
        ,rate |-> rate
        ,last |-> last
        ,cnt |-> cnt
        ,target |-> target
        ,iv |-> iv
        
        \* Put additional constant-, state-, and action-level expressions here:
        \* ,_stateNumber |-> _TEPosition
        \* ,_silentUnchanged |-> silent = silent'
        
        \* Format the `silent` variable as Json value.
        \* ,_silentJson |->
        \*     LET J == INSTANCE Json
        \*     IN J!ToJson(silent)
        
        \* Lastly, you may build expressions over arbitrary sets of states by
        \* leveraging the _TETrace operator.  For example, this is how to
        \* count the number of times a spec variable changed up to the current
        \* state in the trace.
        \* ,_silentModCount |->
        \*     LET F[s \in DOMAIN _TETrace] ==
        \*         IF s = 1 THEN 0
        \*         ELSE IF _TETrace[s].silent # _TETrace[s-1].silent
        \*             THEN 1 + F[s-1] ELSE F[s-1]
        \*     IN F[_TEPosition - 1]
    ]

=============================================================================



Parsing and semantic processing can take forever if the trace below is long.
 In this case, it is advised to uncomment the module below to deserialize the
 trace from a generated binary file.

\*
\*---- MODULE SamplingGrid_TETrace ----
\*EXTENDS IOUtils, SamplingGrid, TLC
\*
\*trace == IODeserialize("SamplingGrid_TTrace_1790470903.bin", TRUE)
\*
\*=============================================================================
\*

---- MODULE SamplingGrid_TETrace ----
EXTENDS SamplingGrid, TLC

trace == 
    <<
    ([mode |-> "rate",silent |-> <<0>>,last |-> <<0>>,rate |-> <<<<1, 1>>>>,cnt |-> <<0>>,i |-> 1,sum |-> <<0>>,present |-> {},iv |-> 0,target |-> 1]),
    ([mode |-> "rate",silent |-> <<0>>,last |-> <<0>>,rate |-> <<<<1, 1>>>>,cnt |-> <<0>>,i |-> 2,sum |-> <<0>>,present |-> {},iv |-> 0,target |-> 1]),
    ([mode |-> "rate",silent |-> <<0>>,last |-> <<0>>,rate |-> <<<<1, 1>>>>,cnt |-> <<0>>,i |-> 3,sum |-> <<0>>,present |-> {},iv |-> 0,target |-> 1]),
    ([mode |-> "rate",silent |-> <<0>>,last |-> <<0>>,rate |-> <<<<1, 1>>>>,cnt |-> <<0>>,i |-> 4,sum |-> <<0>>,present |-> {},iv |-> 0,target |-> 1]),
    ([mode |-> "rate",silent |-> <<0>>,last |-> <<0>>,rate |-> <<<<1, 1>>>>,cnt |-> <<0>>,i |-> 5,sum |-> <<0>>,present |-> {},iv |-> 0,target |-> 1]),
    ([mode |-> "rate",silent |-> <<0>>,last |-> <<0>>,rate |-> <<<<1, 1>>>>,cnt |-> <<0>>,i |-> 6,sum |-> <<0>>,present |-> {},iv |-> 0,target |-> 1]),
    ([mode |-> "rate",silent |-> <<0>>,last |-> <<0>>,rate |-> <<<<1, 1>>>>,cnt |-> <<0>>,i |-> 7,sum |-> <<0>>,present |-> {},iv |-> 0,target |-> 1]),
    ([mode |-> "rate",silent |-> <<0>>,last |-> <<0>>,rate |-> <<<<1, 1>>>>,cnt |-> <<0>>,i |-> 8,sum |-> <<0>>,present |-> {},iv |-> 0,target |-> 1]),
    ([mode |-> "rate",silent |-> <<0>>,last |-> <<0>>,rate |-> <<<<1, 1>>>>,cnt |-> <<0>>,i |-> 9,sum |-> <<0>>,present |-> {},iv |-> 0,target |-> 1]),
    ([mode |-> "rate",silent |-> <<0>>,last |-> <<0>>,rate |-> <<<<1, 1>>>>,cnt |-> <<0>>,i |-> 10,sum |-> <<0>>,present |-> {},iv |-> 0,target |-> 1]),
    ([mode |-> "rate",silent |-> <<0>>,last |-> <<0>>,rate |-> <<<<1, 1>>>>,cnt |-> <<0>>,i |-> 11,sum |-> <<0>>,present |-> {},iv |-> 0,target |-> 1]),
    ([mode |-> "rate",silent |-> <<0>>,last |-> <<0>>,rate |-> <<<<1, 1>>>>,cnt |-> <<0>>,i |-> 12,sum |-> <<0>>,present |-> {},iv |-> 0,target |-> 1]),
    ([mode |-> "rate",silent |-> <<0>>,last |-> <<0>>,rate |-> <<<<1, 1>>>>,cnt |-> <<0>>,i |-> 13,sum |-> <<0>>,present |-> {},iv |-> 0,target |-> 1]),
    ([mode |-> "rate",silent |-> <<0>>,last |-> <<0>>,rate |-> <<<<1, 1>>>>,cnt |-> <<0>>,i |-> 14,sum |-> <<0>>,present |-> {},iv |-> 0,target |-> 1]),
    ([mode |-> "rate",silent |-> <<0>>,last |-> <<0>>,rate |-> <<<<1, 1>>>>,cnt |-> <<0>>,i |-> 15,sum |-> <<0>>,present |-> {},iv |-> 0,target |-> 1]),
    ([mode |-> "rate",silent |-> <<0>>,last |-> <<0>>,rate |-> <<<<1, 1>>>>,cnt |-> <<0>>,i |-> 16,sum |-> <<0>>,present |-> {},iv |-> 0,target |-> 1]),
    ([mode |-> "rate",silent |-> <<0>>,last |-> <<0>>,rate |-> <<<<1, 1>>>>,cnt |-> <<0>>,i |-> 17,sum |-> <<0>>,present |-> {},iv |-> 0,target |-> 1]),
    ([mode |-> "rate",silent |-> <<0>>,last |-> <<0>>,rate |-> <<<<1, 1>>>>,cnt |-> <<0>>,i |-> 18,sum |-> <<0>>,present |-> {},iv |-> 0,target |-> 1]),
    ([mode |-> "rate",silent |-> <<0>>,last |-> <<0>>,rate |-> <<<<1, 1>>>>,cnt |-> <<0>>,i |-> 19,sum |-> <<0>>,present |-> {},iv |-> 0,target |-> 1]),
    ([mode |-> "rate",silent |-> <<0>>,last |-> <<0>>,rate |-> <<<<1, 1>>>>,cnt |-> <<0>>,i |-> 20,sum |-> <<0>>,present |-> {},iv |-> 0,target |-> 1]),
    ([mode |-> "rate",silent |-> <<0>>,last |-> <<0>>,rate |-> <<<<1, 1>>>>,cnt |-> <<0>>,i |-> 21,sum |-> <<0>>,present |-> {},iv |-> 0,target |-> 1]),
    ([mode |-> "rate",silent |-> <<0>>,last |-> <<0>>,rate |-> <<<<1, 1>>>>,cnt |-> <<0>>,i |-> 22,sum |-> <<0>>,present |-> {},iv |-> 0,target |-> 1]),
    ([mode |-> "rate",silent |-> <<0>>,last |-> <<0>>,rate |-> <<<<1, 1>>>>,cnt |-> <<0>>,i |-> 23,sum |-> <<0>>,present |-> {},iv |-> 0,target |-> 1]),
    ([mode |-> "rate",silent |-> <<0>>,last |-> <<0>>,rate |-> <<<<1, 1>>>>,cnt |-> <<0>>,i |-> 24,sum |-> <<0>>,present |-> {},iv |-> 0,target |-> 1]),
    ([mode |-> "rate",silent |-> <<0>>,last |-> <<0>>,rate |-> <<<<1, 1>>>>,cnt |-> <<0>>,i |-> 25,sum |-> <<0>>,present |-> {},iv |-> 0,target |-> 1]),
    ([mode |-> "rate",silent |-> <<0>>,last |-> <<0>>,rate |-> <<<<1, 1>>>>,cnt |-> <<0>>,i |-> 26,sum |-> <<0>>,present |-> {},iv |-> 0,target |-> 1]),
    ([mode |-> "rate",silent |-> <<0>>,last |-> <<0>>,rate |-> <<<<1, 1>>>>,cnt |-> <<0>>,i |-> 27,sum |-> <<0>>,present |-> {},iv |-> 0,target |-> 1]),
    ([mode |-> "rate",silent |-> <<0>>,last |-> <<0>>,rate |-> <<<<1, 1>>>>,cnt |-> <<0>>,i |-> 28,sum |-> <<0>>,present |-> {},iv |-> 0,target |-> 1]),
    ([mode |-> "rate",silent |-> <<0>>,last |-> <<0>>,rate |-> <<<<1, 1>>>>,cnt |-> <<0>>,i |-> 29,sum |-> <<0>>,present |-> {},iv |-> 0,target |-> 1]),
    ([mode |-> "rate",silent |-> <<0>>,last |-> <<0>>,rate |-> <<<<1, 1>>>>,cnt |-> <<0>>,i |-> 30,sum |-> <<0>>,present |-> {},iv |-> 0,target |-> 1]),
    ([mode |-> "rate",silent |-> <<0>>,last |-> <<0>>,rate |-> <<<<1, 1>>>>,cnt |-> <<0>>,i |-> 31,sum |-> <<0>>,present |-> {},iv |-> 0,target |-> 1]),
    ([mode |-> "rate",silent |-> <<0>>,last |-> <<0>>,rate |-> <<<<1, 1>>>>,cnt |-> <<0>>,i |-> 32,sum |-> <<0>>,present |-> {},iv |-> 0,target |-> 1]),
    ([mode |-> "rate",silent |-> <<0>>,last |-> <<0>>,rate |-> <<<<1, 1>>>>,cnt |-> <<0>>,i |-> 33,sum |-> <<0>>,present |-> {},iv |-> 0,target |-> 1]),
    ([mode |-> "rate",silent |-> <<0>>,last |-> <<0>>,rate |-> <<<<1, 1>>>>,cnt |-> <<0>>,i |-> 34,sum |-> <<0>>,present |-> {},iv |-> 0,target |-> 1]),
    ([mode |-> "rate",silent |-> <<0>>,last |-> <<0>>,rate |-> <<<<1, 1>>>>,cnt |-> <<0>>,i |-> 35,sum |-> <<0>>,present |-> {},iv |-> 0,target |-> 1]),
    ([mode |-> "rate",silent |-> <<0>>,last |-> <<0>>,rate |-> <<<<1, 1>>>>,cnt |-> <<0>>,i |-> 36,sum |-> <<0>>,present |-> {},iv |-> 0,target |-> 1]),
    ([mode |-> "rate",silent |-> <<0>>,last |-> <<0>>,rate |-> <<<<1, 1>>>>,cnt |-> <<0>>,i |-> 37,sum |-> <<0>>,present |-> {},iv |-> 0,target |-> 1]),
    ([mode |-> "rate",silent |-> <<0>>,last |-> <<0>>,rate |-> <<<<1, 1>>>>,cnt |-> <<0>>,i |-> 38,sum |-> <<0>>,present |-> {},iv |-> 0,target |-> 1]),
    ([mode |-> "rate",silent |-> <<0>>,last |-> <<0>>,rate |-> <<<<1, 1>>>>,cnt |-> <<0>>,i |-> 39,sum |-> <<0>>,present |-> {},iv |-> 0,target |-> 1]),
    ([mode |-> "rate",silent |-> <<0>>,last |-> <<0>>,rate |-> <<<<1, 1>>>>,cnt |-> <<0>>,i |-> 40,sum |-> <<0>>,present |-> {},iv |-> 0,target |-> 1]),
    ([mode |-> "rate",silent |-> <<0>>,last |-> <<0>>,rate |-> <<<<1, 1>>>>,cnt |-> <<0>>,i |-> 41,sum |-> <<0>>,present |-> {},iv |-> 0,target |-> 1]),
    ([mode |-> "rate",silent |-> <<0>>,last |-> <<0>>,rate |-> <<<<1, 1>>>>,cnt |-> <<0>>,i |-> 42,sum |-> <<0>>,present |-> {},iv |-> 0,target |-> 1]),
    ([mode |-> "rate",silent |-> <<0>>,last |-> <<0>>,rate |-> <<<<1, 1>>>>,cnt |-> <<0>>,i |-> 43,sum |-> <<0>>,present |-> {},iv |-> 0,target |-> 1]),
    ([mode |-> "rate",silent |-> <<0>>,last |-> <<0>>,rate |-> <<<<1, 1>>>>,cnt |-> <<0>>,i |-> 44,sum |-> <<0>>,present |-> {},iv |-> 0,target |-> 1]),
    ([mode |-> "rate",silent |-> <<0>>,last |-> <<0>>,rate |-> <<<<1, 1>>>>,cnt |-> <<0>>,i |-> 45,sum |-> <<0>>,present |-> {},iv |-> 0,target |-> 1]),
    ([mode |-> "rate",silent |-> <<0>>,last |-> <<0>>,rate |-> <<<<1, 1>>>>,cnt |-> <<0>>,i |-> 46,sum |-> <<0>>,present |-> {},iv |-> 0,target |-> 1]),
    ([mode |-> "rate",silent |-> <<0>>,last |-> <<0>>,rate |-> <<<<1, 1>>>>,cnt |-> <<0>>,i |-> 47,sum |-> <<0>>,present |-> {},iv |-> 0,target |-> 1]),
    ([mode |-> "rate",silent |-> <<0>>,last |-> <<0>>,rate |-> <<<<1, 1>>>>,cnt |-> <<0>>,i |-> 48,sum |-> <<0>>,present |-> {},iv |-> 0,target |-> 1]),
    ([mode |-> "rate",silent |-> <<0>>,last |-> <<0>>,rate |-> <<<<1, 1>>>>,cnt |-> <<0>>,i |-> 49,sum |-> <<0>>,present |-> {},iv |-> 0,target |-> 1]),
    ([mode |-> "rate",silent |-> <<0>>,last |-> <<0>>,rate |-> <<<<1, 1>>>>,cnt |-> <<0>>,i |-> 50,sum |-> <<0>>,present |-> {},iv |-> 0,target |-> 1]),
    ([mode |-> "rate",silent |-> <<0>>,last |-> <<0>>,rate |-> <<<<1, 1>>>>,cnt |-> <<0>>,i |-> 51,sum |-> <<0>>,present |-> {},iv |-> 0,target |-> 1]),
    ([mode |-> "rate",silent |-> <<0>>,last |-> <<0>>,rate |-> <<<<1, 1>>>>,cnt |-> <<0>>,i |-> 52,sum |-> <<0>>,present |-> {},iv |-> 0,target |-> 1]),
    ([mode |-> "rate",silent |-> <<0>>,last |-> <<0>>,rate |-> <<<<1, 1>>>>,cnt |-> <<0>>,i |-> 53,sum |-> <<0>>,present |-> {},iv |-> 0,target |-> 1]),
    ([mode |-> "rate",silent |-> <<0>>,last |-> <<0>>,rate |-> <<<<1, 1>>>>,cnt |-> <<0>>,i |-> 54,sum |-> <<0>>,present |-> {},iv |-> 0,target |-> 1]),
    ([mode |-> "rate",silent |-> <<0>>,last |-> <<0>>,rate |-> <<<<1, 1>>>>,cnt |-> <<0>>,i |-> 55,sum |-> <<0>>,present |-> {},iv |-> 0,target |-> 1]),
    ([mode |-> "rate",silent |-> <<0>>,last |-> <<0>>,rate |-> <<<<1, 1>>>>,cnt |-> <<0>>,i |-> 56,sum |-> <<0>>,present |-> {},iv |-> 0,target |-> 1]),
    ([mode |-> "rate",silent |-> <<0>>,last |-> <<0>>,rate |-> <<<<1, 1>>>>,cnt |-> <<0>>,i |-> 57,sum |-> <<0>>,present |-> {},iv |-> 0,target |-> 1]),
    ([mode |-> "rate",silent |-> <<0>>,last |-> <<0>>,rate |-> <<<<1, 1>>>>,cnt |-> <<0>>,i |-> 58,sum |-> <<0>>,present |-> {},iv |-> 0,target |-> 1]),
    ([mode |-> "rate",silent |-> <<0>>,last |-> <<0>>,rate |-> <<<<1, 1>>>>,cnt |-> <<0>>,i |-> 59,sum |-> <<0>>,present |-> {},iv |-> 0,target |-> 1]),
    ([mode |-> "rate",silent |-> <<0>>,last |-> <<0>>,rate |-> <<<<1, 1>>>>,cnt |-> <<0>>,i |-> 60,sum |-> <<0>>,present |-> {},iv |-> 0,target |-> 1]),
    ([mode |-> "rate",silent |-> <<0>>,last |-> <<0>>,rate |-> <<<<1, 1>>>>,cnt |-> <<0>>,i |-> 61,sum |-> <<0>>,present |-> {},iv |-> 0,target |-> 1]),
    ([mode |-> "rate",silent |-> <<0>>,last |-> <<0>>,rate |-> <<<<1, 1>>>>,cnt |-> <<0>>,i |-> 62,sum |-> <<0>>,present |-> {},iv |-> 0,target |-> 1]),
    ([mode |-> "rate",silent |-> <<0>>,last |-> <<0>>,rate |-> <<<<1, 1>>>>,cnt |-> <<0>>,i |-> 63,sum |-> <<0>>,present |-> {},iv |-> 0,target |-> 1]),
    ([mode |-> "rate",silent |-> <<0>>,last |-> <<0>>,rate |-> <<<<1, 1>>>>,cnt |-> <<0>>,i |-> 64,sum |-> <<0>>,present |-> {},iv |-> 0,target |-> 1]),
    ([mode |-> "rate",silent |-> <<0>>,last |-> <<0>>,rate |-> <<<<1, 1>>>>,cnt |-> <<0>>,i |-> 65,sum |-> <<0>>,present |-> {},iv |-> 0,target |-> 1]),
    ([mode |-> "rate",silent |-> <<0>>,last |-> <<0>>,rate |-> <<<<1, 1>>>>,cnt |-> <<0>>,i |-> 66,sum |-> <<0>>,present |-> {},iv |-> 0,target |-> 1]),
    ([mode |-> "rate",silent |-> <<0>>,last |-> <<0>>,rate |-> <<<<1, 1>>>>,cnt |-> <<0>>,i |-> 67,sum |-> <<0>>,present |-> {},iv |-> 0,target |-> 1]),
    ([mode |-> "rate",silent |-> <<0>>,last |-> <<0>>,rate |-> <<<<1, 1>>>>,cnt |-> <<0>>,i |-> 68,sum |-> <<0>>,present |-> {},iv |-> 0,target |-> 1]),
    ([mode |-> "rate",silent |-> <<0>>,last |-> <<0>>,rate |-> <<<<1, 1>>>>,cnt |-> <<0>>,i |-> 69,sum |-> <<0>>,present |-> {},iv |-> 0,target |-> 1]),
    ([mode |-> "rate",silent |-> <<0>>,last |-> <<0>>,rate |-> <<<<1, 1>>>>,cnt |-> <<0>>,i |-> 70,sum |-> <<0>>,present |-> {},iv |-> 0,target |-> 1]),
    ([mode |-> "rate",silent |-> <<0>>,last |-> <<0>>,rate |-> <<<<1, 1>>>>,cnt |-> <<0>>,i |-> 71,sum |-> <<0>>,present |-> {},iv |-> 0,target |-> 1]),
    ([mode |-> "rate",silent |-> <<0>>,last |-> <<0>>,rate |-> <<<<1, 1>>>>,cnt |-> <<0>>,i |-> 72,sum |-> <<0>>,present |-> {},iv |-> 0,target |-> 1]),
    ([mode |-> "rate",silent |-> <<0>>,last |-> <<0>>,rate |-> <<<<1, 1>>>>,cnt |-> <<0>>,i |-> 73,sum |-> <<0>>,present |-> {},iv |-> 0,target |-> 1]),
    ([mode |-> "rate",silent |-> <<0>>,last |-> <<0>>,rate |-> <<<<1, 1>>>>,cnt |-> <<0>>,i |-> 74,sum |-> <<0>>,present |-> {},iv |-> 0,target |-> 1]),
    ([mode |-> "rate",silent |-> <<0>>,last |-> <<0>>,rate |-> <<<<1, 1>>>>,cnt |-> <<0>>,i |-> 75,sum |-> <<0>>,present |-> {},iv |-> 0,target |-> 1]),
    ([mode |-> "rate",silent |-> <<0>>,last |-> <<0>>,rate |-> <<<<1, 1>>>>,cnt |-> <<0>>,i |-> 76,sum |-> <<0>>,present |-> {},iv |-> 0,target |-> 1]),
    ([mode |-> "rate",silent |-> <<0>>,last |-> <<0>>,rate |-> <<<<1, 1>>>>,cnt |-> <<0>>,i |-> 77,sum |-> <<0>>,present |-> {},iv |-> 0,target |-> 1]),
    ([mode |-> "rate",silent |-> <<0>>,last |-> <<0>>,rate |-> <<<<1, 1>>>>,cnt |-> <<0>>,i |-> 78,sum |-> <<0>>,present |-> {},iv |-> 0,target |-> 1]),
    ([mode |-> "rate",silent |-> <<0>>,last |-> <<0>>,rate |-> <<<<1, 1>>>>,cnt |-> <<0>>,i |-> 79,sum |-> <<0>>,present |-> {},iv |-> 0,target |-> 1]),
    ([mode |-> "rate",silent |-> <<0>>,last |-> <<0>>,rate |-> <<<<1, 1>>>>,cnt |-> <<0>>,i |-> 80,sum |-> <<0>>,present |-> {},iv |-> 0,target |-> 1]),
    ([mode |-> "rate",silent |-> <<0>>,last |-> <<0>>,rate |-> <<<<1, 1>>>>,cnt |-> <<0>>,i |-> 81,sum |-> <<0>>,present |-> {},iv |-> 0,target |-> 1]),
    ([mode |-> "rate",silent |-> <<0>>,last |-> <<0>>,rate |-> <<<<1, 1>>>>,cnt |-> <<0>>,i |-> 82,sum |-> <<0>>,present |-> {},iv |-> 0,target |-> 1]),
    ([mode |-> "rate",silent |-> <<0>>,last |-> <<0>>,rate |-> <<<<1, 1>>>>,cnt |-> <<0>>,i |-> 83,sum |-> <<0>>,present |-> {},iv |-> 0,target |-> 1])
    >>
----


=============================================================================

---- CONFIG SamplingGrid_TTrace_1790470903 ----
CONSTANTS
    QMax = 16
    KMax = 149
    Groups = { 1 }
    Vols = { 0 }
    MaxIntervals = 0
    Targets = { 1 }
    Ttl = 8

INVARIANT
    _inv

CHECK_DEADLOCK
    \* CHECK_DEADLOCK off because of PROPERTY or INVARIANT above.
    FALSE

INIT
    _init

NEXT
    _next

CONSTANT
    _TETrace <- _trace

ALIAS
    _expression
=============================================================================
\* Generated on Sun Sep 27 01:01:44 UTC 2026