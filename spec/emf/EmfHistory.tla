----------------------------- MODULE EmfHistory -----------------------------
(***************************************************************************)
(* C14: formatting one entry never depends on the entries formatted before *)
(* it.                                                                     *)
(*                                                                         *)
(* The EMF formatter (emf.rs) is long lived and reuses, between calls of   *)
(* `format`, six string buffers (each with a constant prefix), a           *)
(* dimension-set map and - rebuilt for every call - the per-call writer    *)
(* state (allow_split_entries, unroutable flag, entry dimensions, the      *)
(* per-entry validation map in which config() registers the names of the   *)
(* entry dimensions, error builder, timestamp).  This module models        *)
(* exactly that reuse:                                                     *)
(*                                                                         *)
(*   f   the formatter state kept between calls (buffers as sequences of   *)
(*       tokens, the first token "P" being the constant prefix; the map;   *)
(*       the set of buffers whose capacity exceeds the shrink limit; the   *)
(*       per-call flags, which a correct formatter resets in Begin)        *)
(*   c   the configuration (chosen at Init, constant afterwards)           *)
(*                                                                         *)
(* One call is Run(f, c, k, w) = Finish(Body(Begin(f))) for an entry *kind* *)
(* k of the catalogue below and a writer fault w (none | first byte | mid  *)
(* record | inside the last line): the fault is an attribute of the CALL,  *)
(* orthogonal to the kind - every accepted kind can meet a failing writer. *)
(* The output of a call is computed from the buffers, so a token left      *)
(* behind by an earlier call would show up in it.                          *)
(*                                                                         *)
(* The property is the absence of cross-call state:                        *)
(*   Stateless   for every reachable f, every kind k and every fault w the *)
(*               output and the accept/reject/io decision equal those of   *)
(*               the initial (freshly built) formatter                     *)
(*   NoResidue   after Begin the reachable state - also the one left by a  *)
(*               rejected or I/O-failed call - equals the initial state    *)
(*               after Begin (modulo the dimensions buffer, which is       *)
(*               cleared immediately before its only use); the counts      *)
(*               buffer is clean whenever the formatter is idle            *)
(*   PrefixKept  clearing (truncate + shrink) never loses a prefix         *)
(* TLC checks them over all sequences of kinds (the reachable states) for  *)
(* every configuration class.  CONSTANT Bug re-introduces one missing      *)
(* reset at a time (dimsCached: a dimension-header cache whose flag is only *)
(* updated when the write succeeds; edimsMemo: validation bookkeeping      *)
(* skipped when an entry repeats the previous EntryDimensions value);      *)
(* those runs must FAIL (sensitivity).                                     *)
(*                                                                         *)
(* Consequently the prediction for position i of any sequence is           *)
(* Out(F0, c, kind_i): EmfHistoryReplay prints sequences and the harness   *)
(* (emfh) compares a long-lived real formatter with a freshly built one.   *)
(***************************************************************************)
EXTENDS Naturals, Sequences, FiniteSets, TLC

CONSTANTS Bug,        \* "none" or the name of a deliberately missing reset
          ConfigNames \* the configurations explored (subset of DOMAIN Cfg)

P == <<"P">>

(***************************************************************************)
(* Configuration classes: what of a configuration can influence which      *)
(* buffers are touched.  val: validations on; dim: "Operation" is a        *)
(* configured dimension; ign: allow_ignored_dimensions; gd: every metric   *)
(* gets global dimensions (merge_global_dimensions wrapper); samp: a       *)
(* SampledEmf.  Namespaces, log group, directives only change constant     *)
(* text.  The names are the configurations built by harness/src/bin/emfh.  *)
(***************************************************************************)
C(val, dim, ign, gd, samp) == [val |-> val, dim |-> dim, ign |-> ign, gd |-> gd, samp |-> samp]
Cfg ==
  [ v1   |-> C(TRUE,  FALSE, FALSE, FALSE, FALSE),
    n1   |-> C(FALSE, FALSE, FALSE, FALSE, FALSE),
    v2d  |-> C(TRUE,  TRUE,  FALSE, FALSE, FALSE),
    n2d  |-> C(FALSE, TRUE,  FALSE, FALSE, FALSE),
    v3dd |-> C(TRUE,  TRUE,  FALSE, FALSE, FALSE),
    v1i  |-> C(TRUE,  FALSE, TRUE,  FALSE, FALSE),
    s2d  |-> C(TRUE,  TRUE,  FALSE, FALSE, TRUE),
    sn1  |-> C(FALSE, FALSE, FALSE, FALSE, TRUE),
    wf   |-> C(TRUE,  FALSE, FALSE, TRUE,  FALSE),
    ws   |-> C(TRUE,  FALSE, TRUE,  TRUE,  FALSE),
    wg   |-> C(TRUE,  TRUE,  FALSE, FALSE, FALSE) ]

(***************************************************************************)
(* The catalogue of entry kinds.                                            *)
(*   str    string members written                                          *)
(*   glob   metrics without per-metric dimensions                           *)
(*   cnt    some metric is written in histogram form (uses the counts buf)  *)
(*   skip   a metric with only NaN observations (written, then truncated)   *)
(*   sets   per-metric dimension sets used                                  *)
(*   split  the entry carries AllowSplitEntries                             *)
(*   edims  the EntryDimensions value the entry carries: none | X | Y       *)
(*          (X = [["Extra"]], Y = [["Shard"]]; neither is a default         *)
(*          dimension of any configuration)                                 *)
(*   why    the validation defect (none | unique | names | dimexist |      *)
(*          nosplit | always | edimfield: the member named by the entry's    *)
(*          EntryDimensions is absent or written as a metric - found only   *)
(*          because config() registered the name in the per-entry           *)
(*          validation map)                                                 *)
(*   huge   multi-megabyte members (buffers grow beyond the shrink limit)   *)
(*   rate   none | ok | bad (format_with_sample_rate on a sampled config)   *)
(***************************************************************************)
K(str, glob, cnt, skip, sets, split, edims, why, huge, rate) ==
  [str |-> str, glob |-> glob, cnt |-> cnt, skip |-> skip, sets |-> sets, split |-> split,
   edims |-> edims, why |-> why, huge |-> huge, rate |-> rate]

Kind ==
  [ scalar      |-> K(<<"op">>, <<"lat", "size">>, FALSE, FALSE, <<>>, FALSE, "none", "none", FALSE, "none"),
    hist        |-> K(<<"op">>, <<"lat">>, TRUE, FALSE, <<>>, FALSE, "none", "none", FALSE, "none"),
    dupField    |-> K(<<"op">>, <<"lat", "lat">>, FALSE, FALSE, <<>>, FALSE, "none", "unique", FALSE, "none"),
    emptyName   |-> K(<<"op">>, <<"lat">>, FALSE, FALSE, <<>>, FALSE, "none", "names", FALSE, "none"),
    awsName     |-> K(<<"op">>, <<"lat">>, FALSE, FALSE, <<>>, FALSE, "none", "names", FALSE, "none"),
    missingDim  |-> K(<<>>, <<"lat">>, FALSE, FALSE, <<>>, FALSE, "none", "dimexist", FALSE, "none"),
    dimIsMetric |-> K(<<>>, <<"opm", "lat">>, FALSE, FALSE, <<>>, FALSE, "none", "dimexist", FALSE, "none"),
    dimsNoSplit |-> K(<<"op">>, <<"lat">>, FALSE, FALSE, <<"A">>, FALSE, "none", "nosplit", FALSE, "none"),
    twoTs       |-> K(<<"op">>, <<"lat">>, FALSE, FALSE, <<>>, FALSE, "none", "always", FALSE, "none"),
    errValue    |-> K(<<"op">>, <<"lat">>, TRUE, FALSE, <<>>, FALSE, "none", "always", FALSE, "none"),
    edimsTwice  |-> K(<<"op", "x">>, <<"lat">>, FALSE, FALSE, <<>>, FALSE, "X", "always", FALSE, "none"),
    split1      |-> K(<<"op">>, <<"lat">>, FALSE, FALSE, <<"A">>, TRUE, "none", "none", FALSE, "none"),
    split2      |-> K(<<"op">>, <<>>, TRUE, FALSE, <<"A", "B">>, TRUE, "none", "none", FALSE, "none"),
    entryDims   |-> K(<<"op", "x">>, <<"lat">>, FALSE, FALSE, <<>>, FALSE, "X", "none", FALSE, "none"),
    entryDims2  |-> K(<<"op", "y">>, <<"lat">>, FALSE, FALSE, <<>>, FALSE, "Y", "none", FALSE, "none"),
    edimsMissing  |-> K(<<"op">>, <<"lat">>, FALSE, FALSE, <<>>, FALSE, "X", "edimfield", FALSE, "none"),
    edimsMissing2 |-> K(<<"op">>, <<"lat">>, FALSE, FALSE, <<>>, FALSE, "Y", "edimfield", FALSE, "none"),
    edimsMetric   |-> K(<<"op">>, <<"xm", "lat">>, FALSE, FALSE, <<>>, FALSE, "X", "edimfield", FALSE, "none"),
    unroutable  |-> K(<<"msg">>, <<>>, FALSE, FALSE, <<>>, FALSE, "none", "none", FALSE, "none"),
    sampled     |-> K(<<"op">>, <<"lat">>, TRUE, FALSE, <<>>, FALSE, "none", "none", FALSE, "ok"),
    badRate     |-> K(<<"op">>, <<"lat">>, FALSE, FALSE, <<>>, FALSE, "none", "none", FALSE, "bad"),
    allNaN      |-> K(<<"op">>, <<"lat">>, TRUE, TRUE, <<>>, FALSE, "none", "none", FALSE, "none"),
    huge        |-> K(<<"op", "blob">>, <<"lat", "many">>, TRUE, FALSE, <<>>, FALSE, "none", "none", TRUE, "none") ]

KindNames == DOMAIN Kind
\* the writer's behaviour during a call: never fails | fails on the first byte | in the middle
\* of the first line | inside the last line (after all other lines were written)
Faults == {"none", "first", "mid", "last"}

VARIABLES f, c
vars == <<f, c>>

Bufs == {"sf", "fl", "mt", "dc", "dm", "ct"}

\* a freshly built formatter
F0 == [sf |-> P, fl |-> P, mt |-> P, dc |-> P, dm |-> P, ct |-> P,
       dsm |-> <<>>,          \* dimension set |-> [fl, mt]   (a function with a finite domain)
       big |-> {},            \* buffers grown beyond the shrink limit
       split |-> FALSE, unroutable |-> FALSE, edims |-> "none",  \* per-call writer state
       vmap |-> {},           \* per-call validation map: entry-dimension names still to be found
       memo |-> "none",       \* only with Bug = "edimsMemo": the last EntryDimensions value seen
       dmdef |-> FALSE]       \* only with Bug = "dimsCached": "dm already holds the default dimensions"

\* PrefixedStringBuf::clear: truncate to the prefix, then shrink the capacity
Clear(g, b) ==
  IF Bug = "shrinkCuts" /\ b \in g.big THEN [g EXCEPT ![b] = <<>>, !.big = @ \ {b}]
  ELSE [g EXCEPT ![b] = P, !.big = @ \ {b}]

Tag(k, t) == k \o ":" \o t
Toks(k, ts) == [i \in 1..Len(ts) |-> Tag(k, ts[i])]

\* start of format_with_multiplicity: five resets, a new per-call writer
Begin(g) ==
  LET g1 == Clear(Clear(Clear(g, "sf"), "fl"), "mt")
      g2 == IF Bug = "declNotCleared" THEN g1 ELSE Clear(g1, "dc")
      g3 == IF Bug = "mapNotCleared" THEN g2 ELSE [g2 EXCEPT !.dsm = <<>>]
      g4 == IF Bug = "splitHoisted" THEN g3 ELSE [g3 EXCEPT !.split = FALSE]
  IN [g4 EXCEPT !.unroutable = FALSE, !.edims = "none", !.vmap = {}]

Histogram(cf, k) == Kind[k].cnt \/ (cf.samp /\ Kind[k].rate = "ok")

\* the values of one metric are appended to a fields buffer; histogram form goes through
\* the counts buffer, which is cleared before and after use
UseCounts(g, k) ==
  LET g1 == IF Bug = "countsDirty" THEN g ELSE Clear(g, "ct")
      g2 == [g1 EXCEPT !.ct = @ \o <<Tag(k, "n")>>]
  IN [val |-> Tail(g2.ct), st |-> IF Bug = "countsDirty" THEN g2 ELSE Clear(g2, "ct")]

\* entry.write(&mut writer): strings, configs, metrics
Body(g, cf, k) ==
  LET kd == Kind[k]
      g1 == [g EXCEPT !.sf = @ \o Toks(k, kd.str),
                      !.split = @ \/ kd.split,
                      !.edims = kd.edims,
                      \* config(EntryDimensions): the names are registered for THIS entry, whatever
                      \* an earlier entry configured (Bug edimsMemo: skipped on a repeated value)
                      !.vmap = IF kd.edims = "none" \/ (Bug = "edimsMemo" /\ g.memo = kd.edims) THEN {} ELSE {kd.edims},
                      !.memo = IF Bug = "edimsMemo" /\ kd.edims # "none" THEN kd.edims ELSE @,
                      !.unroutable = (k = "unroutable"),
                      !.big = IF kd.huge THEN @ \cup {"sf", "fl", "ct"} ELSE @]
      cu == IF Histogram(cf, k) THEN UseCounts(g1, k) ELSE [val |-> <<>>, st |-> g1]
      g2 == cu.st
      \* where the metrics without per-metric dimensions go
      globalToks == Toks(k, kd.glob) \o cu.val
      dimmed == cf.gd /\ ~cf.ign
      g3 == IF dimmed /\ kd.glob # <<>>
              THEN [g2 EXCEPT !.dsm = ("G" :> [fl |-> (IF "G" \in DOMAIN g2.dsm THEN g2.dsm["G"].fl ELSE P) \o globalToks,
                                                 mt |-> (IF "G" \in DOMAIN g2.dsm THEN g2.dsm["G"].mt ELSE P) \o Toks(k, kd.glob)]) @@ @]
              ELSE [g2 EXCEPT !.fl = @ \o globalToks, !.mt = @ \o Toks(k, kd.glob)]
      \* metrics with per-metric dimensions: one map entry per dimension set (or_insert_with)
      Names == {kd.sets[i] : i \in 1..Len(kd.sets)}
      g4 == IF cf.ign
              THEN [g3 EXCEPT !.fl = @ \o [i \in 1..Len(kd.sets) |-> Tag(k, kd.sets[i])],
                              !.mt = @ \o [i \in 1..Len(kd.sets) |-> Tag(k, kd.sets[i])]]
              ELSE [g3 EXCEPT !.dsm = [d \in Names |->
                                          [fl |-> (IF d \in DOMAIN g3.dsm THEN g3.dsm[d].fl ELSE P) \o <<Tag(k, d)>>,
                                           mt |-> (IF d \in DOMAIN g3.dsm THEN g3.dsm[d].mt ELSE P) \o <<Tag(k, d)>>]] @@ @]
      \* a metric whose observations are all NaN: name written, then truncated away
      g5 == IF kd.skip THEN [g4 EXCEPT !.fl = SubSeq(@ \o <<Tag(k, "nan")>>, 1, Len(@))] ELSE g4
  IN g5

Rejects(g, cf, k) ==
  LET kd == Kind[k] IN
  \/ kd.why = "always"
  \/ kd.why \in {"unique", "names"} /\ cf.val
  \/ kd.why = "dimexist" /\ cf.val /\ cf.dim
  \/ kd.why = "edimfield" /\ cf.val /\ kd.edims \in g.vmap
  \/ (kd.sets # <<>> \/ (cf.gd /\ kd.glob # <<>>)) /\ ~cf.ign /\ ~g.split

\* EntryWriter::finish, the writer failing as told by w.  Lines are written one by one: the
\* per-dimension-set lines first, the line without per-metric dimensions last; the first
\* failing write returns at once, whatever was prepared for later lines is never reached.
Finish(g, cf, k, w) ==
  LET kd == Kind[k] IN
  IF Rejects(g, cf, k) THEN [st |-> g, out |-> [res |-> "reject", lines |-> {}]]
  ELSE
    LET g1 == [g EXCEPT !.dc = @ \o <<"ts">>, !.sf = @ \o <<"end">>]
        \* every map entry gets its namespaces and the timestamp appended, then is emitted
        g2 == [g1 EXCEPT !.dsm = [d \in DOMAIN g1.dsm |-> [g1.dsm[d] EXCEPT !.mt = @ \o <<"close">>]]]
        dlines == {<<g2.dsm[d].mt, g2.dsm[d].fl, g2.sf>> : d \in DOMAIN g2.dsm}
        needGlobal == dlines = {} \/ g2.fl # P
        \* does the write of a per-dimension-set line fail?
        failsInSets == \/ w \in {"first", "mid"} /\ dlines # {}
                       \/ w = "last" /\ ~needGlobal
        usesDefault == g.edims = "none"
        reuse == Bug = "dimsCached" /\ usesDefault /\ g.dmdef
        gm == IF Bug = "dimsNotCleared" \/ reuse THEN g2 ELSE Clear(g2, "dm")
        g3 == IF needGlobal
                THEN [gm EXCEPT !.dm = IF reuse THEN @ ELSE @ \o <<IF g.edims # "none" THEN "entrydims:" \o g.edims ELSE "defaultdims">>,
                                !.mt = @ \o <<"close">>]
                ELSE g2
        \* the cache flag of Bug = "dimsCached" is updated after the write, i.e. on success only
        g4 == IF Bug = "dimsCached" /\ needGlobal /\ w = "none" THEN [g3 EXCEPT !.dmdef = usesDefault] ELSE g3
        gline == {<<g3.dm, g3.mt, g3.dc, g3.fl, g3.sf>>}
        lines == dlines \cup (IF needGlobal THEN gline ELSE {})
    IN IF w = "none" THEN [st |-> g4, out |-> [res |-> "accept", lines |-> lines]]
       ELSE IF failsInSets
              THEN [st |-> g2, out |-> [res |-> "io", lines |-> IF w = "last" THEN dlines \ {CHOOSE x \in dlines : TRUE} ELSE {}]]
              ELSE [st |-> g4, out |-> [res |-> "io", lines |-> IF w = "last" THEN dlines ELSE {}]]

\* one call of format / format_with_sample_rate
Run(g, cf, k, w) ==
  IF cf.samp /\ Kind[k].rate = "bad"
    THEN [st |-> g, out |-> [res |-> "reject", lines |-> {}]]   \* rejected before anything is touched
    ELSE Finish(Body(Begin(g), cf, k), cf, k, w)

Init == f = F0 /\ c \in {Cfg[n] : n \in ConfigNames}
Format(k, w) == f' = Run(f, c, k, w).st /\ UNCHANGED c
Next == \E k \in KindNames, w \in Faults : Format(k, w)
Spec == Init /\ [][Next]_vars

\* ---- the property ----------------------------------------------------------
Stateless == \A k \in KindNames, w \in Faults : Run(f, c, k, w).out = Run(F0, c, k, w).out

Scrub(g) == [g EXCEPT !.dm = P]
NoResidue == /\ Scrub(Begin(f)) = Scrub(Begin(F0))
             /\ f.ct = P
PrefixKept == /\ \A b \in Bufs : Len(f[b]) >= 1 /\ f[b][1] = "P"
              /\ \A d \in DOMAIN f.dsm : f.dsm[d].fl[1] = "P" /\ f.dsm[d].mt[1] = "P"
HInv == Stateless /\ NoResidue /\ PrefixKept

\* predicted decision of a fresh formatter (printed with the replayed sequences)
Pred(cn, k, w) == Run(F0, Cfg[cn], k, w).out.res
PredLines(cn, k, w) == Cardinality(Run(F0, Cfg[cn], k, w).out.lines)
=============================================================================
