\* quick A: 2 handlers x 1 request without sub-tasks (try_append / append_on_drop), one flush request,
\* attach and attach-handle drop racing with the requests
CONSTANTS
  Plan <- Plan11
  ModesOf <- Direct
  NFlush = 1
  EarlyClose = FALSE
SPECIFICATION Spec
INVARIANTS SvcInv AtEnd
PROPERTY SilentAfterDetach
CHECK_DEADLOCK FALSE
