\* C13 quick: 1 flush guard, 1 force guard, 1 handle, 2 slots, 3 threads
CONSTANTS
  MaxG = 1
  MaxF = 1
  MaxH = 1
  NSlots = 2
  Modes = {"wait", "discard"}
  MaxVer = 1
  MaxSV = 1
  MaxInflight = 3
  WaitData = TRUE
  PreG = {0}
  PreF = {0}
  PreH = {0}
  PreS1 = {"none"}
  PreS2 = {"none"}
SPECIFICATION Spec
INVARIANTS TypeOK RcOK AtMostOnce NeverEarly RightMoment VerOK SlotOK WaitHolds
CHECK_DEADLOCK TRUE
