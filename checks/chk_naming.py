"""C07: #[metrics] emits the documented names, values and units for every type shape.

spec/naming/Naming.tla         the documented naming function as a path model (Root/Descend/Variant/Leaf/TagLeaf),
                               TLC: every root-to-leaf path within the bounds + sanity invariants
spec/naming/NamingReplay.tla   behaviour generation: one line per container chain with the expected item of every
                               leaf kind / tag (final name string, kind, unit, value class, sample-group membership)
tools/gen_naming.py            chains -> Rust types using the real macro (shared-structure encoding, several bins)
harness-naming/                the crate the generated programs are compiled in (recording EntryWriter in src/lib.rs)

The generated programs are compiled against the working tree's macro and run; every emitted
(name, kind, value, unit) and every sample-group pair is compared with TLC's expectation.
"""
import json, os, re, shutil, subprocess, sys, time, collections
from concurrent.futures import ThreadPoolExecutor
import vlib
from vlib import log

sys.path.insert(0, os.path.join(vlib.VERIF, "tools"))
import gen_naming as gn

SPECD = os.path.join(vlib.SPEC, "naming")
DEFAULT_CRATE = os.path.join(vlib.VERIF, "harness-naming")
# stable key of the one known finding of C07 (see known_findings.json): every other mismatch has its own key
SG_FLATTEN_KEY = "C07:sample-group-flatten-prefix"

# binding budget per tier (numbers of sampled chains; everything else is exhaustive)
BUDGET = {
    "quick": {"struct_depth": 2, "struct_d3_chains": 140, "enumroot_tuple": 1, "enumroot_edges": 1,
              "nested_enums": 40, "nested_tuple": 1, "bins": 16},
    "thorough": {"struct_depth": 3, "struct_d3_chains": 0, "enumroot_tuple": 12, "enumroot_edges": 12,
                 "nested_enums": 10 ** 9, "nested_tuple": 2, "bins": 48},
}


# --------------------------------------------------------------------------------------------
# the crate the generated programs live in
# --------------------------------------------------------------------------------------------
def crate_layout():
    """-> (crate_dir, repo, target_dir_setting). Default: /verif/harness-naming against /repo, sharing
    /verif/harness/target. VERIF_HARNESS=<scratch harness> (tools/scratch) or VERIF_REPO=<worktree> redirect
    the path dependencies to a scratch tree (self-test with mutants)."""
    harness = os.path.realpath(vlib.HARNESS)
    with open(os.path.join(harness, "Cargo.toml")) as f:
        htoml = f.read()
    m = re.search(r'metrique = \{ path = "([^"]+)/metrique"', htoml)
    if not m:
        raise vlib.ToolError("cannot find the metrique path dependency in the harness Cargo.toml")
    hrepo = m.group(1)
    repo = os.environ.get("VERIF_REPO", hrepo).rstrip("/")
    default = harness == os.path.realpath(os.path.join(vlib.VERIF, "harness")) and repo == hrepo
    if os.environ.get("VERIF_NAMING_HARNESS"):
        crate = os.environ["VERIF_NAMING_HARNESS"]
    elif default:
        crate = DEFAULT_CRATE
    elif repo == hrepo:
        crate = harness + "-naming"
    else:
        crate = os.path.join(os.path.dirname(repo), "hn-" + os.path.basename(repo))
    target = os.path.relpath(os.path.join(harness, "target"), crate) if repo == hrepo else "target"
    return crate, repo, hrepo, htoml, target


def ensure_crate():
    crate, repo, hrepo, htoml, target = crate_layout()
    deps = htoml[htoml.index("[workspace]"):].replace(hrepo + "/", repo + "/")
    toml = ('[package]\nname = "vharness-naming"\nversion = "0.0.0"\nedition = "2024"\npublish = false\n'
            'autobins = true\n\n# dependencies and profile are those of harness/Cargo.toml so that the compiled dependency\n'
            '# tree in the shared target directory is reused (kept in sync by checks/chk_naming.py)\n' + deps)
    cfg = ('[net]\noffline = true\n[build]\ntarget-dir = "%s"\n'
           'rustflags = ["--cfg", "metrique_verif", "--check-cfg", "cfg(metrique_verif)"]\n' % target)
    os.makedirs(os.path.join(crate, ".cargo"), exist_ok=True)
    os.makedirs(os.path.join(crate, "src", "bin"), exist_ok=True)

    def put(path, text):
        old = None
        if os.path.exists(path):
            with open(path) as f:
                old = f.read()
        if old != text:
            with open(path, "w") as f:
                f.write(text)
            return True
        return False

    changed = put(os.path.join(crate, "Cargo.toml"), toml)
    put(os.path.join(crate, ".cargo", "config.toml"), cfg)
    lock = os.path.join(crate, "Cargo.lock")
    if changed or not os.path.exists(lock):
        shutil.copyfile(os.path.join(os.path.realpath(vlib.HARNESS), "Cargo.lock"), lock)
    if os.path.realpath(crate) != os.path.realpath(DEFAULT_CRATE):
        shutil.copyfile(os.path.join(DEFAULT_CRATE, "src", "lib.rs"), os.path.join(crate, "src", "lib.rs"))
    tdir = os.path.normpath(os.path.join(crate, target))
    return crate, repo, tdir


def cargo_build(crate, bins=None):
    cmd = ["cargo", "build", "--offline", "--quiet"]
    if bins:
        for b in bins:
            cmd += ["--bin", b]
    else:
        cmd.append("--bins")
    # no incremental cache for generated code (it would be ~230 MB per program and is never reused)
    env = dict(os.environ, CARGO_NET_OFFLINE="true", CARGO_INCREMENTAL="0")
    t = time.time()
    p = subprocess.run(cmd, cwd=crate, env=env, stdout=subprocess.PIPE, stderr=subprocess.STDOUT, text=True)
    if p.returncode != 0:
        errs = [l for l in p.stdout.splitlines() if l.startswith("error")]
        sys.stdout.write(p.stdout[-5000:])
        raise vlib.ToolError(f"cargo build of the generated naming programs failed ({len(errs)} errors): {errs[:2]}")
    return time.time() - t


def run_program(tdir, prog):
    exe = os.path.join(tdir, "debug", prog.bin)
    try:
        p = subprocess.run([exe], stdout=subprocess.PIPE, stderr=subprocess.PIPE, text=True, timeout=900,
                           env=dict(os.environ, RUST_BACKTRACE="0"))
    except subprocess.TimeoutExpired:
        raise vlib.ToolError(f"{prog.bin} timed out")
    if p.returncode != 0:
        sys.stdout.write(p.stderr[-3000:])
        raise vlib.ToolError(f"{prog.bin} exited {p.returncode}")
    return {o["id"]: o for o in (json.loads(l) for l in p.stdout.splitlines() if l.strip())}


# --------------------------------------------------------------------------------------------
# which chains are bound to the code
# --------------------------------------------------------------------------------------------
def select(model, tier, rng, stats):
    b = BUDGET[tier]
    sel = set()
    by_fam = collections.defaultdict(list)
    for key in model.lines:
        by_fam[key[0]].append(key)
    for f in by_fam:
        by_fam[f].sort()
    # struct trees: exhaustive up to struct_depth, plus sampled deeper chains
    deep = []
    for key in by_fam["struct"]:
        if model.depth(key) <= b["struct_depth"]:
            sel.add(key)
        elif not model.is_absent(key):
            deep.append(key)
    if b["struct_d3_chains"] and deep:
        sel.update(rng.sample(deep, min(b["struct_d3_chains"], len(deep))))
    stats["struct_deep_chains_total"] = len(deep)
    # entry enums at the root: every enum, its struct / unit variants; tuple variants and flatten fields of
    # the struct variant exhaustive (thorough) or sampled (quick)
    for r in [k for k in by_fam["enumroot"] if len(k) == 2]:
        sel.add(r)
        tuples = []
        for vkey in model.kids.get(r, []):
            t = model.tok(vkey)
            if t[1] == "tuple":
                tuples.append(vkey)
                continue
            sel.add(vkey)
            if t[1] == "struct":
                edges = [c for c in model.kids.get(vkey, []) if not model.is_absent(c)]
                sel.update(rng.sample(edges, min(b["enumroot_edges"], len(edges))))
        sel.update(rng.sample(tuples, min(b["enumroot_tuple"], len(tuples))))
    # entry enums flattened into a struct root
    nested = [k for k in by_fam["enumnested"] if len(k) == 3 and not model.is_absent(k)]
    stats["nested_enums_total"] = len(nested)
    if len(nested) > b["nested_enums"]:
        nested = rng.sample(nested, b["nested_enums"])
    for e in nested:
        sel.add(e)
        tuples = []
        for vkey in model.kids.get(e, []):
            if model.tok(vkey)[1] == "tuple":
                tuples.append(vkey)
            else:
                sel.add(vkey)
        sel.update(rng.sample(tuples, min(b["nested_tuple"], len(tuples))))
    return model.close(sel)


# --------------------------------------------------------------------------------------------
# comparison
# --------------------------------------------------------------------------------------------
def path_str(path):
    key, leaf = path
    return "/".join(key[1:]) + "/" + leaf


def replay_obj(model_lines, prog, inst, path, expected, got, extra=None):
    key = path[0] if path else None
    lines = []
    if key is not None:
        for i in range(2, len(key) + 1):
            l = model_lines.get(key[:i])
            if l is not None:
                lines.append(l)
    o = {"kind": "naming", "program": prog.bin, "instance": inst, "path": path_str(path) if path else None,
         "expected": expected, "got": got, "lines": lines}
    if extra:
        o.update(extra)
    return o


class Comparer:
    def __init__(self, chk, model, meta):
        self.chk = chk
        self.model = model
        self.meta = meta
        self.by_key = collections.Counter()
        self.paths = set()
        self.absent = set()
        self.items = 0
        self.sgpairs = 0
        self.instances = 0
        self.long = collections.Counter()
        self.order_drift = 0

    def report(self, aspect, what, prog, inst, path, expected, got, key=None):
        lk = path[1] if path else "-"
        fam = path[0][0] if path else "-"
        key = key or f"C07:{aspect}:{fam}:{lk}"
        self.by_key[key] += 1
        if self.by_key[key] > 1:
            return
        self.chk.violation(f"{what} [path {path_str(path) if path else '-'}; program {prog.bin} instance {inst}]",
                           replay_obj(self.model.lines, prog, inst, path, expected, got), key=key)

    def compare(self, prog, inst, r, ri, k, m, got):
        self.instances += 1
        items, paths, sg = prog.expected(r, ri, k, m, self.absent)
        if got is None:
            raise vlib.ToolError(f"{prog.bin}: no output for instance {inst}")
        if "panic" in got:
            self.report("panic", f"the generated program panicked while closing/writing: {got['panic']}", prog, inst,
                        paths[0] if paths else None, None, got["panic"])
            return
        gi = [tuple(x) for x in got["items"]]
        gs = [tuple(x) for x in got["sg"]]
        self.items += len(items)
        self.sgpairs += len(sg)
        for it, p in zip(items, paths):
            self.paths.add(p)
            n = len(it[0].encode())
            if n > 100:
                self.long[">100"] += 1
            if n in (100, 101):
                self.long[str(n)] += 1
            if len(it[0]) <= 100 < n:
                self.long["chars<=100<bytes"] += 1
        if gi == items and gs == sg:
            return
        # --- items: exactly one per present path, nothing else
        exp_c = collections.Counter(items)
        got_c = collections.Counter(gi)
        missing = list((exp_c - got_c).elements())
        extra = list((got_c - exp_c).elements())
        if not missing and not extra and gi != items:
            self.order_drift += 1
            if len(self.chk.drift) < 20:
                self.chk.drift.append({"instance": inst, "what": "items are emitted in a different order than the fields are declared"})
        path_of = {}
        for it, p in zip(items, paths):
            path_of.setdefault(it, p)
        used = set()
        for it in missing:
            p = path_of[it]
            # the emitted item that belongs to the same field: same value+kind+unit (values are unique per field)
            cand = [j for j, e in enumerate(extra) if j not in used and e[1:4] == it[1:4]]
            if not cand:
                cand = [j for j, e in enumerate(extra) if j not in used and e[0] == it[0]]
            if cand:
                j = cand[0]
                used.add(j)
                e = extra[j]
                if e[0] != it[0]:
                    self.report("name", f"item is emitted under the name {e[0]!r}, the documented name is {it[0]!r}", prog, inst, p, it, e)
                elif e[1] != it[1]:
                    self.report("kind", f"item {it[0]!r} is emitted as {e[1]}, expected {it[1]}", prog, inst, p, it, e)
                elif e[3] != it[3]:
                    self.report("unit", f"item {it[0]!r} has unit {e[3]!r}, expected {it[3]!r}", prog, inst, p, it, e)
                else:
                    self.report("value", f"item {it[0]!r} has value {e[2]!r}, expected {it[2]!r}", prog, inst, p, it, e)
            else:
                self.report("missing", f"no item for a present, non-ignored field: expected {it!r}", prog, inst, p, it, None)
        for j, e in enumerate(extra):
            if j not in used:
                # attribute the extra item to the path of an absent/ignored field if its value matches none
                self.report("extra", f"an item is emitted that no field accounts for (absent Option / ignored field?): {e!r}",
                            prog, inst, paths[0] if paths else (r.key, "-"), None, e)
        # --- sample group pairs
        if gs != sg:
            exp_s = collections.Counter(sg)
            got_s = collections.Counter(gs)
            smiss = list((exp_s - got_s).elements())
            sextra = list((got_s - exp_s).elements())
            if not smiss and not sextra:
                return      # order of pairs is not part of the property ("the order of pairs doesn't matter")
            spath = {}
            for it, p in zip(items, paths):
                spath.setdefault((it[0], it[2]), p)
            used = set()
            for pr in smiss:
                p = spath.get(pr, paths[0] if paths else None)
                cand = [j for j, e in enumerate(sextra) if j not in used and e[1] == pr[1]]
                if cand:
                    # prefer the pair whose name is the item's name without its flatten-prefix chain
                    flat = self.model.lines[p[0]].get("flat", "") if p else ""
                    shaped = [j for j in cand if flat and pr[0] == flat + sextra[j][0]]
                    j = (shaped or cand)[0]
                    used.add(j)
                    e = sextra[j]
                    # exactly this shape is the known defect: sample_group() of a flattened child is computed
                    # without the prefixes of the flatten fields leading to it
                    key = SG_FLATTEN_KEY if shaped else None
                    self.report("sg-name", f"sample-group pair is named {e[0]!r} but the item it belongs to is emitted as {pr[0]!r}"
                                + (f" (the flatten prefix chain {flat!r} is missing)" if shaped else ""),
                                prog, inst, p, list(pr), list(e), key=key)
                else:
                    self.report("sg-missing", f"sample-group pair {pr!r} is missing", prog, inst, p, list(pr), None)
            for j, e in enumerate(sextra):
                if j not in used:
                    self.report("sg-extra", f"unexpected sample-group pair {e!r}", prog, inst, paths[0] if paths else None, None, list(e))


# --------------------------------------------------------------------------------------------
def tlc_runs(chk, tier):
    """Model checking of Naming.tla and behaviour generation with NamingReplay.tla.
    Self-test only: with VERIF_NAMING_REUSE_TLC=1 the TLC results of the previous run with the same tier and seed
    are reused (mutants change the code under test, never the specification)."""
    cache = os.path.join(vlib.RUNS, "_naming_tlc", f"{tier}-{chk.seed}.json")
    if os.environ.get("VERIF_NAMING_REUSE_TLC") and os.path.exists(cache):
        with open(cache) as f:
            c = json.load(f)
        chk.models = c["models"]
        chk.states, chk.transitions = c["states"], c["transitions"]
        chk.extra["quick_bounds"] = c.get("quick_bounds")
        chk.extra["tlc_results_reused"] = True
        rr = vlib.TlcResult(c["out"], 0, 0.0)
        return rr
    cfg = "MC_naming_quick.cfg" if tier == "quick" else "MC_naming.cfg"
    r = vlib.model_check(SPECD, "Naming", cfg, timeout=3600)
    chk.add_model("Naming/" + cfg, r)
    for a in ("RootAny", "DescendAny", "VariantAny", "LeafAny", "TagLeafAny"):
        if not r.coverage.get(a):
            raise vlib.ToolError(f"vacuity: action {a} of Naming.tla is never taken in {cfg}")
    rcfg = replay_cfg(chk, tier)
    rr = vlib.tlc(SPECD, "NamingReplay", rcfg, timeout=3600)
    if rr.errors or not rr.no_error:
        sys.stdout.write(rr.out[-3000:])
        raise vlib.ToolError(f"NamingReplay failed: {rr.errors[:2]}")
    chk.add_model("NamingReplay/" + os.path.basename(rcfg), rr)
    if os.environ.get("VERIF_NAMING_REUSE_TLC"):
        os.makedirs(os.path.dirname(cache), exist_ok=True)
        keep = "\n".join(l for l in rr.out.splitlines() if l.startswith('<<"REPLAY"') or l.startswith('<<"META"'))
        with open(cache, "w") as f:
            json.dump({"models": chk.models, "states": chk.states, "transitions": chk.transitions,
                       "quick_bounds": chk.extra.get("quick_bounds"), "out": keep}, f)
    return rr


def replay_cfg(chk, tier):
    """thorough: MC_naming_replay.cfg (everything). quick: the same module with a seeded subset of the container
    variants at the deepest level (struct level 3: 2 rename_all x 2 prefix kinds; below an entry enum: 2 x 1),
    written to the run directory."""
    base = os.path.join(SPECD, "MC_naming_replay.cfg")
    if tier != "quick":
        return base
    rng = chk.rng
    ras = ["none", "pascal", "snake", "kebab"]
    pks = ["none", "infl", "exact"]

    def tla_set(xs):
        return "{" + ", ".join('"%s"' % x for x in sorted(xs)) + "}"

    sub = {"ChildRAs": tla_set(rng.sample(ras, 2)), "ChildPKs": tla_set(rng.sample(pks, 1)),
           "DeepRAs": tla_set(rng.sample(ras, 2)), "DeepPKs": tla_set(rng.sample(pks, 2))}
    with open(base) as f:
        text = f.read()
    for k, v in sub.items():
        text = re.sub(r"(?m)^  %s = .*$" % k, "  %s = %s" % (k, v), text)
    chk.extra["quick_bounds"] = sub
    path = os.path.join(chk.dir, "MC_naming_replay_quick.cfg")
    with open(path, "w") as f:
        f.write("\\* generated by checks/chk_naming.py (seed %d) from MC_naming_replay.cfg\n" % chk.seed + text)
    return path


def generate_build_run(chk, model, sel, nbins, prefix="gen_b"):
    crate, repo, tdir = ensure_crate()
    progs = gn.plan(model, sel, nbins, chk.seed, prefix=prefix)
    nlines = gn.write_programs(crate, progs, prefix=prefix)
    log(f"[gen] {len(progs)} programs, {nlines} generated lines, weights {min(p.weight for p in progs)}..{max(p.weight for p in progs)} "
        f"names; crate {crate} against {repo}")
    wall = cargo_build(crate, [p.bin for p in progs])
    log(f"[build] generated naming programs in {wall:.1f}s")
    chk.extra["generated_lines"] = nlines
    chk.extra["programs"] = len(progs)
    chk.extra["compile_wall_s"] = round(wall, 1)
    with ThreadPoolExecutor(max_workers=8) as ex:
        outs = list(ex.map(lambda p: run_program(tdir, p), progs))
    return progs, outs


def run(prop, tier):
    chk = vlib.Check(prop, tier)
    chk.rule = ("traces = distinct root-to-leaf paths of Naming.tla whose expected item was compared with what the compiled "
                "program emitted (incl. the paths that must contribute nothing: ignored fields, None leaves, None children); evaluations = emitted items + sample-group pairs compared; distinct_nontrivial = distinct "
                "(path, final name) pairs")
    chk.assumptions = [
        "identifiers are lowercase snake-case words (fields, prefixes) and PascalCase words (variants); Inflector's treatment of digits/acronyms is out of scope",
        "names are independent per field (a struct definition shared by many paths decides each of them)",
        "TLC enumerates every path within MaxDepth=3 / the enum families of MC_naming*.cfg; deeper trees are not covered",
        "quick binds all struct trees of depth <= 2 and every root enum, deeper chains and nested enums by a seeded sample; "
        "thorough binds every struct tree of depth 3",
    ]
    # 1. the path model: all paths, sanity invariants, coverage; 2. behaviours
    rr = tlc_runs(chk, tier)
    meta, lines = gn.parse_tlc_output(rr.out)
    rr.out = ""
    if meta is None or not lines:
        raise vlib.ToolError("NamingReplay printed no behaviours")
    model = gn.Model(meta, lines)
    log(f"[tlc] NamingReplay: {len(lines)} container chains ({rr.distinct} states) in {rr.wall:.1f}s")
    stats = {}
    sel = select(model, tier, chk.rng, stats)
    chk.extra["chains_total"] = len(lines)
    chk.extra["chains_bound"] = len(sel)
    # 3. programs
    progs, outs = generate_build_run(chk, model, sel, BUDGET[tier]["bins"])
    # 4. compare
    cmp_ = Comparer(chk, model, meta)
    for prog, out in zip(progs, outs):
        for inst, root, ri, k, m in prog.instances():
            cmp_.compare(prog, inst, root, ri, k, m, out.get(inst))
    chk.traces = len(cmp_.paths) + len(cmp_.absent)
    chk.evaluations = cmp_.items + cmp_.sgpairs
    for p in cmp_.paths:
        chk.nontrivial.add(p)
    for p in cmp_.absent:
        chk.nontrivial.add(p)
    fam = collections.Counter(p[0][0] for p in cmp_.paths)
    kinds = collections.Counter(p[1] for p in cmp_.paths)
    chk.extra.update({"instances": cmp_.instances, "items_compared": cmp_.items, "sample_group_pairs_compared": cmp_.sgpairs,
                      "paths_by_family": dict(fam), "paths_by_leaf": dict(kinds),
                      "absent_paths_checked": dict(collections.Counter(p[1] for p in cmp_.absent)),
                      "names_over_100_bytes": cmp_.long[">100"], "names_of_100_bytes": cmp_.long["100"],
                      "names_of_101_bytes": cmp_.long["101"],
                      "names_of_at_most_100_chars_and_over_100_bytes": cmp_.long["chars<=100<bytes"], "order_drift_instances": cmp_.order_drift,
                      "violations_by_key": dict(cmp_.by_key), **stats})
    for prog in progs[:2]:
        for inst, root, ri, k, m in prog.instances():
            items, paths, sg = prog.expected(root, ri, k, m)
            if items:
                chk.sample({"instance": inst, "path": path_str(paths[-1]), "item": list(items[-1]), "sample_group": sg[-1:]})
                break
    if not cmp_.long[">100"]:
        raise vlib.ToolError("vacuity: no bound name crosses the 100-byte const-string limit")
    log(f"[C07] {cmp_.instances} instances, {len(cmp_.paths)} paths, {cmp_.items} items, {cmp_.sgpairs} sample-group pairs; "
        f"names >100 bytes: {cmp_.long['>100']}, =100: {cmp_.long['100']}, =101: {cmp_.long['101']}")
    return chk.finish()


def replay(prop, path):
    """Re-generate the types of the chain stored in a violation file, compile them against the current tree and
    compare again."""
    with open(path) as f:
        v = json.load(f)
    rp = v["replay"]
    lines = rp.get("lines") or []
    if not lines:
        log("nothing to replay (no chain stored)")
        return 2
    chk = vlib.Check(prop + "-replay", "quick")
    chk.findings = vlib.load_findings(prop)
    rr = vlib.tlc(SPECD, "NamingReplay", "MC_naming_replay.cfg", timeout=3600)
    meta, all_lines = gn.parse_tlc_output(rr.out)
    model = gn.Model(meta, all_lines)
    key = (lines[-1]["fam"],) + tuple(lines[-1]["chain"])
    if key not in model.lines:
        raise vlib.ToolError("the stored chain is not a behaviour of the current specification")
    sel = model.close({key} | {c for c in model.kids.get(key, []) if model.tok(c)[0] == "V"})
    progs, outs = generate_build_run(chk, model, sel, 1, prefix="gen_r")
    cmp_ = Comparer(chk, model, meta)
    for prog, out in zip(progs, outs):
        for inst, root, ri, k, m in prog.instances():
            cmp_.compare(prog, inst, root, ri, k, m, out.get(inst))
    log(f"replayed {path_str((key, ''))}: {cmp_.instances} instances, {cmp_.items} items, violations: {dict(cmp_.by_key)}")
    return 1 if chk.violations else 0
