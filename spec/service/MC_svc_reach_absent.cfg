\* vacuity guard (must be refuted): a discard-mode slot value is absent from the line
CONSTANTS
  Plan <- Plan1
  ModesOf <- DiscOnly
  NFlush = 0
  EarlyClose = FALSE
SPECIFICATION Spec
INVARIANTS ReachSubAbsent

CHECK_DEADLOCK FALSE
