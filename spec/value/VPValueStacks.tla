--------------------------- MODULE VPValueStacks ---------------------------
(***************************************************************************)
(* C15/C19, value level: every stack of value wrappers of depth <= Depth    *)
(* over every base value.  State = (base, stack, value after the layers     *)
(* applied so far); one action per wrapper layer (ApplyV).  TLC checks on   *)
(* every stack that the layer-by-layer result is exactly the documented     *)
(* additions (DenoteV) and prints the stack with the expected final call.   *)
(***************************************************************************)
EXTENDS ValuePipeline, Json

CONSTANTS Depth, Bases, StackUnits
VARIABLES base, stack, val
vars == <<base, stack, val>>

DimSets == {<<"a">>, <<"b", "c">>, <<>>}
Wrappers(v) ==
    {[VW("Dim") EXCEPT !.ds = ds] : ds \in DimSets}
    \cup {[VW("Flag") EXCEPT !.f = f] : f \in {"A", "B", "0"}}   \* "0": a constructor that contributes no flags
    \cup {VW(w) : w \in IdentityValueWrappers \cup {"None"}}
    \* formatter-lifted containers: directly around the base value only (keeps the number of stacks moderate)
    \cup (IF stack = <<>> THEN {VW(w) : w \in FormatterLifted \cup {"FmtNone"}} ELSE {})
    \cup {[VW("Unit") EXCEPT !.from = v.prom, !.to = t] : t \in {t \in StackUnits : Convertible(U(v.prom), U(t))}}

Init == base \in Bases /\ stack = <<>> /\ val = BaseVal(base)
Wrap(w) == /\ CanApplyV(w, val)
           /\ stack' = Append(stack, w) /\ val' = ApplyV(w, val) /\ UNCHANGED base
Next == \E w \in Wrappers(val) : Wrap(w)
Spec == Init /\ [][Next]_vars
Bound == Len(stack) <= Depth

\* the transparency invariant: layer by layer = documented additions on the whole stack
Transparent == val.call = DenoteV(base, stack)

\* consequences spelled out (what C15 / C19 say), checked separately so that a slip in DenoteV shows
OnlyAdditions ==
    LET b == BaseVal(base).call
        c == val.call
        noUnit == \A i \in DOMAIN stack : stack[i].w # "Unit"
        noNone == \A i \in DOMAIN stack : ~IsNoneW(stack[i].w)
    IN  /\ (noUnit /\ noNone) => /\ c.kind = b.kind /\ c.obs = b.obs /\ c.unit = b.unit /\ c.err = b.err
                                 /\ b.kind # "metric" => c = b
                                 /\ SubSeq(c.dims, 1, Len(b.dims)) = b.dims
                                 /\ b.flags \subseteq c.flags
        /\ (\A i \in DOMAIN stack : stack[i].w \in IdentityValueWrappers \cup FormatterLifted) => c = b
        /\ ~noNone => c = NoCall
Units19 ==
    LET c == val.call
    IN  /\ PhysicalOK(c)
        /\ (c.kind = "metric" /\ \E i \in DOMAIN stack : stack[i].w = "Unit")
              => c.unit = stack[Max(UnitLayers(stack))].to
        \* a unit on a string, or on a value that writes another unit than it promises: an error, never a number
        /\ (\E i \in DOMAIN stack : stack[i].w = "Unit") /\ (\A i \in DOMAIN stack : ~IsNoneW(stack[i].w))
              /\ (base = "str" \/ base = "bad") => c.kind = "error"
        /\ c.kind = "metric" => \A i \in DOMAIN c.obs : c.obs[i].occ = BaseVal(base).call.obs[i].occ

Emit == Len(stack) <= Depth => PrintT(<<"REPLAY", ToJson([base |-> base, stack |-> stack, expect |-> val.call])>>)
EmitUnits == stack = <<>> => PrintT(<<"UNITS", ToJson([u \in UnitIds |-> U(u).name])>>)
\* MetricFlags::try_merge itself, on every pair of flag sets ({} = no flags on that side)
EmitFlagMerge == (stack = <<>> /\ base = "u64") =>
    /\ FlagMergeLaws
    /\ PrintT(<<"FLAGMERGE", ToJson({[x |-> x, y |-> y, r |-> FlagMerge(x, y)] :
                                        x \in SUBSET {"A", "B", "C"}, y \in SUBSET {"A", "B", "C"}})>>)
=============================================================================
