CONSTANTS
  Streams = {"a", "b"}
  MaxEntries = 3
  Bug = "none"
SPECIFICATION RSpec
INVARIANT Emit
CHECK_DEADLOCK FALSE
