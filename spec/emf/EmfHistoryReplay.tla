-------------------------- MODULE EmfHistoryReplay --------------------------
(***************************************************************************)
(* Behaviour generator for EmfHistory (C14): every sequence of entry kinds *)
(* of length Depth (exhaustive BFS over the history variable, or long      *)
(* `-simulate` walks) for every configuration, printed as one JSON line    *)
(* together with the decision the model predicts for each position.  The   *)
(* harness (emfh) formats the sequence with ONE long-lived real formatter  *)
(* and compares every position with a freshly built one.                   *)
(* Configurations in Deep are enumerated to Depth, the others to Shallow.  *)
(***************************************************************************)
EXTENDS EmfHistory, Json

CONSTANTS Depth, Shallow, Deep
VARIABLES hist, cn

D == IF cn \in Deep THEN Depth ELSE Shallow
RInit == /\ cn \in ConfigNames /\ c = Cfg[cn] /\ f = F0 /\ hist = <<>>
RNext == Len(hist) < D /\ \E k \in KindNames : Format(k) /\ hist' = Append(hist, k) /\ UNCHANGED cn
RSpec == RInit /\ [][RNext]_<<vars, hist, cn>>

Bound == Len(hist) <= D
Emit == (Len(hist) = D) =>
          PrintT(<<"REPLAY", ToJson([cfg |-> cn, kinds |-> hist,
                                     pred |-> [i \in 1..Len(hist) |-> Pred(cn, hist[i])],
                                     lines |-> [i \in 1..Len(hist) |-> PredLines(cn, hist[i])]])>>)
=============================================================================
