\* 2 producer handles x 2 inputs, 2 keys, producer 1 awaits a flush; every interleaving with the worker
CONSTANTS
  Producers = {1, 2}
  NSend = 2
  NK = 2
  Flushing = {1}
  BreakOnDisconnect = TRUE
SPECIFICATION Spec
INVARIANTS AbsInv Conserved DoneMeansAll
PROPERTY Refines
CHECK_DEADLOCK FALSE
