//! Driver for the unit-of-work guard `AppendAndCloseOnDrop`, its keep-alive protocol and slots
//! (C06, C13; spec/keepalive/*.tla).
//!
//!   ka seq   --behaviours b.ndjson --out results.ndjson
//!       R-sequential: every operation of a KeepAliveSeq.tla history is executed atomically on a
//!       real entry; after every operation the number of entries the sink received so far (and
//!       their content) is reported
//!   ka sched --schedules s.ndjson --out trace.ndjson --meta meta.ndjson
//!       R-scheduled: a KeepAliveSched.tla behaviour (one reference-count operation per step) is
//!       stepped through real threads under the cooperative controller; the recorded events are
//!       validated against KeepAliveTrace.tla
//!   ka run   --scenarios s.ndjson --out trace.ndjson --meta meta.ndjson
//!       T: free-running stress; the drops of one entry's owner / handles / guards are
//!       distributed over threads released by a barrier

use metrique::unit_of_work::metrics;
use metrique::writer::{Entry, EntrySink, EntryWriter};
use metrique::{
    AppendAndCloseOnDrop, AppendAndCloseOnDropHandle, CloseValue, Counter, FlushGuard,
    ForceFlushGuard, InflectableEntry, LazySlot, NameStyle, OnParentDrop, RootMetric, Slot, SlotGuard,
};
use metrique_core::CloseEntry;
use serde_json::{Value, json};
use std::cell::Cell;
use std::collections::HashMap;
use std::future::Future;
use std::io::Write;
use std::sync::{Arc, Barrier, Mutex};
use std::task::{Context, Poll};
use std::time::{Duration, Instant};
use vharness::sched::{self, Arrival};
use vharness::{trace, util};

// ------------------------------------------------------------------------------------------
// the entry under test
// ------------------------------------------------------------------------------------------

/// Owner-mutated field. It is the first field of the entry, so its `close` marks the moment the
/// entry begins to close.
struct VerField(u64);
impl CloseValue for VerField {
    type Closed = u64;
    fn close(self) -> u64 {
        trace::evi("EmitBegin", &[]);
        sched::point("h.em_begin", &[]);
        self.0
    }
}

/// Sits between the two slots: a scheduling point between the two slot reads.
struct Marker;
impl CloseValue for Marker {
    type Closed = u64;
    fn close(self) -> u64 {
        sched::point("h.em_mid", &[]);
        0
    }
}

/// Content of a slot.
#[derive(Debug)]
pub struct Sub {
    idx: u8,
    v: u64,
    /// fault injection: `close` panics (the guard then goes away without delivering a value)
    fault: bool,
}
pub struct SubClosed {
    idx: u8,
    v: u64,
}
/// free-running scenarios: the slot value's close takes this long (microseconds, seeded per
/// scenario), which widens the window between the begin of SlotGuard::drop and its send
static CLOSE_SPIN_US: std::sync::atomic::AtomicU64 = std::sync::atomic::AtomicU64::new(0);

impl CloseValue for Sub {
    type Closed = SubClosed;
    /// Runs inside `SlotGuard::drop`, before the value is sent: a scheduling point "the guard's
    /// thread is closing its value" (user code, arbitrarily slow).
    fn close(self) -> SubClosed {
        sched::point("h.slot_close", &[self.idx as i64]);
        if self.fault {
            // a misbehaving payload: its close panics inside SlotGuard::drop
            std::panic::resume_unwind(Box::new(CLOSE_FAULT));
        }
        let us = CLOSE_SPIN_US.load(std::sync::atomic::Ordering::Relaxed);
        if us > 0 {
            let t = Instant::now();
            while t.elapsed() < Duration::from_micros(us) {
                std::hint::spin_loop();
            }
        }
        SubClosed { idx: self.idx, v: self.v }
    }
}
impl<NS: NameStyle> InflectableEntry<NS> for SubClosed {
    fn write<'a>(&'a self, w: &mut impl EntryWriter<'a>) {
        w.value(if self.idx == 1 { "a1" } else { "a2" }, &self.v);
    }
}

#[metrics]
struct EntryA {
    ver: VerField,
    cnt: Counter,
    #[metrics(flatten)]
    s1: Slot<Sub>,
    mid: Marker,
    #[metrics(flatten)]
    s2: LazySlot<Sub>,
}

#[metrics]
struct EntryB {
    ver: VerField,
    cnt: Counter,
    #[metrics(flatten)]
    s1: LazySlot<Sub>,
    mid: Marker,
    #[metrics(flatten)]
    s2: Slot<Sub>,
}

thread_local! {
    /// how long `wait_for_data` may take before the harness gives up (and drops the future)
    static WAIT_BUDGET: Cell<Duration> = const { Cell::new(Duration::from_secs(10)) };
    static WAIT_EXPIRY_IS_DRIFT: Cell<bool> = const { Cell::new(false) };
}

/// Ok(value handed back) or Err(()) when the data did not arrive within the budget
fn wait_slot(s: &mut Slot<Sub>) -> Result<Option<u64>, ()> {
    // bounded wait: poll with a no-op waker (the guard's drop completes the channel)
    let mut fut = std::pin::pin!(s.wait_for_data());
    let waker = futures::task::noop_waker();
    let mut cx = Context::from_waker(&waker);
    let deadline = Instant::now() + WAIT_BUDGET.with(|b| b.get());
    loop {
        if let Poll::Ready(d) = fut.as_mut().poll(&mut cx) {
            return Ok(d.as_ref().map(|c| c.v));
        }
        if Instant::now() > deadline {
            return Err(());
        }
        std::thread::sleep(Duration::from_micros(20));
    }
}

trait KaEntry: CloseEntry + Send + Sync + Sized + 'static {
    fn fresh() -> Self;
    fn bump(&mut self);
    fn bump_shared(&self);
    fn open(&mut self, s: usize, mode: OnParentDrop) -> Option<SlotGuard<Sub>>;
    /// None: this slot is a LazySlot (no wait_for_data); Some(Err) = the data did not arrive in time
    fn wait(&mut self, s: usize) -> Option<Result<Option<u64>, ()>>;
    /// the `Slot` field (the other one is a `LazySlot`, which has no wait_for_data)
    fn slot(&mut self, s: usize) -> Option<&mut Slot<Sub>>;
    /// start waiting for the slot's data and give up (drop the pending future); Some(true) = was pending
    fn wait_cancel(&mut self, s: usize) -> Option<bool> {
        let slot = self.slot(s)?;
        let mut fut = std::pin::pin!(slot.wait_for_data());
        let waker = futures::task::noop_waker();
        let mut cx = Context::from_waker(&waker);
        Some(fut.as_mut().poll(&mut cx).is_pending())
    }
    /// take the data that wait_for_data handed back out of the slot; Some(true) = there was data
    fn take_waited(&mut self, s: usize) -> Option<bool> {
        let slot = self.slot(s)?;
        let mut fut = std::pin::pin!(slot.wait_for_data());
        let waker = futures::task::noop_waker();
        let mut cx = Context::from_waker(&waker);
        match fut.as_mut().poll(&mut cx) {
            Poll::Ready(d) => Some(d.take().is_some()),
            Poll::Pending => Some(false),
        }
    }
}

impl KaEntry for EntryA {
    fn fresh() -> Self {
        EntryA {
            ver: VerField(0),
            cnt: Counter::default(),
            s1: Slot::new(Sub { idx: 1, v: 0, fault: false }),
            mid: Marker,
            s2: LazySlot::default(),
        }
    }
    fn bump(&mut self) {
        self.ver.0 += 1;
    }
    fn bump_shared(&self) {
        self.cnt.increment();
    }
    fn open(&mut self, s: usize, mode: OnParentDrop) -> Option<SlotGuard<Sub>> {
        if s == 1 { self.s1.open(mode) } else { self.s2.open(Sub { idx: 2, v: 0, fault: false }, mode) }
    }
    fn wait(&mut self, s: usize) -> Option<Result<Option<u64>, ()>> {
        if s == 1 { Some(wait_slot(&mut self.s1)) } else { None }
    }
    fn slot(&mut self, s: usize) -> Option<&mut Slot<Sub>> {
        if s == 1 { Some(&mut self.s1) } else { None }
    }
}

impl KaEntry for EntryB {
    fn fresh() -> Self {
        EntryB {
            ver: VerField(0),
            cnt: Counter::default(),
            s1: LazySlot::default(),
            mid: Marker,
            s2: Slot::new(Sub { idx: 2, v: 0, fault: false }),
        }
    }
    fn bump(&mut self) {
        self.ver.0 += 1;
    }
    fn bump_shared(&self) {
        self.cnt.increment();
    }
    fn open(&mut self, s: usize, mode: OnParentDrop) -> Option<SlotGuard<Sub>> {
        if s == 1 { self.s1.open(Sub { idx: 1, v: 0, fault: false }, mode) } else { self.s2.open(mode) }
    }
    fn wait(&mut self, s: usize) -> Option<Result<Option<u64>, ()>> {
        if s == 2 { Some(wait_slot(&mut self.s2)) } else { None }
    }
    fn slot(&mut self, s: usize) -> Option<&mut Slot<Sub>> {
        if s == 2 { Some(&mut self.s2) } else { None }
    }
}

// ------------------------------------------------------------------------------------------
// the sink: snapshots what it receives
// ------------------------------------------------------------------------------------------

#[derive(Clone, Debug)]
struct Snap {
    ver: i64,
    s: [i64; 2],
    by: String,
}
static SNAPS: Mutex<Vec<Snap>> = Mutex::new(Vec::new());
thread_local! {
    static TAG: Cell<&'static str> = const { Cell::new("main") };
}
fn tag_of(k: &str, i: usize) -> &'static str {
    Box::leak(format!("{k}{i}").into_boxed_str())
}

#[derive(Clone)]
struct SnapSink;
impl<E: Entry> EntrySink<E> for SnapSink {
    fn append(&self, entry: E) {
        sched::point("h.em_append", &[]);
        let t = metrique::writer::test_util::to_test_entry(&entry);
        let get = |k: &str| t.metrics.get(k).map(|m| m.as_u64() as i64);
        let snap = Snap {
            ver: get("ver").unwrap_or(-100) + get("cnt").unwrap_or(-100),
            s: [get("a1").unwrap_or(-1), get("a2").unwrap_or(-1)],
            by: TAG.with(|t| t.get()).to_string(),
        };
        // logged while the snapshot list is locked: Append events and snapshots have the same order
        let mut g = SNAPS.lock().unwrap_or_else(|e| e.into_inner());
        trace::ev(json!({"ev":"Append","ver":snap.ver,"s":[snap.s[0], snap.s[1]]}));
        g.push(snap);
    }
    fn flush_async(&self) -> metrique::writer::sink::FlushWait {
        metrique::writer::sink::FlushWait::ready()
    }
}
fn snaps() -> Vec<Snap> {
    SNAPS.lock().unwrap_or_else(|e| e.into_inner()).clone()
}
fn snaps_clear() {
    SNAPS.lock().unwrap_or_else(|e| e.into_inner()).clear()
}
fn snap_json(s: &Snap) -> Value {
    json!({"ver": s.ver, "s": [s.s[0], s.s[1]], "by": s.by})
}

// ------------------------------------------------------------------------------------------
// the objects of one scenario
// ------------------------------------------------------------------------------------------

type Owner<E> = AppendAndCloseOnDrop<E, SnapSink>;
type Handle<E> = AppendAndCloseOnDropHandle<E, SnapSink>;

/// held only to be dropped at the right moment
#[allow(dead_code)]
enum Obj<E: KaEntry>
where
    SnapSink: EntrySink<RootMetric<E>>,
{
    O(Owner<E>),
    H(Handle<E>),
    G(FlushGuard),
    F(ForceFlushGuard),
    S(SlotGuard<Sub>),
}

struct World<E: KaEntry>
where
    SnapSink: EntrySink<RootMetric<E>>,
{
    objs: HashMap<(String, usize), Obj<E>>,
    /// open a wait-mode slot as open(Discard) + delay_flush(guard) instead of open(Wait(guard))
    delay: bool,
}

fn key(k: &str, i: usize) -> (String, usize) {
    (k.to_string(), i)
}

impl<E: KaEntry> World<E>
where
    SnapSink: EntrySink<RootMetric<E>>,
{
    fn new(delay: bool) -> Self {
        let owner: Owner<E> = metrique::append_and_close(E::fresh(), SnapSink);
        let mut objs = HashMap::new();
        objs.insert(key("o", 0), Obj::O(owner));
        World { objs, delay }
    }
    fn empty(delay: bool) -> Self {
        World { objs: HashMap::new(), delay }
    }
    fn owner(&mut self) -> Option<&mut Owner<E>> {
        match self.objs.get_mut(&key("o", 0)) {
            Some(Obj::O(o)) => Some(o),
            _ => None,
        }
    }
    fn any_handle(&self) -> Option<&Handle<E>> {
        let mut ks: Vec<_> = self.objs.keys().filter(|k| k.0 == "h").cloned().collect();
        ks.sort();
        ks.first().and_then(|k| match self.objs.get(k) {
            Some(Obj::H(h)) => Some(h),
            _ => None,
        })
    }
    fn new_guard(&mut self, i: usize) -> bool {
        let Some(o) = self.owner() else { return false };
        let g = o.flush_guard();
        trace::ev(json!({"ev":"New","k":"g","i":i,"mode":""}));
        self.objs.insert(key("g", i), Obj::G(g));
        true
    }
    fn new_force(&mut self, i: usize) -> bool {
        let Some(o) = self.owner() else { return false };
        let f = o.force_flush_guard();
        trace::ev(json!({"ev":"New","k":"f","i":i,"mode":""}));
        self.objs.insert(key("f", i), Obj::F(f));
        true
    }
    /// returns Some(true) if a guard was returned
    fn open(&mut self, s: usize, mode: &str) -> Option<bool> {
        let delay = self.delay;
        let o = self.owner()?;
        let r = if mode == "wait" {
            let fg = o.flush_guard();
            if delay {
                let mut r = o.open(s, OnParentDrop::Discard);
                if let Some(sg) = r.as_mut() {
                    sg.delay_flush(fg);
                }
                r
            } else {
                o.open(s, OnParentDrop::Wait(fg))
            }
        } else {
            o.open(s, OnParentDrop::Discard)
        };
        match r {
            Some(sg) => {
                trace::ev(json!({"ev":"New","k":"s","i":s,"mode":mode}));
                self.objs.insert(key("s", s), Obj::S(sg));
                Some(true)
            }
            None => Some(false),
        }
    }
    /// `delay_flush` with a fresh flush guard on the live slot guard `s` (in whatever mode it is)
    fn delay(&mut self, s: usize) -> bool {
        let Some(fg) = self.owner().map(|o| o.flush_guard()) else { return false };
        if let Some(Obj::S(sg)) = self.objs.get_mut(&key("s", s)) {
            sg.delay_flush(fg);
            trace::ev(json!({"ev":"Delay","i":s}));
            true
        } else {
            false
        }
    }
    /// a second open of an already opened slot (a wait-mode attempt hands over a fresh flush
    /// guard, which is dropped again when no slot guard comes back)
    fn reopen(&mut self, s: usize, mode: &str) -> Option<bool> {
        let o = self.owner()?;
        let m = if mode == "wait" { OnParentDrop::Wait(o.flush_guard()) } else { OnParentDrop::Discard };
        let r = o.open(s, m);
        let some = r.is_some();
        trace::ev(json!({"ev":"ReOpen","i":s,"some": if some {1} else {0}}));
        if let Some(sg) = r {
            // keep a wrongly returned guard alive until the end of the scenario
            self.objs.insert(key("s", s + 10), Obj::S(sg));
        }
        Some(some)
    }
    fn make_handle(&mut self) -> bool {
        match self.objs.remove(&key("o", 0)) {
            Some(Obj::O(o)) => {
                let h = o.handle();
                trace::ev(json!({"ev":"New","k":"h","i":1,"mode":""}));
                self.objs.insert(key("h", 1), Obj::H(h));
                true
            }
            Some(x) => {
                self.objs.insert(key("o", 0), x);
                false
            }
            None => false,
        }
    }
    fn clone_handle(&mut self, i: usize) -> bool {
        let Some(h) = self.any_handle() else { return false };
        let h2 = h.clone();
        trace::ev(json!({"ev":"New","k":"h","i":i,"mode":""}));
        self.objs.insert(key("h", i), Obj::H(h2));
        true
    }
    fn mutate(&mut self) -> bool {
        if let Some(o) = self.owner() {
            trace::evi("Mut", &[]);
            o.bump();
            return true;
        }
        if let Some(h) = self.any_handle() {
            trace::evi("Mut", &[]);
            h.bump_shared();
            return true;
        }
        false
    }
    fn mut_slot(&mut self, s: usize) -> bool {
        if let Some(Obj::S(sg)) = self.objs.get_mut(&key("s", s)) {
            trace::evi("SMut", &[("i", s as i64)]);
            sg.v += 1;
            true
        } else {
            false
        }
    }
    /// Some(-2) = timed out, Some(-1) = the guard went away without a value, Some(v) = value
    /// the payload of slot guard `s` will panic in its `close`
    fn arm_fault(&mut self, s: usize) -> bool {
        if let Some(Obj::S(sg)) = self.objs.get_mut(&key("s", s)) {
            sg.fault = true;
            trace::ev(json!({"ev":"Fault","i":s}));
            true
        } else {
            false
        }
    }
    fn wait(&mut self, s: usize) -> Option<i64> {
        let o = self.owner()?;
        let v = match o.wait(s)? {
            Ok(r) => r.map(|v| v as i64).unwrap_or(-1),
            Err(()) => -2,
        };
        // Only where the wait depends on nothing but the code under test is an expiry an
        // observation of that code (sequential replay: nothing else runs, the first poll decides;
        // free-running: 10 s budget). In scheduled replay the value may be late merely because a
        // gated thread was slow to arrive on a loaded machine: skipped observation, MODEL-DRIFT.
        let name = if v != -2 {
            "Waited"
        } else if WAIT_EXPIRY_IS_DRIFT.with(|d| d.get()) {
            "WaitSkipped"
        } else {
            "WaitTimeout"
        };
        trace::ev(json!({"ev": name, "i": s, "v": v}));
        Some(v)
    }
    fn take(&mut self, k: &str, i: usize) -> Option<Obj<E>> {
        self.objs.remove(&key(k, i))
    }
    /// build the initial configuration of a behaviour: guards, force guards, slots, handles
    fn build(&mut self, g: usize, f: usize, h: usize, modes: &[String]) {
        for i in 1..=g {
            self.new_guard(i);
        }
        for i in 1..=f {
            self.new_force(i);
        }
        for (si, m) in modes.iter().enumerate() {
            if m != "none" {
                self.open(si + 1, m);
            }
        }
        if h >= 1 {
            self.make_handle();
            for i in 2..=h {
                self.clone_handle(i);
            }
        }
    }
    /// drop everything that is left, in a fixed order, logging each drop
    fn drop_rest(&mut self) {
        let mut ks: Vec<_> = self.objs.keys().cloned().collect();
        ks.sort();
        for k in ks {
            if let Some(o) = self.objs.remove(&k) {
                let _ = timed_drop(&k.0, k.1, o);
            }
        }
    }
}

const UNWIND: &str = "ka-unwind";
const CLOSE_FAULT: &str = "ka-close-fault";

/// Drop one object, logging DropStart / DropEnd; a panic of the code under test is data (returned).
fn timed_drop<E: KaEntry>(k: &str, i: usize, o: Obj<E>) -> Option<String>
where
    SnapSink: EntrySink<RootMetric<E>>,
{
    timed_drop_how(k, i, o, false)
}

/// `unwind`: the object is dropped by the unwinding of a panic of the thread that holds it (the
/// panic starts after the last mutation and is caught right here), not by an ordinary `drop`.
fn timed_drop_how<E: KaEntry>(k: &str, i: usize, o: Obj<E>, unwind: bool) -> Option<String>
where
    SnapSink: EntrySink<RootMetric<E>>,
{
    trace::ev(json!({"ev":"DropStart","k":k,"i":i,"unwind":unwind}));
    let r = if unwind {
        util::catch(move || {
            let _held = o;
            // no panic hook, but `std::thread::panicking()` is true while `_held` is dropped
            std::panic::resume_unwind(Box::new(UNWIND));
        })
    } else {
        util::catch(move || drop(o))
    };
    let r = match r {
        // the harness's own panics (unwinding drop, injected close fault) are not panics of the code under test
        Err(m) if m == UNWIND || m == CLOSE_FAULT => Ok(()),
        x => x,
    };
    if let Err(m) = &r {
        trace::ev(json!({"ev":"Panic","k":k,"i":i,"msg":m}));
    }
    trace::ev(json!({"ev":"DropEnd","k":k,"i":i}));
    r.err()
}

fn modes_of(v: &Value) -> Vec<String> {
    v.as_array()
        .map(|a| a.iter().map(|m| m.as_str().unwrap_or("none").to_string()).collect())
        .unwrap_or_default()
}

// ------------------------------------------------------------------------------------------
// R-sequential
// ------------------------------------------------------------------------------------------

fn seq_one<E: KaEntry>(b: &Value) -> Value
where
    SnapSink: EntrySink<RootMetric<E>>,
{
    snaps_clear();
    let steps = b["steps"].as_array().unwrap();
    let init = steps[0].as_array().unwrap();
    let mut w: World<E> = World::new(b["delay"].as_bool().unwrap_or(false));
    let mut obs: Vec<Value> = Vec::new();
    // operations (by index) whose drop is performed by unwinding; in a spawned thread or in place
    let unwind_steps: Vec<u64> = b["unwind"].as_array().map(|a| a.iter().filter_map(|x| x.as_u64()).collect()).unwrap_or_default();
    let in_thread = b["unwind_thread"].as_bool().unwrap_or(false);
    let r = util::catch(std::panic::AssertUnwindSafe(|| {
        w.build(
            init[1].as_u64().unwrap() as usize,
            init[2].as_u64().unwrap() as usize,
            init[3].as_u64().unwrap() as usize,
            &modes_of(&init[4]),
        );
        obs.push(json!({"n": snaps().len()}));
        for st in &steps[1..] {
            let st = st.as_array().unwrap();
            let op = st[0].as_str().unwrap();
            let k = st[1].as_str().unwrap();
            let i = st[2].as_u64().unwrap() as usize;
            let m = st[3].as_str().unwrap_or("");
            let mut res = json!(null);
            let done = match op {
                "Mutate" => w.mutate(),
                "MakeHandle" => w.make_handle(),
                "NewGuard" => w.new_guard(i),
                "NewForce" => w.new_force(i),
                "CloneHandle" => w.clone_handle(i),
                "DelayFlush" => w.delay(i),
                "OpenSlot" => {
                    let r = w.open(i, m);
                    res = json!(r);
                    r.is_some()
                }
                "ReOpen" => {
                    let r = w.reopen(i, if b["delay"].as_bool().unwrap_or(false) { "wait" } else { "discard" });
                    res = json!(r);
                    r.is_some()
                }
                "WaitForData" => match w.wait(i) {
                    Some(v) => {
                        res = json!(v);
                        true
                    }
                    // LazySlot has no wait_for_data: the value stays in the channel, which the
                    // property does not distinguish
                    None => {
                        res = json!("n/a");
                        true
                    }
                },
                "MutSlot" => w.mut_slot(i),
                "WaitCancel" => {
                    res = match w.owner().and_then(|o| o.wait_cancel(i)) {
                        Some(p) => json!(if p { "pending" } else { "ready" }),
                        None => json!("n/a"),
                    };
                    true
                }
                "TakeWaited" => {
                    res = match w.owner().and_then(|o| o.take_waited(i)) {
                        Some(t) => json!(if t { "taken" } else { "nothing" }),
                        None => json!("n/a"),
                    };
                    true
                }
                "Drop" | "DropUnwind" | "DropFault" => match (op != "DropFault" || w.arm_fault(i)).then(|| w.take(k, i)).flatten() {
                    Some(o) => {
                        let unwind = op == "DropUnwind" || unwind_steps.contains(&(obs.len() as u64));
                        let r = if unwind && in_thread {
                            // the panicking owner of the object is another thread, which is joined
                            let kk = k.to_string();
                            std::thread::spawn(move || timed_drop_how(&kk, i, o, true)).join().unwrap_or(Some("thread".into()))
                        } else {
                            timed_drop_how(k, i, o, unwind)
                        };
                        if let Some(m) = r {
                            res = json!({"panic": m});
                        }
                        true
                    }
                    None => false,
                },
                _ => false,
            };
            obs.push(json!({"n": snaps().len(), "res": res, "done": done}));
        }
    }));
    let entries: Vec<Value> = snaps().iter().map(snap_json).collect();
    // what is left is dropped outside the judged part
    let _ = util::catch(std::panic::AssertUnwindSafe(|| w.drop_rest()));
    trace::take();
    json!({"id": b["id"], "obs": obs, "entries": entries, "panic": r.err()})
}

fn cmd_seq(a: &HashMap<String, String>) {
    sched::controller().free_run();
    WAIT_BUDGET.with(|b| b.set(Duration::from_millis(300)));
    let beh = util::read_ndjson(util::arg_str(a, "behaviours", ""));
    let mut out = std::io::BufWriter::new(std::fs::File::create(util::arg_str(a, "out", "")).unwrap());
    std::panic::set_hook(Box::new(|_| {}));
    for b in beh {
        let r = if b["types"].as_str() == Some("B") { seq_one::<EntryB>(&b) } else { seq_one::<EntryA>(&b) };
        serde_json::to_writer(&mut out, &r).unwrap();
        out.write_all(b"\n").unwrap();
    }
    out.flush().unwrap();
}

// ------------------------------------------------------------------------------------------
// R-scheduled
// ------------------------------------------------------------------------------------------

/// Runs `on_expiry` once if `stop` is not called within the budget.
struct Watchdog {
    tx: std::sync::mpsc::Sender<()>,
    h: std::thread::JoinHandle<bool>,
}
impl Watchdog {
    fn start(budget: Duration, on_expiry: impl FnOnce() + Send + 'static) -> Self {
        let (tx, rx) = std::sync::mpsc::channel::<()>();
        let h = std::thread::spawn(move || match rx.recv_timeout(budget) {
            Err(std::sync::mpsc::RecvTimeoutError::Timeout) => {
                on_expiry();
                true
            }
            _ => false,
        });
        Watchdog { tx, h }
    }
    /// true if it fired
    fn stop(self) -> bool {
        let _ = self.tx.send(());
        self.h.join().unwrap_or(false)
    }
}

const STEP_TIMEOUT: Duration = Duration::from_millis(500);
const GATING: &[&str] = &[
    "ka.fd_upgraded",
    "ka.fd_taken",
    "ka.fd_called",
    "ka.sg_sent",
    "h.slot_close",
    "h.em_begin",
    "h.em_mid",
    "h.em_append",
];

fn actor_id(k: &str, i: usize) -> u32 {
    (match k {
        "o" => 1,
        "h" => 10,
        "g" => 20,
        "f" => 30,
        "s" => 40,
        _ => 90,
    }) + i as u32
}

struct Stepper {
    ctrl: Arc<sched::Controller>,
    /// slot-guard actors: how many of their own two points (h.slot_close, ka.sg_sent) are still ahead
    own_sg: HashMap<u32, u8>,
    drift: Vec<Value>,
}
impl Stepper {
    /// skip `h.slot_close` / `ka.sg_sent` arrivals that are not the acting slot guard's own (the
    /// closing entry drops the guard of a never-opened `Slot`, which runs `SlotGuard::drop` in the emitter)
    fn settle(&mut self, a: u32, mut arr: Arrival) -> Arrival {
        loop {
            match &arr {
                Arrival::At(n, _) if *n == "ka.sg_sent" || *n == "h.slot_close" => {
                    if let Some(c) = self.own_sg.get_mut(&a) {
                        if *c > 0 {
                            *c -= 1;
                            return arr;
                        }
                    }
                    arr = self.ctrl.step(a, STEP_TIMEOUT);
                }
                _ => return arr,
            }
        }
    }
    /// The acting thread began to close the entry although the model predicts no emission by it:
    /// schedule-guided replay lets the real code do what it decided to do, right now, while every
    /// other actor stays parked (the trace then shows the emission at the moment it really began).
    fn unpredicted_emission(&mut self, n: usize, action: &str, a: u32, mut arr: Arrival) -> Arrival {
        if !matches!(arr, Arrival::At("h.em_begin", _)) {
            return arr;
        }
        self.drift.push(json!({"step": n, "action": action, "why": "the real code begins to close the entry here, the model predicts no emission by this thread; emission run to completion"}));
        while matches!(arr, Arrival::At("h.em_begin", _) | Arrival::At("h.em_mid", _) | Arrival::At("h.em_append", _)) {
            arr = self.grant(a);
        }
        arr
    }
    fn arrive(&mut self, a: u32) -> Arrival {
        let arr = self.ctrl.wait_arrival(a, STEP_TIMEOUT);
        self.settle(a, arr)
    }
    fn grant(&mut self, a: u32) -> Arrival {
        let arr = self.ctrl.step(a, STEP_TIMEOUT);
        self.settle(a, arr)
    }
}

fn point_name(a: &Arrival) -> String {
    match a {
        Arrival::At(n, _) => n.to_string(),
        Arrival::Finished => "<finished>".into(),
        Arrival::Blocked => "<blocked>".into(),
    }
}

/// where the model expects the acting thread to stop after a granted step (MODEL-DRIFT only)
fn expected_after(action: &str) -> &'static [&'static str] {
    match action {
        "FUpgrade" => &["ka.fd_upgraded", "<finished>"],
        "FTake" => &["ka.fd_taken", "<finished>"],
        "FCall" => &["ka.fd_called", "h.em_begin"],
        "FRelease" => &["<finished>"],
        "SBegin" => &["h.slot_close"],
        "SSendwait" | "SSenddiscard" => &["ka.sg_sent"],
        "SRelease" => &["<finished>", "h.em_begin"],
        "DropOwner1" | "DropHandle" | "DropGuard" => &["<finished>", "h.em_begin"],
        "EmitRead" => &["h.em_mid", "h.em_append"],
        "EmitAppend" => &["<finished>", "ka.fd_called"],
        _ => &[],
    }
}

/// does the schedule contain, after step `from`, an emission step of actor `a`?
fn emits_later(steps: &[Value], from: usize, a: u32) -> bool {
    steps.iter().skip(from + 1).any(|s| {
        let act = s[0].as_str().unwrap_or("");
        (act == "EmitRead" || act == "EmitAppend")
            && actor_id(s[1].as_str().unwrap_or(""), s[2].as_u64().unwrap_or(0) as usize) == a
    })
}

fn sched_one<E: KaEntry>(sc: &Value) -> Value
where
    SnapSink: EntrySink<RootMetric<E>>,
{
    snaps_clear();
    WAIT_BUDGET.with(|b| b.set(Duration::from_millis(300)));
    WAIT_EXPIRY_IS_DRIFT.with(|d| d.set(true));
    let ctrl = sched::controller();
    let mut actors: Vec<u32> = vec![1];
    for base in [10u32, 20, 30, 40] {
        for i in 1..=4u32 {
            actors.push(base + i);
        }
    }
    ctrl.begin_gate(&actors, &[], GATING, false);
    let id = sc["id"].as_u64().unwrap_or(0);
    trace::set_epoch(id);
    trace::ev(json!({"ev":"Reset","id":id}));
    let steps = sc["steps"].as_array().unwrap();
    let init = steps[0].as_array().unwrap();
    let mut w: World<E> = World::new(sc["delay"].as_bool().unwrap_or(false));
    w.build(
        init[1].as_u64().unwrap() as usize,
        init[2].as_u64().unwrap() as usize,
        init[3].as_u64().unwrap() as usize,
        &modes_of(&init[4]),
    );
    let mut st = Stepper { ctrl: ctrl.clone(), own_sg: HashMap::new(), drift: Vec::new() };
    let unwind_steps: Vec<u64> = sc["unwind"].as_array().map(|a| a.iter().filter_map(|x| x.as_u64()).collect()).unwrap_or_default();
    // Operations of the controlling thread (new_guard, open, ...) run real code: if that code
    // blocks on something a gated actor holds (it does not on the unchanged tree), the replay
    // would hang. The watchdog then releases every actor; the rest of the schedule is executed
    // free-running and the verdict still comes from the recorded trace.
    let watchdog = Watchdog::start(Duration::from_secs(2), || sched::controller().free_run());
    let mut threads: Vec<std::thread::JoinHandle<()>> = Vec::new();
    let mut executed = 0usize;
    for (n, s) in steps[1..].iter().enumerate() {
        let s = s.as_array().unwrap();
        let action = s[0].as_str().unwrap();
        let k = s[1].as_str().unwrap();
        let i = s[2].as_u64().unwrap() as usize;
        let go = s[3].as_u64().unwrap_or(1) == 1;
        if !go {
            continue;
        }
        let a = actor_id(k, i);
        let ok = match action {
            "Mutate" => w.mutate(),
            "MakeHandle" => w.make_handle(),
            "NewGuard" => w.new_guard(i),
            "NewForce" => w.new_force(i),
            "CloneHandle" => w.clone_handle(i),
            "OpenSlotwait" => w.open(i, "wait") == Some(true),
            "OpenSlotdiscard" => w.open(i, "discard") == Some(true),
            "DelayFlush" => w.delay(i),
            "WaitForData" => {
                // a LazySlot has no wait_for_data: the value stays in the channel (same observation)
                if w.wait(i) == Some(-2) {
                    st.drift.push(json!({"step": n, "action": action, "why": "wait_for_data not ready within 300 ms; observation skipped"}));
                }
                true
            }
            "MutSlot" => w.mut_slot(i),
            "DropOwner1" | "DropHandle" | "DropGuard" | "FUpgrade" | "SBegin" => {
                match w.take(k, i) {
                    Some(o) => {
                        if k == "s" {
                            st.own_sg.insert(a, 2);
                        }
                        let kk = k.to_string();
                        let tag = tag_of(k, i);
                        let unwind = unwind_steps.contains(&((n + 1) as u64));
                        threads.push(std::thread::spawn(move || {
                            let _g = sched::ActorGuard::new(a);
                            TAG.with(|t| t.set(tag));
                            let _ = timed_drop_how(&kk, i, o, unwind);
                        }));
                        let mut arr = st.arrive(a);
                        if !emits_later(&steps[1..], n, a) {
                            arr = st.unpredicted_emission(n, action, a, arr);
                        }
                        if !expected_after(action).contains(&point_name(&arr).as_str()) {
                            st.drift.push(json!({"step": n, "action": action, "arrived": point_name(&arr), "expected": expected_after(action)}));
                        }
                        true
                    }
                    None => false,
                }
            }
            "FTake" | "FCall" | "FRelease" | "SSendwait" | "SSenddiscard" | "SRelease" | "EmitRead" | "EmitAppend" => {
                match ctrl.peek(a) {
                    Arrival::At(at, _) => {
                        let mut arr = st.grant(a);
                        if action == "SSenddiscard" && matches!(arr, Arrival::At("ka.sg_sent", _)) {
                            // a discard-mode guard has nothing left to do after the send
                            let fin = st.grant(a);
                            if fin != Arrival::Finished {
                                st.drift.push(json!({"step": n, "action": action, "arrived": point_name(&fin), "expected": ["<finished>"]}));
                            }
                            arr = Arrival::At("ka.sg_sent", vec![]);
                        }
                        if action != "EmitRead" && action != "EmitAppend" && !emits_later(&steps[1..], n, a) {
                            arr = st.unpredicted_emission(n, action, a, arr);
                        }
                        if action == "EmitAppend" && at != "h.em_append" {
                            // the model has fewer slots than the real entry has slot fields: run the
                            // emission to its end
                            while matches!(arr, Arrival::At("h.em_mid", _)) {
                                arr = st.grant(a);
                            }
                            if matches!(arr, Arrival::At("h.em_append", _)) {
                                arr = st.grant(a);
                            }
                        }
                        if !expected_after(action).contains(&point_name(&arr).as_str()) {
                            st.drift.push(json!({"step": n, "action": action, "arrived": point_name(&arr), "expected": expected_after(action)}));
                        }
                        true
                    }
                    other => {
                        st.drift.push(json!({"step": n, "action": action, "why": "actor not at a point", "at": point_name(&other)}));
                        false
                    }
                }
            }
            _ => false,
        };
        if ok {
            executed += 1;
        } else if st.drift.last().map(|d| d["step"] != json!(n)).unwrap_or(true) {
            st.drift.push(json!({"step": n, "action": action, "why": "operation not applicable to the real objects"}));
        }
    }
    // let every started drop finish freely
    ctrl.free_run();
    for t in threads {
        let _ = t.join();
    }
    if watchdog.stop() {
        st.drift.push(json!({"why": "watchdog: an operation of the controlling thread blocked on a gated actor; schedule released"}));
    }
    let real_mid = snaps();
    trace::evi("Quiesce", &[]);
    // then drop what is left (sequentially, in a fixed order) and look again
    w.drop_rest();
    trace::evi("Quiesce", &[]);
    let real: Vec<Value> = real_mid.iter().map(snap_json).collect();
    json!({"executed": executed, "steps": steps.len() - 1, "drift": st.drift, "real": real,
           "after_cleanup": snaps().len()})
}

// ------------------------------------------------------------------------------------------
// T: free-running stress
// ------------------------------------------------------------------------------------------

static OBS_STOP: std::sync::atomic::AtomicBool = std::sync::atomic::AtomicBool::new(false);
static OBS_STARTED: std::sync::atomic::AtomicU64 = std::sync::atomic::AtomicU64::new(0);

fn run_ops<E: KaEntry>(w: &mut World<E>, ops: &[Value])
where
    SnapSink: EntrySink<RootMetric<E>>,
{
    for op in ops {
        let op = op.as_array().unwrap();
        let name = op[0].as_str().unwrap();
        let k = op.get(1).and_then(|v| v.as_str()).unwrap_or("");
        let i = op.get(2).and_then(|v| v.as_u64()).unwrap_or(0) as usize;
        let r = util::catch(std::panic::AssertUnwindSafe(|| match name {
            "drop" | "dropu" | "dropf" => {
                if name == "dropf" {
                    w.arm_fault(i);
                }
                if let Some(o) = w.take(k, i) {
                    let _ = timed_drop_how(k, i, o, name == "dropu");
                }
            }
            "mut" => {
                w.mutate();
            }
            "smut" => {
                w.mut_slot(i);
            }
            "wait" => {
                w.wait(i);
            }
            "newg" => {
                w.new_guard(i);
            }
            "newf" => {
                w.new_force(i);
            }
            "open" => {
                w.open(i, k);
            }
            "delay" => {
                w.delay(i);
            }
            "reopen" => {
                w.reopen(i, k);
            }
            "handle" => {
                w.make_handle();
            }
            "clone" => {
                w.clone_handle(i);
            }
            // Observer: Debug-format a flush guard / a slot guard (which prints its
            // OnParentDrop::Wait(FlushGuard)) in a loop until the dropping thread says stop.
            // Formatting must not change anything a drop on another thread observes.
            "observe" => {
                OBS_STARTED.fetch_add(1, std::sync::atomic::Ordering::SeqCst);
                let deadline = Instant::now() + Duration::from_millis(20);
                let mut n = 0u64;
                while !OBS_STOP.load(std::sync::atomic::Ordering::SeqCst) && Instant::now() < deadline {
                    let txt = match w.objs.get(&key(k, i)) {
                        Some(Obj::G(g)) => format!("{:?}", g),
                        Some(Obj::S(sg)) => format!("{:?}", sg),
                        _ => break,
                    };
                    std::hint::black_box(txt);
                    n += 1;
                }
                trace::ev(json!({"ev":"Observe","k":k,"i":i,"n":n}));
            }
            // wait (bounded) until `i` observers are formatting
            "waitobs" => {
                let deadline = Instant::now() + Duration::from_millis(20);
                while OBS_STARTED.load(std::sync::atomic::Ordering::SeqCst) < i as u64 && Instant::now() < deadline {
                    std::hint::spin_loop();
                }
            }
            "stopobs" => OBS_STOP.store(true, std::sync::atomic::Ordering::SeqCst),
            "yield" => std::thread::yield_now(),
            "sleep" => std::thread::sleep(Duration::from_micros(i as u64)),
            _ => {
                eprintln!("TOOL-ERROR unknown op {name}");
                std::process::exit(2);
            }
        }));
        if let Err(m) = r {
            trace::ev(json!({"ev":"Panic","k":k,"i":i,"msg":m}));
        }
    }
}

fn run_one<E: KaEntry>(sc: &Value)
where
    SnapSink: EntrySink<RootMetric<E>>,
{
    snaps_clear();
    let ctrl = sched::controller();
    let id = sc["id"].as_u64().unwrap_or(0);
    trace::set_epoch(id);
    trace::ev(json!({"ev":"Reset","id":id}));
    let permille = sc["permille"].as_u64().unwrap_or(0) as u32;
    if permille > 0 {
        ctrl.begin_perturb(sc["seed"].as_u64().unwrap_or(1), permille, sc["max_us"].as_u64().unwrap_or(50) as u32, false);
    } else {
        ctrl.free_run();
    }
    CLOSE_SPIN_US.store(sc["close_spin_us"].as_u64().unwrap_or(0), std::sync::atomic::Ordering::Relaxed);
    OBS_STOP.store(false, std::sync::atomic::Ordering::SeqCst);
    OBS_STARTED.store(0, std::sync::atomic::Ordering::SeqCst);
    let delay = sc["delay"].as_bool().unwrap_or(false);
    let mut w: World<E> = World::new(delay);
    // sequential prologue in the main thread (creations, early drops, mutations)
    run_ops(&mut w, sc["early"].as_array().map(|v| v.as_slice()).unwrap_or(&[]));
    let tspecs = sc["threads"].as_array().cloned().unwrap_or_default();
    let barrier = Arc::new(Barrier::new(tspecs.len() + 1));
    let mut joins = Vec::new();
    for (ti, t) in tspecs.iter().enumerate() {
        let mut local: World<E> = World::empty(delay);
        for o in t["objs"].as_array().unwrap() {
            let k = o[0].as_str().unwrap();
            let i = o[1].as_u64().unwrap() as usize;
            if let Some(x) = w.take(k, i) {
                local.objs.insert(key(k, i), x);
            }
        }
        let ops = t["ops"].as_array().cloned().unwrap_or_default();
        let barrier = barrier.clone();
        let tag = tag_of("t", ti + 1);
        joins.push(std::thread::spawn(move || {
            TAG.with(|t| t.set(tag));
            barrier.wait();
            run_ops(&mut local, &ops);
            local
        }));
    }
    barrier.wait();
    // a scenario takes well under a millisecond; a deadlock of the code under test must not hang the check
    let watchdog = Watchdog::start(Duration::from_secs(30), move || {
        eprintln!("HANG scenario {id}: threads did not finish within 30 s");
        std::process::exit(3);
    });
    for j in joins {
        match j.join() {
            Ok(local) => {
                for (k, v) in local.objs {
                    w.objs.insert(k, v);
                }
            }
            Err(_) => {
                trace::ev(json!({"ev":"Panic","k":"thread","i":0,"msg":"thread panicked"}));
            }
        }
    }
    watchdog.stop();
    ctrl.free_run();
    trace::evi("Quiesce", &[]);
    w.drop_rest();
    trace::evi("Quiesce", &[]);
}

fn cmd_stream(a: &HashMap<String, String>, input: &str, f: &mut dyn FnMut(&Value) -> Value) {
    let scen = util::read_ndjson(util::arg_str(a, input, ""));
    let mut out = std::io::BufWriter::new(std::fs::File::create(util::arg_str(a, "out", "")).unwrap());
    let mut meta = std::io::BufWriter::new(std::fs::File::create(util::arg_str(a, "meta", "")).unwrap());
    let mut line = 1usize;
    for v in scen {
        let t = Instant::now();
        let r = f(&v);
        let evs = trace::take();
        trace::append_ndjson(&mut out, &evs).unwrap();
        let m = json!({"id": v["id"], "first_line": line, "last_line": line + evs.len() - 1, "events": evs.len(),
                       "wall_us": t.elapsed().as_micros() as u64, "result": r, "scenario": v});
        line += evs.len();
        serde_json::to_writer(&mut meta, &m).unwrap();
        meta.write_all(b"\n").unwrap();
    }
    out.flush().unwrap();
    meta.flush().unwrap();
}

fn main() {
    let (cmd, a) = util::args();
    // panics of the code under test are data (logged as Panic events); keep stderr quiet
    std::panic::set_hook(Box::new(|_| {}));
    match cmd.as_str() {
        "seq" => cmd_seq(&a),
        "sched" => cmd_stream(&a, "schedules", &mut |v| {
            if v["types"].as_str() == Some("B") { sched_one::<EntryB>(v) } else { sched_one::<EntryA>(v) }
        }),
        "run" => cmd_stream(&a, "scenarios", &mut |v| {
            if v["types"].as_str() == Some("B") { run_one::<EntryB>(v) } else { run_one::<EntryA>(v) }
            json!({"appended": snaps().iter().map(snap_json).collect::<Vec<_>>()})
        }),
        _ => {
            eprintln!("usage: ka seq|sched|run ...");
            std::process::exit(2);
        }
    }
}
