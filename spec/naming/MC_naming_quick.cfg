\* quick model checking: every root-to-leaf path (Leaf / TagLeaf steps included) through struct trees of
\* depth <= 2, entry enums at the root and entry enums flattened into a struct root (one container variant
\* below the enum); sanity invariants on every state
CONSTANTS
  MaxDepth = 2
  Families = {"struct", "enumroot", "enumnested"}
  ChildRAs = {"kebab"}
  ChildPKs = {"exact"}
  NestRootPKs = {"none"}
  DeepRAs = {"none", "pascal", "snake", "kebab"}
  DeepPKs = {"none", "infl", "exact"}
SPECIFICATION Spec
INVARIANT Sanity
CHECK_DEADLOCK FALSE
