CONSTANTS
  Configs <- FullConfigs
  InitEntries <- Empty0
  NextCalls <- NextE
  MaxCalls = 5
SPECIFICATION Spec
INVARIANT TypeOK
INVARIANT WellFormed
INVARIANT Sound
INVARIANT Transparent
INVARIANT RejectIff
INVARIANT UnroutableReport
INVARIANT Faithful
INVARIANT Emit
CHECK_DEADLOCK FALSE
