----------------------------- MODULE EntryDerive -----------------------------
(***************************************************************************)
(* X03(a): what a type annotated with the WRITER-side `#[derive(Entry)]`     *)
(* (metrique-writer-macro/src/lib.rs; re-exported as metrique_writer::Entry  *)
(* and, with other paths, as metrique::writer::Entry) writes into an         *)
(* EntryWriter, as documented in the macro's doc comment ("will impl Entry   *)
(* like ..."), the Entry trait docs and the macro's own expansion tests       *)
(* (derives_struct_entry, derives_enum_entry, checks_duplicate_names,         *)
(* checks_duplicate_timestamps, test_binary_tree_chain).                      *)
(*                                                                         *)
(* Unlike #[metrics] (spec/naming/Naming.tla) there are no prefixes and no   *)
(* style inheritance: a flattened child is written with ITS OWN rename_all.  *)
(* What the derive adds instead is ORDER: values, the timestamp and the      *)
(* sample-group pairs are produced in declaration order, a flattened child   *)
(* is spliced in at the position of its field.  So a behaviour of this       *)
(* specification is not a path but a whole TYPE TREE WITH ONE VALUE, built   *)
(* depth-first:                                                            *)
(*                                                                         *)
(*   Root(form, ra, vra)        the root container: struct / tuple struct / *)
(*                              unit struct / entry enum (1 or 3 variants)  *)
(*                              with the chosen variant named / tuple / unit,*)
(*                              container rename_all, variant rename_all     *)
(*   Field(kind)                append a value field to the open container   *)
(*   Open(edge, form, ra, vra)  append a #[entry(flatten)] field (Child,     *)
(*                              Option<Child> Some/None, Box<Child>) and     *)
(*                              descend into the child                      *)
(*   Close                      back to the parent (more fields may follow)  *)
(*   Finish                     the tree is complete                        *)
(*                                                                         *)
(* While the tree is built the state accumulates the documented observation: *)
(*   items   the ordered EntryWriter calls: value(name, v) that reaches the  *)
(*           ValueWriter as metric / string, and timestamp(t)               *)
(*   sg      the ordered sample_group() pairs                               *)
(* `Compiles` guards (Field / Open are disabled otherwise) are the macro's   *)
(* documented rejections: one timestamp per variant, names unique per        *)
(* variant, tuple fields need `name`; EntryDeriveNeg.tla enumerates the      *)
(* rejected definitions with the expected diagnostic.                        *)
(*                                                                         *)
(* Identifier domain: fields are two lowercase words written snake_case      *)
(* (odd positions) or camelCase (even positions) so that all nine            *)
(* rename_all settings are told apart; digits, acronyms and raw identifiers   *)
(* are out of scope.                                                        *)
(***************************************************************************)
EXTENDS Naturals, Sequences, FiniteSets, TLC, Json

CONSTANTS MaxDepth,    \* containers nested on one path (1 = root only)
          MaxFields,   \* fields per container (flatten fields included)
          MaxTotal,    \* fields in the whole tree
          Styles,      \* subset of RAs: rename_all of containers (bound only)
          VStyles,     \* subset of RAs \cup {"inherit"}: rename_all of the chosen enum variant (bound only)
          Kinds,       \* subset of LeafKinds (bound only)
          Forms,       \* subset of AllForms (bound only)
          Edges,       \* subset of AllEdges (bound only)
          ScriptKinds, \* {}: fields are chosen freely; otherwise every container has exactly these leaf kinds, once each,
          ScriptRot,   \* in the canonical order rotated by ScriptRot (reversed if ScriptRev); kinds a tuple-shaped
          ScriptRev    \* container cannot hold are skipped - the "names" family (a cfg file cannot hold a sequence)

VARIABLES toks, stack, items, sg, total, phase
vars == <<toks, stack, items, sg, total, phase>>

-----------------------------------------------------------------------------
(* attribute domains *)
RAs == {"none", "lowercase", "UPPERCASE", "PascalCase", "camelCase", "snake_case", "SCREAMING_SNAKE_CASE",
        "kebab-case", "SCREAMING-KEBAB-CASE"}
AllForms == {"s_named", "s_tuple", "s_unit", "e1_named", "e1_tuple", "e3_named", "e3_tuple", "e3_unit"}
AllEdges == {"plain", "some", "none", "box"}
ShapeOf(form) == CASE form \in {"s_named", "e1_named", "e3_named"} -> "named"
                   [] form \in {"s_tuple", "e1_tuple", "e3_tuple"} -> "tuple"
                   [] form \in {"s_unit", "e3_unit"} -> "unit"
IsEnum(form) == form \notin {"s_named", "s_tuple", "s_unit"}

\* value fields: u64 | String | #[entry(sample_group)] &'static str | #[entry(format = ToString)] u64 |
\* Option<u64> None / Some; "@" = with #[entry(name = "..")].  `ignore` and `timestamp` take no name.
ValueKinds == {"u64", "str", "sg", "fmt", "optnone", "optsome"}
NamedKinds == {"u64@", "str@", "sg@", "fmt@", "optnone@", "optsome@"}
LeafKinds == ValueKinds \cup NamedKinds \cup {"ignore", "ts"}
Base(k) == CASE k \in {"u64", "u64@"} -> "u64" [] k \in {"str", "str@"} -> "str" [] k \in {"sg", "sg@"} -> "sg"
             [] k \in {"fmt", "fmt@"} -> "fmt" [] k \in {"optnone", "optnone@"} -> "optnone"
             [] k \in {"optsome", "optsome@"} -> "optsome" [] OTHER -> k
IsNamed(k) == k \in NamedKinds
\* what a tuple-shaped container can hold ("must specify `name` for tuple fields")
TupleOk(k) == IsNamed(k) \/ k \in {"ignore", "ts"}

-----------------------------------------------------------------------------
(* words and renderings *)
DepthWord == <<"top", "mid", "low", "sub">>
IdxWord == <<"one", "two", "three", "four", "five", "six", "seven", "eight", "nine", "ten", "eleven", "twelve",
             "thirteen", "fourteen", "fifteen", "sixteen">>
Cap == ( "top" :> "Top" @@ "mid" :> "Mid" @@ "low" :> "Low" @@ "sub" :> "Sub"
      @@ "one" :> "One" @@ "two" :> "Two" @@ "three" :> "Three" @@ "four" :> "Four" @@ "five" :> "Five"
      @@ "six" :> "Six" @@ "seven" :> "Seven" @@ "eight" :> "Eight" @@ "nine" :> "Nine" @@ "ten" :> "Ten"
      @@ "eleven" :> "Eleven" @@ "twelve" :> "Twelve" @@ "thirteen" :> "Thirteen" @@ "fourteen" :> "Fourteen"
      @@ "fifteen" :> "Fifteen" @@ "sixteen" :> "Sixteen" )
Up ==  ( "top" :> "TOP" @@ "mid" :> "MID" @@ "low" :> "LOW" @@ "sub" :> "SUB"
      @@ "one" :> "ONE" @@ "two" :> "TWO" @@ "three" :> "THREE" @@ "four" :> "FOUR" @@ "five" :> "FIVE"
      @@ "six" :> "SIX" @@ "seven" :> "SEVEN" @@ "eight" :> "EIGHT" @@ "nine" :> "NINE" @@ "ten" :> "TEN"
      @@ "eleven" :> "ELEVEN" @@ "twelve" :> "TWELVE" @@ "thirteen" :> "THIRTEEN" @@ "fourteen" :> "FOURTEEN"
      @@ "fifteen" :> "FIFTEEN" @@ "sixteen" :> "SIXTEEN" )

\* the field at position i of a container at depth d is declared as  top_one (i odd)  or  topTwo (i even)
Written(d, i) == IF i % 2 = 1 THEN DepthWord[d] \o "_" \o IdxWord[i] ELSE DepthWord[d] \o Cap[IdxWord[i]]
\* "rename all fields in the given case pattern" (NameStyle::apply: ASCII lower/upper of the identifier as written,
\* or Inflector's word-wise conversions)
Render(s, d, i) ==
    LET a == DepthWord[d]
        b == IdxWord[i]
    IN CASE s = "none"                 -> Written(d, i)
         [] s = "lowercase"            -> IF i % 2 = 1 THEN a \o "_" \o b ELSE a \o b
         [] s = "UPPERCASE"            -> IF i % 2 = 1 THEN Up[a] \o "_" \o Up[b] ELSE Up[a] \o Up[b]
         [] s = "PascalCase"           -> Cap[a] \o Cap[b]
         [] s = "camelCase"            -> a \o Cap[b]
         [] s = "snake_case"           -> a \o "_" \o b
         [] s = "SCREAMING_SNAKE_CASE" -> Up[a] \o "_" \o Up[b]
         [] s = "kebab-case"           -> a \o "-" \o b
         [] s = "SCREAMING-KEBAB-CASE" -> Up[a] \o "-" \o Up[b]
\* `name = ".."` "override[s] the default name (including any case changes from rename_all)": copied verbatim
Override(d, i) == "Ov." \o Cap[DepthWord[d]] \o "-" \o IdxWord[i] \o "_Raw"

\* the style that names the fields of the chosen variant: the variant's own rename_all, else the container's
Effective(ra, vra) == IF vra = "inherit" THEN ra ELSE vra

-----------------------------------------------------------------------------
(* the documented expansion, one field at a time *)
Top == stack[Len(stack)]
Depth == Len(stack)
Id == total + 1                                   \* every field of the tree carries its depth-first index as value

NameOf(k, fr, i) == IF IsNamed(k) THEN Override(Len(stack), i) ELSE Render(fr.sty, Len(stack), i)

\* EntryWriter calls a value field makes (the call `writer.value(name, &None)` writes nothing)
FieldItems(k, fr, i, id) ==
    LET nm == NameOf(k, fr, i)
        b == Base(k)
    IN CASE b = "ignore"  -> <<>>
         [] b = "ts"      -> <<[n |-> "", k |-> "timestamp", v |-> ToString(id)]>>
         [] b = "optnone" -> <<>>
         [] b \in {"u64", "optsome"} -> <<[n |-> nm, k |-> "metric", v |-> ToString(id)]>>
         [] b = "fmt"     -> <<[n |-> nm, k |-> "string", v |-> ToString(id)]>>
         [] b \in {"str", "sg"} -> <<[n |-> nm, k |-> "string", v |-> "s" \o ToString(id)]>>
\* "The field's name (optionally overwritten by the `name` attribute) will be used as the key"
FieldSg(k, fr, i, id) == IF Base(k) = "sg" THEN <<[k |-> NameOf(k, fr, i), v |-> "s" \o ToString(id)]>> ELSE <<>>

Frame(form, ra, vra) == [form |-> form, sty |-> IF IsEnum(form) THEN Effective(ra, vra) ELSE ra,
                         nf |-> 0, hasTs |-> FALSE, names |-> {}]

ValidContainer(form, ra, vra) ==
    /\ form \in Forms /\ ra \in Styles
    /\ IF IsEnum(form) THEN vra \in VStyles ELSE vra = "inherit"

Init == /\ toks = <<>> /\ stack = <<>> /\ items = <<>> /\ sg = <<>> /\ total = 0 /\ phase = "root"

Root(form, ra, vra) ==
    /\ phase = "root"
    /\ ValidContainer(form, ra, vra)
    /\ stack' = <<Frame(form, ra, vra)>>
    /\ toks' = <<[t |-> "C", form |-> form, ra |-> ra, vra |-> vra]>>
    /\ phase' = "in"
    /\ UNCHANGED <<items, sg, total>>

\* what the next field of the open container may be when the run is scripted (names family)
KindSeq == <<"u64", "sg@", "ts", "str", "optnone", "fmt@", "u64@", "ignore", "sg", "optsome", "str@", "fmt", "optsome@", "optnone@">>
Rotated == [j \in 1..Len(KindSeq) |-> KindSeq[(((IF ScriptRev THEN Len(KindSeq) - j ELSE j - 1) + ScriptRot) % Len(KindSeq)) + 1]]
Script == SelectSeq(Rotated, LAMBDA k : k \in ScriptKinds)
RECURSIVE ScriptFor(_, _)
ScriptFor(shape, i) == IF i > Len(Script) THEN <<>>
                       ELSE (IF shape = "named" \/ TupleOk(Script[i]) THEN <<Script[i]>> ELSE <<>>) \o ScriptFor(shape, i + 1)
MyScript(fr) == IF ShapeOf(fr.form) = "unit" THEN <<>> ELSE ScriptFor(ShapeOf(fr.form), 1)

CanAdd == /\ phase = "in"
          /\ ShapeOf(Top.form) # "unit"
          /\ Top.nf < MaxFields
          /\ total < MaxTotal

Field(k) ==
    /\ CanAdd
    /\ k \in Kinds
    /\ (Script # <<>> => Top.nf < Len(MyScript(Top)) /\ k = MyScript(Top)[Top.nf + 1])
    \* --- the definition compiles
    /\ (ShapeOf(Top.form) = "tuple" => TupleOk(k))                        \* must specify `name` for tuple fields
    /\ (k = "ts" => ~Top.hasTs)                                           \* can't have more than one `timestamp`
    /\ LET i == Top.nf + 1
           nm == NameOf(k, Top, i)
           named == k \notin {"ignore", "ts"}
       IN /\ (named => nm \notin Top.names)                               \* name `..` is used more than once
          /\ items' = items \o FieldItems(k, Top, i, Id)
          /\ sg' = sg \o FieldSg(k, Top, i, Id)
          /\ stack' = [stack EXCEPT ![Len(stack)] =
                          [@ EXCEPT !.nf = i, !.hasTs = @ \/ k = "ts", !.names = IF named THEN @ \cup {nm} ELSE @]]
    /\ toks' = Append(toks, [t |-> "F", k |-> k])
    /\ total' = total + 1
    /\ UNCHANGED phase

\* #[entry(flatten)]: "treat the field as a sub-entry whose contents will be merged with the current entry.  Note that
\* any sample_group will be concatenated to this entry's" - at the position of the field.  Option<Child> = None writes
\* nothing (impl Entry for Option<T>); the absent child is a fixed canary type, so only one (form, ra, vra) is listed.
Open(edge, form, ra, vra) ==
    /\ CanAdd
    /\ Script = <<>>
    /\ edge \in Edges
    /\ Depth < MaxDepth
    /\ IF edge = "none" THEN form = "s_named" /\ ra = "none" /\ vra = "inherit" ELSE ValidContainer(form, ra, vra)
    /\ toks' = Append(toks, [t |-> "O", edge |-> edge, form |-> form, ra |-> ra, vra |-> vra])
    /\ total' = total + 1
    /\ LET up == [stack EXCEPT ![Len(stack)] = [@ EXCEPT !.nf = @ + 1]]
       IN stack' = IF edge = "none" THEN up ELSE Append(up, Frame(form, ra, vra))
    /\ UNCHANGED <<items, sg, phase>>

Close ==
    /\ phase = "in"
    /\ Len(stack) > 1
    /\ (Script # <<>> => Top.nf = Len(MyScript(Top)))
    /\ stack' = SubSeq(stack, 1, Len(stack) - 1)
    /\ toks' = Append(toks, [t |-> "X"])
    /\ UNCHANGED <<items, sg, total, phase>>

Finish ==
    /\ phase = "in"
    /\ Len(stack) = 1
    /\ (Script # <<>> => Top.nf = Len(MyScript(Top)))
    /\ phase' = "done"
    /\ UNCHANGED <<toks, stack, items, sg, total>>

\* (the phase guard stands before the quantifiers so that TLC does not enumerate them in vain)
RootAny == phase = "root" /\ \E form \in Forms, ra \in Styles, vra \in VStyles \cup {"inherit"} : Root(form, ra, vra)
FieldAny == phase = "in" /\ \E k \in Kinds : Field(k)
OpenAny == phase = "in" /\ \E edge \in Edges, form \in Forms \cup {"s_named"}, ra \in Styles \cup {"none"},
                                 vra \in VStyles \cup {"inherit"} : Open(edge, form, ra, vra)
Next == RootAny \/ FieldAny \/ OpenAny \/ Close \/ Finish

Spec == Init /\ [][Next]_vars

-----------------------------------------------------------------------------
(* model-level sanity *)
ItemNames == {items[j].n : j \in {j \in 1..Len(items) : items[j].k # "timestamp"}}
TsCount == Cardinality({j \in 1..Len(items) : items[j].k = "timestamp"})
OpenCount == Cardinality({j \in 1..Len(toks) : toks[j].t = "O" /\ toks[j].edge # "none"})
TokCount(b) == Cardinality({j \in 1..Len(toks) : toks[j].t = "F" /\ Base(toks[j].k) = b})

\* a sample-group field is also written as a value: every pair is an item with the same name and value, in the same
\* relative order
RECURSIVE IsSubSeq(_, _, _, _)
IsSubSeq(ps, i, its, j) == IF i > Len(ps) THEN TRUE
                           ELSE IF j > Len(its) THEN FALSE
                           ELSE IF its[j].k = "string" /\ its[j].n = ps[i].k /\ its[j].v = ps[i].v
                                THEN IsSubSeq(ps, i + 1, its, j + 1) ELSE IsSubSeq(ps, i, its, j + 1)
SgWritten == IsSubSeq(sg, 1, items, 1)
\* at most one timestamp per container on the tree, exactly one per `ts` field
TsPerField == TsCount = TokCount("ts") /\ TsCount <= OpenCount + 1
\* values are the depth-first field indices, so items are strictly increasing in their value: declaration order
ValOf(it) == it.v
ItemsCount == Len(items) = TokCount("u64") + TokCount("str") + TokCount("sg") + TokCount("fmt")
                           + TokCount("optsome") + TokCount("ts")
SgCount == Len(sg) = TokCount("sg")
\* an override is copied verbatim: it never depends on the style of the container
NamedCount == Cardinality({j \in 1..Len(toks) : toks[j].t = "F" /\ IsNamed(toks[j].k) /\ Base(toks[j].k) # "optnone"})
AllOverrides == {Override(d, i) : d \in 1..MaxDepth, i \in 1..MaxFields}
OverridesVerbatim == Cardinality({j \in 1..Len(items) : items[j].k # "timestamp" /\ items[j].n \in AllOverrides}) = NamedCount
Bounds == total <= MaxTotal /\ Len(stack) <= MaxDepth /\ \A f \in 1..Len(stack) : stack[f].nf <= MaxFields
Sanity == SgWritten /\ TsPerField /\ ItemsCount /\ SgCount /\ OverridesVerbatim /\ Bounds

=============================================================================
