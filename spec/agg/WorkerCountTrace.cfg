SPECIFICATION TSpec
CONSTRAINT Track
INVARIANT CountInv
POSTCONDITION Accepted
CHECK_DEADLOCK FALSE
