//! X06 driver: the `EntryIoStream` combinators of metrique-writer/src/stream.rs.
//!
//!   sc replay --behaviours f.ndjson --out o.ndjson
//!       behaviours of spec/stream/StreamCombReplay.tla: a topology (built from the REAL `tee`,
//!       `EntryIoStreamExt::{tee, merge_globals, merge_global_dimensions}`, `NullEntryIoStream`) over
//!       scripted leaves L1..L3, and a list of root calls (next(e) / flush) each with the answer every
//!       leaf gives if it is called.  A leaf records what it is offered by writing the entry into a
//!       recording `EntryWriter` (field names in order, the value of "id" and of the globals' "g"),
//!       appends itself to one shared call log, and returns the scripted result; its error carries
//!       the leaf's name.  Per step: the root's result (kind + whose error) and the leaf calls made.

use metrique_writer::stream::{NullEntryIoStream, tee};
use metrique_writer::{Entry, EntryIoStreamExt};
use metrique_writer_core::{
    EntryConfig, EntryIoStream, EntryWriter, IoStreamError, MetricFlags, Observation, Unit, ValidationError, Value, ValueWriter,
};
use serde_json::{Value as J, json};
use std::borrow::Cow;
use std::collections::HashMap;
use std::io::{self, BufRead, Write};
use std::sync::{Arc, Mutex};
use std::time::SystemTime;

// ------------------------------------------------------------------------------------------
// entries
// ------------------------------------------------------------------------------------------
struct IdEntry(u64);
impl Entry for IdEntry {
    fn write<'a>(&'a self, w: &mut impl EntryWriter<'a>) {
        w.value("id", &self.0);
    }
}
struct Globals;
impl Entry for Globals {
    fn write<'a>(&'a self, w: &mut impl EntryWriter<'a>) {
        w.value("g", "G");
    }
}

// ------------------------------------------------------------------------------------------
// recording writer
// ------------------------------------------------------------------------------------------
#[derive(Default)]
struct Rec {
    fields: Vec<String>,
    id: Option<u64>,
    g: Option<String>,
    extra: Vec<String>,
}
enum Got {
    Str(String),
    Num(u64),
    Other(String),
}
struct VW<'c>(&'c mut Option<Got>);
impl ValueWriter for VW<'_> {
    fn string(self, value: &str) {
        *self.0 = Some(Got::Str(value.to_string()));
    }
    fn metric<'a>(
        self,
        distribution: impl IntoIterator<Item = Observation>,
        _unit: Unit,
        _dimensions: impl IntoIterator<Item = (&'a str, &'a str)>,
        _flags: MetricFlags<'_>,
    ) {
        let obs: Vec<Observation> = distribution.into_iter().collect();
        *self.0 = Some(match obs.as_slice() {
            [Observation::Unsigned(v)] => Got::Num(*v),
            other => Got::Other(format!("{other:?}")),
        });
    }
    fn error(self, error: ValidationError) {
        *self.0 = Some(Got::Other(format!("error:{error}")));
    }
}
impl<'a> EntryWriter<'a> for Rec {
    fn timestamp(&mut self, _timestamp: SystemTime) {
        self.extra.push("timestamp".into());
    }
    fn value(&mut self, name: impl Into<Cow<'a, str>>, value: &(impl Value + ?Sized)) {
        let name = name.into().to_string();
        let mut got = None;
        value.write(VW(&mut got));
        match (&name[..], got) {
            ("id", Some(Got::Num(v))) => self.id = Some(v),
            ("g", Some(Got::Str(s))) => self.g = Some(s),
            (_, Some(Got::Other(o))) => self.extra.push(format!("{name}={o}")),
            (_, Some(Got::Str(s))) => self.extra.push(format!("{name}={s:?}")),
            (_, Some(Got::Num(v))) => self.extra.push(format!("{name}={v}")),
            (_, None) => self.extra.push(format!("{name}=<no value>")),
        }
        self.fields.push(name);
    }
    fn config(&mut self, _config: &'a dyn EntryConfig) {
        self.extra.push("config".into());
    }
}

// ------------------------------------------------------------------------------------------
// scripted leaf
// ------------------------------------------------------------------------------------------
#[derive(Default)]
struct Shared {
    script: HashMap<String, String>,
    calls: Vec<J>,
}
#[derive(Clone)]
struct Leaf {
    id: &'static str,
    sh: Arc<Mutex<Shared>>,
}
impl EntryIoStream for Leaf {
    fn next(&mut self, entry: &impl Entry) -> Result<(), IoStreamError> {
        let mut rec = Rec::default();
        entry.write(&mut rec);
        let mut g = self.sh.lock().unwrap();
        let ans = g.script.get(self.id).cloned().unwrap_or_else(|| "ok".into());
        g.calls.push(json!({"leaf": self.id, "op": "next", "e": rec.id, "fields": rec.fields, "g": rec.g, "extra": rec.extra, "res": ans}));
        match &ans[..] {
            "val" => Err(IoStreamError::Validation(ValidationError::invalid(self.id))),
            "io" => Err(IoStreamError::Io(io::Error::other(self.id))),
            _ => Ok(()),
        }
    }
    fn flush(&mut self) -> io::Result<()> {
        let mut g = self.sh.lock().unwrap();
        let ans = g.script.get(self.id).cloned().unwrap_or_else(|| "ok".into());
        g.calls.push(json!({"leaf": self.id, "op": "flush", "res": ans}));
        if ans == "err" { Err(io::Error::other(self.id)) } else { Ok(()) }
    }
}

fn run<S: EntryIoStream>(mut root: S, sh: &Arc<Mutex<Shared>>, steps: &[J]) -> Vec<J> {
    let mut out = Vec::new();
    for s in steps {
        {
            let mut g = sh.lock().unwrap();
            g.script = s["sc"].as_object().unwrap().iter().map(|(k, v)| (k.clone(), v.as_str().unwrap().to_string())).collect();
            g.calls.clear();
        }
        let res = if s["op"] == "next" {
            match root.next(&IdEntry(s["e"].as_u64().unwrap())) {
                Ok(()) => json!({"k": "ok", "by": "-"}),
                Err(IoStreamError::Validation(e)) => json!({"k": "val", "by": e.to_string()}),
                Err(IoStreamError::Io(e)) => json!({"k": "io", "by": e.to_string()}),
            }
        } else {
            match root.flush() {
                Ok(()) => json!({"k": "ok", "by": "-"}),
                Err(e) => json!({"k": "err", "by": e.to_string()}),
            }
        };
        let calls = std::mem::take(&mut sh.lock().unwrap().calls);
        out.push(json!({"res": res, "calls": calls}));
    }
    out
}

fn behaviour(b: &J) -> Result<Vec<J>, String> {
    let sh = Arc::new(Mutex::new(Shared::default()));
    let l = |id: &'static str| Leaf { id, sh: sh.clone() };
    let steps = b["steps"].as_array().ok_or("no steps")?;
    Ok(match b["topo"].as_str().unwrap_or("") {
        "T12" => run(tee(l("L1"), l("L2")), &sh, steps),
        "TT12_3" => run(tee(tee(l("L1"), l("L2")), l("L3")), &sh, steps),
        "T1_T23" => run(l("L1").tee(l("L2").tee(l("L3"))), &sh, steps),
        "MG_T12" => run(tee(l("L1"), l("L2")).merge_globals(Globals), &sh, steps),
        "T_MG1_2" => run(tee(l("L1").merge_globals(Globals), l("L2")), &sh, steps),
        "T1_N" => run(tee(l("L1"), NullEntryIoStream::default()), &sh, steps),
        "TN_1" => run(tee(NullEntryIoStream::default(), l("L1")), &sh, steps),
        "MGD_T12" => run(tee(l("L1"), l("L2")).merge_global_dimensions::<1>(Default::default(), None), &sh, steps),
        "T_MG12_MGD3" => run(
            tee(tee(l("L1"), l("L2")).merge_globals(Globals), l("L3").merge_global_dimensions::<1>(Default::default(), None)),
            &sh,
            steps,
        ),
        other => return Err(format!("unknown topology {other:?}")),
    })
}

fn main() {
    let args: Vec<String> = std::env::args().collect();
    let get = |k: &str| args.iter().position(|a| a == k).and_then(|i| args.get(i + 1)).cloned();
    if args.get(1).map(|s| &s[..]) != Some("replay") {
        eprintln!("usage: sc replay --behaviours f.ndjson --out o.ndjson");
        std::process::exit(2);
    }
    let inp = std::fs::File::open(get("--behaviours").expect("--behaviours")).expect("open behaviours");
    let mut out = io::BufWriter::new(std::fs::File::create(get("--out").expect("--out")).expect("create out"));
    for line in io::BufReader::new(inp).lines() {
        let line = line.unwrap();
        if line.trim().is_empty() {
            continue;
        }
        let b: J = serde_json::from_str(&line).expect("behaviour json");
        let o = match behaviour(&b) {
            Ok(steps) => json!({"id": b["id"], "steps": steps}),
            Err(e) => json!({"id": b["id"], "error": e}),
        };
        writeln!(out, "{o}").unwrap();
    }
    out.flush().unwrap();
}
