"""C10: aggregation conserves inputs.

spec/agg/Aggregation.tla   keyed accumulators (three key functions side by side = tee branches), flush,
                           merge-on-drop guards (dropped normally or by unwinding: the driver chooses); inputs carry
                           a value, a small bag of observations of their own (a closed histogram replayed into the
                           aggregate's histogram) and a pre-aggregated value (Repeated with 0, 1 or 2 occurrences); property layer = Expected(log) defined declaratively from the
                           history (Conserved, HeldIsTail, ExactlyOne, DistinctKeys); TLC: every history
spec/agg/AggReplay.tla     behaviour generators (exhaustive histories + walks) with the expected batch per flush
spec/agg/WorkerAbs.tla     property layer of the worker sink (sends, merges, flushes/emits, flush barrier, exit)
spec/agg/Worker.tla        channel + worker loop + handles; TLC: refines WorkerAbs for every interleaving,
                           terminates under fairness (BreakOnDisconnect = FALSE is the loop of defect D5)
spec/agg/WorkerTrace.tla   trace validation of recorded multi-producer executions against WorkerAbs
spec/agg/WorkerCountTrace.tla  counting form of WorkerAbs for high-rate / short-interval recorded runs
spec/agg/MutexAbs.tla      property layer of the mutex-shared sink (merges racing closes of the parent entry)
spec/agg/MutexSinkRace.tla lock-level model of MutexSink merge / close; TLC: refines MutexAbs for every interleaving
spec/agg/MutexTrace.tla    trace validation of recorded merge-vs-close races against MutexAbs
harness/src/bin/agg.rs     driver (replay into 6 sink arrangements, record)
"""
import json, os, random
from concurrent.futures import ThreadPoolExecutor
import vlib
from vlib import log

SPECD = os.path.join(vlib.SPEC, "agg")
KINDS = ["keyed", "mutex_entry", "mutex_direct", "worker", "tee", "tee_worker"]


# --------------------------------------------------------------------------------------------
# R
# --------------------------------------------------------------------------------------------
def run_replay(chk, beh, tag, jobs=4):
    n = max(1, (len(beh) + jobs - 1) // jobs)
    parts = [beh[i:i + n] for i in range(0, len(beh), n)]

    def one(ix_part):
        ix, part = ix_part
        bp = os.path.join(chk.dir, f"{tag}-{ix}-beh.ndjson")
        op = os.path.join(chk.dir, f"{tag}-{ix}-out.ndjson")
        vlib.write_ndjson(bp, part)
        vlib.run_bin("agg", ["replay", "--behaviours", bp, "--out", op, "--seed", chk.seed], timeout=3600)
        return vlib.read_ndjson(op)

    with ThreadPoolExecutor(max_workers=jobs) as ex:
        outs = list(ex.map(one, enumerate(parts)))
    return {r["id"]: r for rs in outs for r in rs}


def judge_replay(chk, prop, beh, results, tag):
    st = chk.extra.setdefault("replay", {"behaviours": 0, "flushes_compared": 0, "with_guards": 0, "with_key_collision": 0,
                                         "sink_arrangements": KINDS, "worker_kinds_skipped": 0})
    bad = 0
    for b in beh:
        r = results[b["id"]]
        ops = [s["op"] for s in b["steps"]]
        st["behaviours"] += 1
        st["flushes_compared"] += r["flushes"]
        st["with_guards"] += "GCreate" in ops
        st["guard_drops_by_unwinding"] = st.get("guard_drops_by_unwinding", 0) + r.get("guard_drops_by_unwinding", 0)
        keys = [s["k"] for s in b["steps"] if s["op"] in ("Merge", "GCreate")]
        st["with_key_collision"] += len(keys) != len(set(keys))
        # the two threaded arrangements alternate between histories; both missing = switched off after a
        # worker thread failed to terminate
        st["worker_kinds_skipped"] += not ({"worker", "tee_worker"} & set(r.get("kinds", KINDS)))
        chk.evaluations += 1
        chk.nontrivial.add(tag + ":" + json.dumps([[s["op"], s["g"], s["k"], s["v"]] for s in b["steps"]]))
        if r["mismatches"]:
            bad += 1
            m = r["mismatches"][0]
            hist = " ".join(f"{s['op']}({s['k']},{s['v']})" if s["op"] in ("Merge", "GCreate") else
                            (f"{s['op']}(g{s['g']})" if s["op"].startswith("G") else s["op"]) for s in b["steps"])
            what = (f"{tag} history {b['id']} [{hist}] replayed into '{m.get('sink')}': step {m.get('step')}: {m.get('what')}: "
                    f"expected {m.get('expected')}, real code gave {m.get('got')}")
            chk.violation(what, {"kind": "replay", "seed": chk.seed, "behaviour": b, "mismatches": r["mismatches"]},
                          key=f"{prop}:replay:{m.get('sink')}:{m.get('what')}")
        else:
            chk.traces += 1
    return bad


def run_R(chk, prop, tier):
    cfgs = ["MC_agg_replay_a.cfg", "MC_agg_replay_b.cfg"] if tier == "quick" else ["MC_agg_replay_c.cfg", "MC_agg_replay_b.cfg"]
    beh, seen = [], set()
    for cfg in cfgs:
        rr = vlib.tlc(SPECD, "AggReplay", cfg, timeout=3600)
        if rr.errors:
            raise vlib.ToolError(f"AggReplay/{cfg} failed: {rr.errors[:2]}")
        bs = vlib.replay_lines(rr)
        log(f"[tlc] AggReplay/{cfg}: {len(bs)} histories ({rr.distinct} states, {rr.wall:.1f}s)")
        for b in bs:
            k = json.dumps(b["steps"])
            if k not in seen:
                seen.add(k)
                beh.append(b)
    for i, b in enumerate(beh):
        b["id"] = i + 1
    res = run_replay(chk, beh, "hist")
    judge_replay(chk, prop, beh, res, "exhaustive")
    chk.extra["exhaustive_histories"] = len(beh)
    if beh:
        b = beh[len(beh) // 3]
        chk.sample({"history": [[s["op"], s["g"], s["k"], s["v"]] for s in b["steps"]], "expected_final_flush": b["final"]})
    num = 150 if tier == "quick" else 4000
    wr = vlib.tlc(SPECD, "AggReplay", "MC_agg_walk.cfg", workers=1, simulate=num, depth=20, seed=chk.seed, timeout=3600)
    walks, seen = [], set()
    for b in vlib.replay_lines(wr):
        k = json.dumps(b["steps"])
        if k not in seen:
            seen.add(k)
            walks.append(b)
    for i, b in enumerate(walks):
        b["id"] = 1_000_000 + i
    log(f"[tlc] AggReplay/MC_agg_walk.cfg -simulate: {len(walks)} walks of 20 operations (3 keys, 3 values)")
    res = run_replay(chk, walks, "walk")
    judge_replay(chk, prop, walks, res, "walk")
    chk.extra["walks"] = len(walks)


# --------------------------------------------------------------------------------------------
# T
# --------------------------------------------------------------------------------------------
def gen_scen(rng, n):
    out = []
    for i in range(n):
        np_ = rng.randint(2, 4)
        total = rng.randint(10, 56)
        prods = []
        left = total
        for p in range(np_):
            cnt = left if p == np_ - 1 else max(1, min(left - (np_ - 1 - p), rng.randint(1, max(1, 2 * total // np_))))
            left -= cnt
            prods.append({"n": cnt, "pace_us": rng.choice([0, 0, 20, 100, 400]),
                          "flush_after": rng.choice([0, 0, rng.randint(1, cnt), cnt]),
                          "via_guard": rng.random() < 0.3})
        out.append({"id": i + 1, "producers": prods, "nk": rng.randint(1, 4),
                    "interval_us": rng.choice([50, 200, 1000, 5000, 3_600_000_000]),
                    "seed": rng.randrange(1 << 30), "main_drops_last": rng.random() < 0.5})
    return out


def run_T(chk, prop, scen, tag="rec"):
    sp = os.path.join(chk.dir, f"{tag}-scen.ndjson")
    tp = os.path.join(chk.dir, f"{tag}-trace.ndjson")
    mp = os.path.join(chk.dir, f"{tag}-meta.ndjson")
    vlib.write_ndjson(sp, scen)
    vlib.run_bin("agg", ["record", "--scenarios", sp, "--out", tp, "--meta", mp], timeout=3600)

    def on_reject(meta, v, lines):
        ev = v.event if isinstance(v.event, dict) else {}
        what = (f"recorded worker-sink execution {meta['id']} is not a behaviour of WorkerAbs: "
                + (f"invariant {v.invariant} violated" if v.invariant else
                   f"event {json.dumps(v.event)} (line {v.rel_line} of the scenario trace) cannot happen")
                + f"; abstract state <<merge order, flushed prefix, in flush, keys of this flush, emitted, sends returned, handles, exited>> = {v.state}")
        chk.violation(what, {"kind": "recorded", "scenario": meta["scenario"], "rejected_line": v.rel_line, "event": v.event,
                             "trace": [json.loads(l) for l in lines]}, key=f"{prop}:record:{ev.get('ev')}")

    acc = vlib.validate_scenarios(SPECD, "WorkerTrace", "WorkerTrace.cfg", tp, mp, on_reject, chunk=10, jobs=6, stats=chk.extra)
    chk.traces += acc
    metas = vlib.read_ndjson(mp)
    st = chk.extra.setdefault("recorded", {"scenarios": 0, "events": 0, "inputs": 0, "worker_flushes_with_output": 0,
                                           "aggregates_emitted": 0, "exit_timeouts": 0})
    for m in metas:
        st["scenarios"] += 1
        st["events"] += m["events"]
        st["inputs"] += m["merged"]
        st["worker_flushes_with_output"] += m["flushes"]
        st["aggregates_emitted"] += m["emits"]
        st["exit_timeouts"] += m["exit_timeout"]
        s = m["scenario"]
        chk.evaluations += 1
        chk.nontrivial.add("rec:" + json.dumps([len(s["producers"]), s["nk"], s["interval_us"], m["flushes"], m["emits"]]))
    if metas:
        with open(tp) as f:
            head = [json.loads(next(f)) for _ in range(min(14, metas[0]["events"]))]
        chk.sample({"scenario": metas[0]["scenario"], "first_events": head})


# --------------------------------------------------------------------------------------------
# T, mutex-shared sink: merges racing closes of the parent entry
# --------------------------------------------------------------------------------------------
def gen_mx(rng, n):
    out = []
    for i in range(n):
        nm = rng.randint(1, 3)
        per = [rng.randint(6, 60 // nm if nm > 2 else 20) for _ in range(nm)]
        slow_ns = rng.choice([5_000, 20_000, 50_000, 150_000])
        pace = rng.choice([0, 0, 5, 30])
        span_us = max(per) * (slow_ns // 1000 + pace + 2)
        k = rng.randint(2, 5)
        out.append({"id": i + 1, "mergers": per, "slow_ns": slow_ns, "pace_us": pace,
                    "closes_us": [max(1, int(span_us * rng.uniform(0.05, 0.9) / k)) for _ in range(k)],
                    "seed": rng.randrange(1 << 30)})
    return out


def run_T_mutex(chk, prop, scen, tag="mx"):
    sp = os.path.join(chk.dir, f"{tag}-scen.ndjson")
    tp = os.path.join(chk.dir, f"{tag}-trace.ndjson")
    mp = os.path.join(chk.dir, f"{tag}-meta.ndjson")
    vlib.write_ndjson(sp, scen)
    vlib.run_bin("agg", ["mutexrace", "--scenarios", sp, "--out", tp, "--meta", mp], timeout=3600)

    def on_reject(meta, v, lines):
        ev = v.event if isinstance(v.event, dict) else {}
        what = (f"recorded mutex-sink execution {meta['id']} ({len(meta['scenario']['mergers'])} merger threads racing closes of the "
                f"parent entry) is not a behaviour of MutexAbs: "
                + (f"invariant {v.invariant} violated" if v.invariant else
                   f"event {json.dumps(v.event)} (line {v.rel_line} of the scenario trace) cannot happen")
                + f"; abstract state <<merges pending, in effect, held by the aggregate, closes, taken>> = {v.state}")
        chk.violation(what, {"kind": "mutexrace", "scenario": meta["scenario"], "rejected_line": v.rel_line, "event": v.event,
                             "trace": [json.loads(l) for l in lines]}, key=f"{prop}:mutexrace:{ev.get('ev')}")

    acc = vlib.validate_scenarios(SPECD, "MutexTrace", "MutexTrace.cfg", tp, mp, on_reject, chunk=10, jobs=6, stats=chk.extra)
    chk.traces += acc
    st = chk.extra.setdefault("mutex_races", {"scenarios": 0, "events": 0, "closes": 0, "closes_overlapping_a_merge": 0,
                                              "nonempty_closes_before_the_last": 0})
    for m in vlib.read_ndjson(mp):
        st["scenarios"] += 1
        st["events"] += m["events"]
        st["closes"] += m["closes"]
        st["closes_overlapping_a_merge"] += m["closes_overlapping_a_merge"]
        st["nonempty_closes_before_the_last"] += m["nonempty_mid_closes"]
        chk.evaluations += 1
        s = m["scenario"]
        chk.nontrivial.add("mx:" + json.dumps([s["mergers"], s["slow_ns"], m["closes"], m["closes_overlapping_a_merge"], m["nonempty_mid_closes"]]))


# --------------------------------------------------------------------------------------------
# T, worker sink under sustained load with a very short flush interval (counting form)
# --------------------------------------------------------------------------------------------
def gen_load(rng, n):
    out = []
    for i in range(n):
        np_ = rng.randint(2, 3)
        prods = []
        for p in range(np_):
            cnt = rng.choice([150_000, 250_000, 400_000])
            prods.append({"n": cnt, "flush_after": rng.choice([0, 0, cnt // 2, cnt]), "via_guard": rng.random() < 0.25})
        out.append({"id": i + 1, "producers": prods, "nk": rng.randint(1, 4), "interval_us": rng.choice([50, 100, 200]),
                    "seed": rng.randrange(1 << 30), "final_flush": rng.random() < 0.5})
    return out


def run_T_load(chk, prop, scen, tag="load"):
    sp = os.path.join(chk.dir, f"{tag}-scen.ndjson")
    tp = os.path.join(chk.dir, f"{tag}-trace.ndjson")
    mp = os.path.join(chk.dir, f"{tag}-meta.ndjson")
    vlib.write_ndjson(sp, scen)
    vlib.run_bin("agg", ["load", "--scenarios", sp, "--out", tp, "--meta", mp], timeout=3600)

    def on_reject(meta, v, lines):
        ev = v.event if isinstance(v.event, dict) else {}
        what = (f"recorded high-rate worker-sink execution {meta['id']} ({meta['sent']} entries from {len(meta['scenario']['producers'])} "
                f"producers, flush interval {meta['scenario']['interval_us']} us; merged by the worker {meta['merged']}, emitted {meta['emitted']}, "
                f"worker thread panicked: {meta['worker_panicked']}) is rejected by WorkerCountTrace: event {json.dumps(v.event)} "
                f"(line {v.rel_line} of the scenario trace) cannot happen; state <<known sent, finished, flush needs, flushes done, handles, "
                f"worker gone, panicked>> = {v.state}")
        chk.violation(what, {"kind": "load", "scenario": meta["scenario"], "rejected_line": v.rel_line, "event": v.event,
                             "trace": [json.loads(l) for l in lines]}, key=f"{prop}:load:{ev.get('ev')}")

    acc = vlib.validate_scenarios(SPECD, "WorkerCountTrace", "WorkerCountTrace.cfg", tp, mp, on_reject, chunk=20, jobs=4, stats=chk.extra)
    chk.traces += acc
    st = chk.extra.setdefault("load_runs", {"scenarios": 0, "entries_sent": 0, "entries_emitted": 0, "worker_panics": 0})
    for m in vlib.read_ndjson(mp):
        st["scenarios"] += 1
        st["entries_sent"] += m["sent"]
        st["entries_emitted"] += m["emitted"] or 0
        st["worker_panics"] += bool(m["worker_panicked"])
        chk.evaluations += 1
        s = m["scenario"]
        chk.nontrivial.add("load:" + json.dumps([[p["n"], p["flush_after"], p.get("via_guard")] for p in s["producers"]] + [s["nk"], s["interval_us"]]))


# --------------------------------------------------------------------------------------------
def run(prop, tier):
    chk = vlib.Check(prop, tier)
    chk.rule = ("evaluations = TLC-generated histories (merge / flush / guard create, mutate, drop; every history up to the "
                "depth bound + random walks) each replayed into 6 sink arrangements of the real crate and compared at every "
                "flush with the batch the property layer expects, + recorded multi-producer WorkerSink executions validated "
                "by TLC; distinct_nontrivial = distinct histories resp. distinct (producers, keys, interval, flushes, emits)")
    chk.assumptions = [
        "keys and value symbols are interchangeable (the driver maps them to concrete keys / numbers by seeded tables)",
        "std::sync::mpsc is FIFO per channel and linearizable; tokio oneshot completes only on send",
        "recorded runs: summed values are distinct powers of two (<= 60 inputs per run), observations are input ids",
        "termination of the worker thread is observed with a 10 s budget",
        "TLC results are exhaustive only within the constants of the MC_*.cfg files",
    ]
    vlib.cargo_build(["agg"])
    if not getattr(vlib, "SKIP_MC", False):   # VERIF_SKIP_MC: self-test only (the models do not depend on the code)
        r = vlib.model_check(SPECD, "Aggregation", "MC_agg_quick.cfg" if tier == "quick" else "MC_agg.cfg", timeout=3600)
        chk.add_model("Aggregation", r)
        r = vlib.model_check(SPECD, "Worker", "MC_worker.cfg" if tier == "quick" else "MC_worker_big.cfg", timeout=3600)
        chk.add_model("Worker", r)
        r = vlib.model_check(SPECD, "Worker", "MC_worker_live.cfg", timeout=3600)
        chk.add_model("Worker/live", r)
        r = vlib.model_check(SPECD, "MutexSinkRace", "MC_mutex_quick.cfg" if tier == "quick" else "MC_mutex.cfg", timeout=3600)
        chk.add_model("MutexSinkRace", r)
    run_R(chk, prop, tier)
    rng = random.Random(chk.seed * 7919 + 10)
    run_T(chk, prop, gen_scen(rng, 30 if tier == "quick" else 600))
    run_T_mutex(chk, prop, gen_mx(rng, 40 if tier == "quick" else 800))
    run_T_load(chk, prop, gen_load(rng, 10 if tier == "quick" else 150))
    return chk.finish()


def replay(prop, path):
    with open(path) as f:
        v = json.load(f)
    rp = v["replay"]
    chk = vlib.Check(prop + "-replay", "quick")
    vlib.cargo_build(["agg"])
    if rp.get("kind") == "replay":
        chk.seed = rp.get("seed", chk.seed)
        b = rp["behaviour"]
        res = run_replay(chk, [b], "replay", jobs=1)
        bad = judge_replay(chk, prop, [b], res, "replay")
        log("history:", "REPRODUCED" if bad else "passes on the current tree")
        return 1 if bad else 0
    tp = os.path.join(chk.dir, "trace.ndjson")
    vlib.write_ndjson(tp, rp["trace"])
    if rp.get("kind") == "load":
        r = vlib.validate_trace(SPECD, "WorkerCountTrace", "WorkerCountTrace.cfg", tp)
        log("stored trace:", "ACCEPTED" if r.accepted else f"REJECTED at line {r.line}: {r.event}")
        scen = [dict(rp["scenario"], id=i + 1, seed=rp["scenario"].get("seed", 0) + i) for i in range(10)]
        run_T_load(chk, prop, scen, tag="replay")
        log("re-run of the scenario on the current tree (10 seeds):", "REPRODUCED" if chk.violations else "passes")
        return 1 if chk.violations else 0
    if rp.get("kind") == "mutexrace":
        r = vlib.validate_trace(SPECD, "MutexTrace", "MutexTrace.cfg", tp)
        log("stored trace:", "ACCEPTED" if r.accepted else f"REJECTED at line {r.line}: {r.event}")
        scen = [dict(rp["scenario"], id=i + 1, seed=rp["scenario"].get("seed", 0) + i) for i in range(20)]
        run_T_mutex(chk, prop, scen, tag="replay")
        log("re-run of the scenario on the current tree (20 seeds):", "REPRODUCED" if chk.violations else "passes")
        return 1 if chk.violations else 0
    r = vlib.validate_trace(SPECD, "WorkerTrace", "WorkerTrace.cfg", tp)
    log("stored trace:", "ACCEPTED" if r.accepted else f"REJECTED at line {r.line}: {r.event}")
    scen = [dict(rp["scenario"], id=i + 1, seed=rp["scenario"].get("seed", 0) + i) for i in range(10)]
    run_T(chk, prop, scen, tag="replay")
    log("re-run of the scenario on the current tree (10 seeds):", "REPRODUCED" if chk.violations else "passes")
    return 1 if chk.violations else 0
