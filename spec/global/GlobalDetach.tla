---------------------------- MODULE GlobalDetach ----------------------------
(***************************************************************************)
(* C17, concurrent part - property layer for appends racing with attach /  *)
(* detach of a global sink (no test sinks involved: they are thread- or    *)
(* runtime-scoped and covered by GlobalSink.tla).                          *)
(*                                                                         *)
(* Only what the property statement mentions:                              *)
(*  - every try_append takes effect at one instant between its call and    *)
(*    its return (LinApp): with a sink attached at that instant the entry  *)
(*    is accepted by exactly that sink and the call returns Ok, with none  *)
(*    attached the entry is handed back (Err);                             *)
(*  - attach takes effect at one instant (LinAttach); attaching while      *)
(*    attached panics and changes nothing (LinAttachFail);                 *)
(*  - dropping the attach handle detaches at one instant (LinDetach) and   *)
(*    returns only after everything the detached sink had accepted has     *)
(*    been handed to its output and flushed (DetachEnd);                   *)
(*  - an output only ever sees entries its sink accepted, each once.       *)
(* Nothing about locks, queues, writer threads.                            *)
(*                                                                         *)
(* Sinks and entries are positive integers; 0 = none.                      *)
(* Used by GlobalSinkTrace.tla (recorded executions of the real code) and  *)
(* by GlobalSinkRace.tla (lock-level model; TLC checks that it refines     *)
(* this module for every interleaving).                                    *)
(***************************************************************************)
EXTENDS Naturals, Sequences, FiniteSets, TLC

VARIABLES
    aatt,      \* the sink attached now (0 = none)
    pendApp,   \* <<p, e>>: try_append(e) by p called, not yet in effect
    linApp,    \* <<p, e, d>>: in effect with destination d (0 = handed back), not yet returned
    okd,       \* entries whose try_append returned Ok
    errd,      \* entries whose try_append returned Err(entry)
    accepted,  \* sink -> set of entries it accepted
    nexted,    \* sink -> sequence of entries handed to its output
    nflushed,  \* sink -> length of the flushed prefix of nexted
    closedS,   \* sinks whose output has been closed
    astate     \* sink -> "new" | "attaching" | "attlin" | "held" | "faillin" | "failed"
               \*         | "detaching" | "detlin" | "detached"

dvars == <<aatt, pendApp, linApp, okd, errd, accepted, nexted, nflushed, closedS, astate>>

SeqRange(s) == {s[i] : i \in 1..Len(s)}
Flushed(s) == {nexted[s][i] : i \in 1..nflushed[s]}

DInit(S) ==
    /\ aatt = 0 /\ pendApp = {} /\ linApp = {} /\ okd = {} /\ errd = {}
    /\ accepted = [s \in S |-> {}] /\ nexted = [s \in S |-> <<>>] /\ nflushed = [s \in S |-> 0]
    /\ closedS = {} /\ astate = [s \in S |-> "new"]

\* ---- try_append -------------------------------------------------------------
TryStart(p, e) ==
    /\ pendApp' = pendApp \cup {<<p, e>>}
    /\ UNCHANGED <<aatt, linApp, okd, errd, accepted, nexted, nflushed, closedS, astate>>

LinApp(p, e) ==
    /\ <<p, e>> \in pendApp
    /\ pendApp' = pendApp \ {<<p, e>>}
    /\ linApp' = linApp \cup {<<p, e, aatt>>}
    /\ accepted' = IF aatt # 0 THEN [accepted EXCEPT ![aatt] = @ \cup {e}] ELSE accepted
    /\ UNCHANGED <<aatt, okd, errd, nexted, nflushed, closedS, astate>>

TryEnd(p, e, ok) ==
    /\ \E d \in DOMAIN accepted \cup {0} : <<p, e, d>> \in linApp /\ (ok <=> d # 0)
    /\ linApp' = {x \in linApp : ~(x[1] = p /\ x[2] = e)}
    /\ okd' = IF ok THEN okd \cup {e} ELSE okd
    /\ errd' = IF ok THEN errd ELSE errd \cup {e}
    /\ UNCHANGED <<aatt, pendApp, accepted, nexted, nflushed, closedS, astate>>

\* ---- attach -------------------------------------------------------------------
AttachStart(s) ==
    /\ astate[s] = "new" /\ astate' = [astate EXCEPT ![s] = "attaching"]
    /\ UNCHANGED <<aatt, pendApp, linApp, okd, errd, accepted, nexted, nflushed, closedS>>

LinAttach(s) ==
    /\ astate[s] = "attaching" /\ aatt = 0
    /\ aatt' = s /\ astate' = [astate EXCEPT ![s] = "attlin"]
    /\ UNCHANGED <<pendApp, linApp, okd, errd, accepted, nexted, nflushed, closedS>>

LinAttachFail(s) ==
    /\ astate[s] = "attaching" /\ aatt # 0
    /\ astate' = [astate EXCEPT ![s] = "faillin"]
    /\ UNCHANGED <<aatt, pendApp, linApp, okd, errd, accepted, nexted, nflushed, closedS>>

\* attach returned a handle (ok) or panicked (~ok)
AttachEnd(s, ok) ==
    /\ astate[s] = IF ok THEN "attlin" ELSE "faillin"
    /\ astate' = [astate EXCEPT ![s] = IF ok THEN "held" ELSE "failed"]
    /\ UNCHANGED <<aatt, pendApp, linApp, okd, errd, accepted, nexted, nflushed, closedS>>

\* ---- drop of the attach handle ------------------------------------------------
DetachStart(s) ==
    /\ astate[s] = "held" /\ astate' = [astate EXCEPT ![s] = "detaching"]
    /\ UNCHANGED <<aatt, pendApp, linApp, okd, errd, accepted, nexted, nflushed, closedS>>

LinDetach(s) ==
    /\ astate[s] = "detaching" /\ aatt = s
    /\ aatt' = 0 /\ astate' = [astate EXCEPT ![s] = "detlin"]
    /\ UNCHANGED <<pendApp, linApp, okd, errd, accepted, nexted, nflushed, closedS>>

\* "... after flushing what the detached sink had accepted"
DetachFlushed(s) == accepted[s] \subseteq Flushed(s)

DetachEnd(s) ==
    /\ astate[s] = "detlin" /\ DetachFlushed(s)
    /\ astate' = [astate EXCEPT ![s] = "detached"]
    /\ UNCHANGED <<aatt, pendApp, linApp, okd, errd, accepted, nexted, nflushed, closedS>>

\* ---- the sinks' outputs ---------------------------------------------------------
AllNexted == UNION {SeqRange(nexted[s]) : s \in DOMAIN nexted}

\* exactly one destination: only the sink that accepted e hands it on, once
Next(s, e) ==
    /\ e \in accepted[s] /\ e \notin AllNexted /\ s \notin closedS
    /\ nexted' = [nexted EXCEPT ![s] = Append(@, e)]
    /\ UNCHANGED <<aatt, pendApp, linApp, okd, errd, accepted, nflushed, closedS, astate>>

Flush(s) ==
    /\ s \notin closedS
    /\ nflushed' = [nflushed EXCEPT ![s] = Len(nexted[s])]
    /\ UNCHANGED <<aatt, pendApp, linApp, okd, errd, accepted, nexted, closedS, astate>>

Close(s) ==
    /\ s \notin closedS /\ closedS' = closedS \cup {s}
    /\ UNCHANGED <<aatt, pendApp, linApp, okd, errd, accepted, nexted, nflushed, astate>>

\* every call has returned and every attached sink has been detached again: every entry is
\* in exactly one place (the output of one sink, or back with its caller)
Quiesced ==
    /\ pendApp = {} /\ linApp = {} /\ aatt = 0
    /\ okd \cap errd = {}
    /\ \A e \in okd : \E s \in DOMAIN nexted : e \in Flushed(s)
    /\ \A e \in errd : e \notin AllNexted

\* ---- invariants of the property layer ---------------------------------------------
NoDupNext == \A s \in DOMAIN nexted : \A i, j \in 1..Len(nexted[s]) : nexted[s][i] = nexted[s][j] => i = j
OneSink == \A s1, s2 \in DOMAIN nexted : s1 # s2 => SeqRange(nexted[s1]) \cap SeqRange(nexted[s2]) = {}
OnlyAccepted == \A s \in DOMAIN nexted : SeqRange(nexted[s]) \subseteq accepted[s]
AcceptedOnce == \A s1, s2 \in DOMAIN accepted : s1 # s2 => accepted[s1] \cap accepted[s2] = {}
\* a returned Ok means some sink accepted the entry; a returned Err means none did
OkAccepted == /\ \A e \in okd : \E s \in DOMAIN accepted : e \in accepted[s]
              /\ \A e \in errd : \A s \in DOMAIN accepted : e \notin accepted[s]
DInv == NoDupNext /\ OneSink /\ OnlyAccepted /\ AcceptedOnce /\ OkAccepted
=============================================================================
