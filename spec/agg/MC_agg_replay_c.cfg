\* thorough: every history of length 6 with up to 2 live guards
CONSTANTS
  NK = 2
  Vals = {1, 2}
  MaxIn = 6
  MaxGuards = 2
  MaxFlush = 6
  Depth = 6
SPECIFICATION RSpecA
INVARIANT Emit
CONSTRAINT Bound
CHECK_DEADLOCK FALSE
