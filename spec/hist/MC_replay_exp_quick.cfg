CONSTANTS
  Strategy = "exp"
  Procs = {1}
  MaxOps = 0
  Occs = {2}
  MaxDrains = 0
  Depth = 4
SPECIFICATION RSpec
INVARIANT Emit
INVARIANT RConservation
CONSTRAINT Bound
CHECK_DEADLOCK FALSE
