//! Cooperative controller over the verification points compiled into the crates under test
//! (`metrique_writer_core::verif::point`) and the harness's own points.
//!
//! Modes:
//! * `Off`      — points do nothing (beyond an optional log)
//! * `Gate`     — a thread that is a registered *actor* blocks at every *gating* point until the
//!                controller grants it; used to replay a TLC behaviour (sequence of actor steps)
//! * `Perturb`  — free running, but each point yields / sleeps pseudo-randomly (schedule noise)

use std::cell::Cell;
use std::collections::{HashMap, HashSet};
use std::sync::{Arc, Condvar, Mutex, OnceLock};
use std::time::{Duration, Instant};

pub type ActorId = u32;

thread_local! {
    static ACTOR: Cell<Option<ActorId>> = const { Cell::new(None) };
    static RNG: Cell<u64> = const { Cell::new(0) };
}

#[derive(Clone, Debug, PartialEq)]
pub enum Arrival {
    At(&'static str, Vec<i64>),
    Finished,
    /// did not arrive within the timeout (blocked in a real park/join/lock, or still running)
    Blocked,
}

#[derive(Clone, Debug)]
enum A {
    Running,
    At {
        name: &'static str,
        args: Vec<i64>,
        granted: bool,
    },
    Finished,
}

#[derive(Clone, Copy, PartialEq, Debug)]
pub enum Mode {
    Off,
    Gate,
    Perturb { seed: u64, permille: u32, max_us: u32 },
}

struct St {
    mode: Mode,
    thread_names: HashMap<String, ActorId>,
    actors: HashMap<ActorId, (A, u64)>, // state, arrival generation
    gating: HashSet<&'static str>,
    points: Vec<(ActorId, &'static str, Vec<i64>)>,
    log_points: bool,
    /// fixed delay (µs) at named points, in modes Off and Perturb: widens one specific window
    delays: HashMap<String, u64>,
}

pub struct Controller {
    st: Mutex<St>,
    cv: Condvar,
    /// fast path: mode is Off and points are not logged
    idle: std::sync::atomic::AtomicBool,
}

static CTRL: OnceLock<Arc<Controller>> = OnceLock::new();

/// The process-wide controller; the first call installs the hook into the crates under test.
pub fn controller() -> Arc<Controller> {
    CTRL.get_or_init(|| {
        let c = Arc::new(Controller {
            st: Mutex::new(St {
                mode: Mode::Off,
                thread_names: HashMap::new(),
                actors: HashMap::new(),
                gating: HashSet::new(),
                points: Vec::new(),
                log_points: false,
                delays: HashMap::new(),
            }),
            cv: Condvar::new(),
            idle: std::sync::atomic::AtomicBool::new(true),
        });
        let c2 = c.clone();
        metrique_writer_core::verif::install(Some(Arc::new(move |name, args| {
            c2.on_point(name, args)
        })));
        c
    })
    .clone()
}

/// Declare the calling thread to be actor `id` (harness threads).
pub fn set_actor(id: ActorId) {
    ACTOR.with(|a| a.set(Some(id)));
}

/// A harness-level point (same semantics as a point inside the code under test).
pub fn point(name: &'static str, args: &[i64]) {
    controller().on_point(name, args);
}

/// Marks the actor finished when dropped (put at the top of an actor thread's closure).
pub struct ActorGuard(pub ActorId);
impl ActorGuard {
    pub fn new(id: ActorId) -> Self {
        set_actor(id);
        ActorGuard(id)
    }
}
impl Drop for ActorGuard {
    fn drop(&mut self) {
        controller().finish(self.0);
    }
}

fn next_rand(seed: u64) -> u64 {
    RNG.with(|r| {
        let mut x = r.get();
        if x == 0 {
            let tid = {
                use std::hash::{Hash, Hasher};
                let mut h = std::collections::hash_map::DefaultHasher::new();
                std::thread::current().id().hash(&mut h);
                h.finish()
            };
            x = seed ^ tid ^ 0x9E37_79B9_7F4A_7C15;
            if x == 0 {
                x = 1;
            }
        }
        x ^= x << 13;
        x ^= x >> 7;
        x ^= x << 17;
        r.set(x);
        x
    })
}

impl Controller {
    fn current_actor(&self, st: &St) -> Option<ActorId> {
        if let Some(a) = ACTOR.with(|a| a.get()) {
            return Some(a);
        }
        if st.thread_names.is_empty() {
            return None;
        }
        let t = std::thread::current();
        let id = t.name().and_then(|n| st.thread_names.get(n).copied());
        if let Some(id) = id {
            ACTOR.with(|a| a.set(Some(id)));
        }
        id
    }

    fn on_point(&self, name: &'static str, args: &[i64]) {
        if self.idle.load(std::sync::atomic::Ordering::Relaxed) {
            return;
        }
        let mut st = self.st.lock().unwrap();
        if !st.delays.is_empty() && st.mode != Mode::Gate {
            if let Some(us) = st.delays.get(name).copied() {
                drop(st);
                std::thread::sleep(Duration::from_micros(us));
                st = self.st.lock().unwrap();
            }
        }
        match st.mode {
            Mode::Off => {
                if st.log_points {
                    let a = self.current_actor(&st).unwrap_or(u32::MAX);
                    st.points.push((a, name, args.to_vec()));
                }
            }
            Mode::Perturb {
                seed,
                permille,
                max_us,
            } => {
                if st.log_points {
                    let a = self.current_actor(&st).unwrap_or(u32::MAX);
                    st.points.push((a, name, args.to_vec()));
                }
                drop(st);
                let r = next_rand(seed);
                if (r % 1000) < permille as u64 {
                    let k = (r >> 20) % 4;
                    if k == 0 {
                        std::thread::yield_now();
                    } else {
                        let us = (r >> 24) % (max_us.max(1) as u64);
                        std::thread::sleep(Duration::from_micros(us));
                    }
                }
            }
            Mode::Gate => {
                let Some(actor) = self.current_actor(&st) else {
                    return;
                };
                if !st.actors.contains_key(&actor) {
                    return;
                }
                if st.log_points {
                    st.points.push((actor, name, args.to_vec()));
                }
                if !st.gating.contains(name) {
                    return;
                }
                {
                    let e = st.actors.get_mut(&actor).unwrap();
                    e.0 = A::At {
                        name,
                        args: args.to_vec(),
                        granted: false,
                    };
                    e.1 += 1;
                }
                self.cv.notify_all();
                loop {
                    if st.mode != Mode::Gate {
                        break;
                    }
                    match st.actors.get(&actor) {
                        Some((A::At { granted: true, .. }, _)) => break,
                        Some((A::At { .. }, _)) => {}
                        _ => break,
                    }
                    st = self.cv.wait(st).unwrap();
                }
                if let Some(e) = st.actors.get_mut(&actor) {
                    e.0 = A::Running;
                }
            }
        }
    }

    fn finish(&self, actor: ActorId) {
        let mut st = self.st.lock().unwrap();
        if let Some(e) = st.actors.get_mut(&actor) {
            e.0 = A::Finished;
            e.1 += 1;
        }
        self.cv.notify_all();
    }

    /// Start gating. `thread_names` maps names of threads spawned by the code under test to
    /// actors; harness threads call `set_actor` themselves.
    pub fn begin_gate(
        &self,
        actors: &[ActorId],
        thread_names: &[(String, ActorId)],
        gating: &[&'static str],
        log_points: bool,
    ) {
        let mut st = self.st.lock().unwrap();
        st.mode = Mode::Gate;
        self.idle.store(false, std::sync::atomic::Ordering::SeqCst);
        st.thread_names = thread_names.iter().cloned().collect();
        st.actors = actors.iter().map(|a| (*a, (A::Running, 0))).collect();
        st.gating = gating.iter().copied().collect();
        st.points.clear();
        st.log_points = log_points;
    }

    pub fn begin_perturb(&self, seed: u64, permille: u32, max_us: u32, log_points: bool) {
        let mut st = self.st.lock().unwrap();
        st.mode = Mode::Perturb {
            seed,
            permille,
            max_us,
        };
        self.idle.store(false, std::sync::atomic::Ordering::SeqCst);
        st.thread_names.clear();
        st.actors.clear();
        st.points.clear();
        st.log_points = log_points;
        self.cv.notify_all();
    }

    /// Every thread that reaches the point `name` sleeps `us` microseconds there (modes Off and
    /// Perturb); `clear_point_delays` removes all such delays.
    pub fn set_point_delay(&self, name: &str, us: u64) {
        let mut st = self.st.lock().unwrap();
        st.delays.insert(name.to_string(), us);
        self.idle.store(false, std::sync::atomic::Ordering::SeqCst);
    }
    pub fn clear_point_delays(&self) {
        let mut st = self.st.lock().unwrap();
        st.delays.clear();
        if st.mode == Mode::Off {
            self.idle.store(!st.log_points, std::sync::atomic::Ordering::SeqCst);
        }
    }

    /// Stop gating / perturbing; every blocked actor continues freely.
    pub fn free_run(&self) {
        let mut st = self.st.lock().unwrap();
        st.mode = Mode::Off;
        self.idle.store(!st.log_points && st.delays.is_empty(), std::sync::atomic::Ordering::SeqCst);
        self.cv.notify_all();
    }

    pub fn take_points(&self) -> Vec<(ActorId, &'static str, Vec<i64>)> {
        std::mem::take(&mut self.st.lock().unwrap().points)
    }

    fn arrival_of(a: &A) -> Option<Arrival> {
        match a {
            A::At {
                name,
                args,
                granted: false,
            } => Some(Arrival::At(name, args.clone())),
            A::Finished => Some(Arrival::Finished),
            _ => None,
        }
    }

    /// Wait until `actor` is stopped at a gating point (or finished).
    pub fn wait_arrival(&self, actor: ActorId, timeout: Duration) -> Arrival {
        let deadline = Instant::now() + timeout;
        let mut st = self.st.lock().unwrap();
        loop {
            if let Some((a, _)) = st.actors.get(&actor) {
                if let Some(arr) = Self::arrival_of(a) {
                    return arr;
                }
            } else {
                return Arrival::Finished;
            }
            let now = Instant::now();
            if now >= deadline {
                return Arrival::Blocked;
            }
            let (g, _) = self.cv.wait_timeout(st, deadline - now).unwrap();
            st = g;
        }
    }

    /// Where the actor currently is, without waiting.
    pub fn peek(&self, actor: ActorId) -> Arrival {
        let st = self.st.lock().unwrap();
        match st.actors.get(&actor) {
            Some((a, _)) => Self::arrival_of(a).unwrap_or(Arrival::Blocked),
            None => Arrival::Finished,
        }
    }

    /// Grant `actor` (if it is stopped at a point) and wait for its next arrival.
    pub fn step(&self, actor: ActorId, timeout: Duration) -> Arrival {
        {
            let mut st = self.st.lock().unwrap();
            if let Some((A::At { granted, .. }, _)) = st.actors.get_mut(&actor) {
                *granted = true;
            }
            self.cv.notify_all();
        }
        self.wait_arrival(actor, timeout)
    }

    /// Grant without waiting (the step is expected to block, e.g. a `join`).
    pub fn grant(&self, actor: ActorId) {
        let mut st = self.st.lock().unwrap();
        if let Some((A::At { granted, .. }, _)) = st.actors.get_mut(&actor) {
            *granted = true;
        }
        self.cv.notify_all();
    }
}
